#!/usr/bin/env python3
"""seed_prompt.py <PROP> <suffix>: writes /tmp/agent-<PROP><suffix>.txt, the only text a seeding sub-agent gets:
the property (from properties.jsonl), the summaries of earlier seeded changes for it, and the working rules.
Nothing about the checks in /verif goes into it."""
import json, sys, glob, os
prop, suf = sys.argv[1], sys.argv[2]
sid = prop + suf
P = {json.loads(l)['id']: json.loads(l) for l in open('/verif/properties.jsonl')}[prop]
earlier = []
for d in sorted(glob.glob(f'/verif/seeded/{prop}*')):
    m = os.path.join(d, 'meta.json')
    if os.path.exists(m):
        earlier.append(json.load(open(m))['summary'])
mech = "; ".join(f"{m['name']} @ {m['where']}" for m in P['anchors'].get('mechanism', []))
note = ""
if earlier:
    note = ("\nNOTE: %d earlier attempts already produced the following changes for this property; yours must be DIFFERENT from all of them in mechanism and location "
            "(another code path / file, another clause of the property, another kind of trigger - e.g. if they were about sizes, make yours about ordering, timing, a fault, "
            "a configuration value, or the interaction of two components):\n" % len(earlier)) + "\n".join(f'  {i+1}. "{e}"' for i, e in enumerate(earlier)) + "\n"
wt = f"/tmp/wt-{sid}"
txt = f"""You are helping to evaluate a verification effort by producing ONE realistic, subtle regression ("seeded change") for a Rust code base. Work ONLY inside the git worktree at {wt} (a checkout of the repository jxo-me/anytls-rs: a Rust implementation of the AnyTLS proxy protocol - TLS-wrapped stream multiplexing sessions with framed commands, padding scheme, session pool, SOCKS5/HTTP front-ends, UDP-over-TCP). Do not read or touch /repo or /verif, do not commit anything, do not push. Everything is offline: always pass --offline to cargo and build into the worktree's own target dir (run cargo from {wt}; it will create {wt}/target). The sandbox has no network.

The property that your change must break:

{prop}: {P['title']}

STATEMENT: {P['statement']}

QUANTIFIED OVER: {P['quantifier']['text']}

WHY THE EXISTING TESTS CANNOT SETTLE IT: {P['why_tests_cant']}

CODE ANCHORS (files): {', '.join(P['anchors']['files'])}
MECHANISMS: {mech}

{note}
Your task:
1. Read the relevant code (start from the anchor files above; the crate has a cargo feature `verif-hooks` that only adds instrumentation - ignore it, do not rely on it and do not change hook lines).
2. Design a change to the repository's source (src/ only; keep it small, 1-30 lines, the kind of regression a real refactoring, optimisation or "clean-up" could introduce) that BREAKS the property above, while
   - the crate still compiles (cargo build --offline, and also with --features verif-hooks), and
   - the existing test suite still passes: `cargo test --workspace --no-fail-fast --offline` (73 tests) must stay green with your change.
   IMPORTANT: the breakage must need something specific in order to manifest - a particular interleaving or timing, a fault at a particular point, a multi-step sequence of operations, an unusual input (size/boundary/value), a particular configuration, or two cooperating sites that each look fine alone. Do NOT produce a change that ordinary use (one short request through the proxy) would expose at once.
3. Write a demonstration: a new integration test file under tests/ (e.g. tests/seeded_{sid}.rs) or a small example program that FAILS with your change and PASSES without it. Prove both: run it with the change applied (must fail) and with the change reverted (must pass). NEVER use `git stash` (the stash is shared between several worktrees of this repository and other agents work in parallel): save your change with `git diff -- src > {wt}/my.diff`, revert with `git checkout -- src`, re-apply with `git apply {wt}/my.diff`. Use only crates already available to the repository (tokio, tokio-util, bytes, rustls, tokio-rustls, rcgen, tempfile, etc. - check Cargo.toml and Cargo.lock); nothing can be downloaded.
4. Leave the worktree with your source change APPLIED (uncommitted) and the demonstration file present (untracked). Then write these two files:
   - {wt}/SEEDED_PATCH.diff : output of `git diff -- src` (the source change only)
   - {wt}/SEEDED_NOTES.md : which property it breaks, what the change is, precisely what is needed for it to manifest, the exact commands you ran (build, full test suite result with pass count, demonstration failing with the change and passing without), and the path of the demonstration file.
Finish with a short report (under 200 words) summarising the change and what triggers it. If your first idea turns out to be caught by the existing tests or cannot be demonstrated, try another idea; report honestly if you could not produce one.
"""
open(f"/tmp/agent-{sid}.txt", "w").write(txt)
print(f"/tmp/agent-{sid}.txt", len(earlier), "earlier")
