#!/bin/bash
# soak.sh <seeds...>: run every quick check with several seeds, report anything that is not a clean pass
cd /verif
for s in "$@"; do
  for p in $(python3 -c "import json; print(' '.join(c['property_id'] for c in json.load(open('MANIFEST.json'))['checks']))"); do
    out=$(VERIF_SEED=$s ./check $p quick 2>&1); rc=$?
    if [ $rc -ne 0 ] || echo "$out" | grep -q "VIOLATION\|INCONCLUSIVE"; then echo "seed=$s $p rc=$rc"; echo "$out" | grep -v KNOWN-FINDING | cut -c1-400 | head -8; fi
  done
  echo "seed $s done"
done
