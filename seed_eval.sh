#!/bin/bash
# seed_eval.sh <ID> [props...]: confirm a seeded change produced in /tmp/wt-<ID> and run the checks against it.
# 1. in the scratch worktree: full suite with the change, demonstration with / without the change
# 2. store patch.diff, demonstration, notes under /verif/seeded/<ID>/
# 3. apply to /repo, run the quick checks of the given properties (default: the ID's own), undo
set -u
ID="$1"; shift
NAME="${SEED_NAME:-$ID}"
WT="/tmp/wt-$ID"
OUT="/verif/seeded/$NAME"
PROPS="${*:-${ID:0:3}}"
PHASE="${SEED_PHASE:-all}"   # all | confirm (worktree only) | check (apply to /repo and run the checks)
mkdir -p "$OUT"
if [ "$PHASE" != check ]; then
cd "$WT" || exit 2
git diff -- src > "$OUT/patch.diff"
[ -s "$OUT/patch.diff" ] || { echo "no source change in $WT"; exit 2; }
DEMO=$(git status --porcelain | awk '/^\?\? (tests|examples)\//{print $2}' | head -1)
echo "demo file: $DEMO"
[ -n "$DEMO" ] && cp "$DEMO" "$OUT/" 
[ -f SEEDED_NOTES.md ] && cp SEEDED_NOTES.md "$OUT/notes.md"
DEMONAME=$(basename "${DEMO%.rs}")
{
echo "== suite with the change"
cargo test --workspace --no-fail-fast --offline 2>&1 | grep -E "^test result" | awk '{p+=$4; f+=$6} END {print "passed",p,"failed",f}'
echo "== demonstration with the change"
cargo test --offline --test "$DEMONAME" 2>&1 | grep -E "^test result|FAILED|panicked" | head -5
git checkout -- src   # (never git stash: the stash is shared between worktrees)
echo "== demonstration without the change"
cargo test --offline --test "$DEMONAME" 2>&1 | grep -E "^test result|FAILED|panicked" | head -5
git apply "$OUT/patch.diff"
} 2>&1 | tee "$OUT/confirm.log"
fi
[ "$PHASE" = confirm ] && exit 0
cd /verif
git -C /repo apply "$OUT/patch.diff" || { echo "patch does not apply to /repo"; exit 2; }
# evidence written while a seeded change is applied is not evidence about /repo: keep the real files aside
EVBAK=$(mktemp -d /tmp/evidence-bak.XXXX); cp -a /verif/evidence/. "$EVBAK/"
for P in $PROPS; do
  echo "== check $P against the change"
  ./check "$P" quick 2>&1 | grep -E "VIOLATION|oracle=|violations=|INCONCLUSIVE" | cut -c1-300 | tee -a "$OUT/checks.log"
done
git -C /repo checkout -- .
cp -a "$EVBAK/." /verif/evidence/; rm -rf "$EVBAK"
for P in $PROPS; do rm -f /verif/replays/${P}-*.json 2>/dev/null; done
git -C /repo status --short
