#!/bin/bash
cd /verif
for p in "$@"; do
  s=$(date +%s); out=$(./check $p thorough 2>&1); rc=$?; e=$(date +%s)
  echo "$p rc=$rc $((e-s))s"; echo "$out" | grep -v KNOWN-FINDING | cut -c1-300 | tail -4
done
