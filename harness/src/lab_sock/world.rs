//! A long-lived loopback world per worker thread: real server, real client, both front-ends and
//! a few targets. Building it costs a few milliseconds of TLS set-up, so cases share it; every
//! case observes only deltas (connection counts before/after) and its own connections.

use super::*;
use std::cell::RefCell;

pub struct World {
    pub rt: tokio::runtime::Runtime,
    pub server: SocketAddr,
    pub client: Arc<Client>,
    pub socks: SocketAddr,
    pub http: SocketAddr,
    /// echo target on this worker's first address
    pub echo_a: TcpTarget,
    /// echo target on this worker's second address
    pub echo_b: TcpTarget,
    /// echo target on 127.0.0.1 (reachable as "localhost")
    pub echo_local: TcpTarget,
    /// echo target on ::1
    pub echo_v6: Option<TcpTarget>,
    /// a port on this worker's address where nothing listens
    pub closed_port: SocketAddr,
}

thread_local! {
    static WORLD: RefCell<Option<World>> = const { RefCell::new(None) };
    static USES: std::cell::Cell<usize> = const { std::cell::Cell::new(0) };
}

/// A world is thrown away after this many cases: tunnels are never torn down end to end (known
/// finding C08.P1), so every conversation leaves sockets behind in the world's process.
const WORLD_LIFETIME: usize = 250;

/// More than 40 % of the descriptor limit in use: the worlds (all workers look at the same count,
/// each throws its own away) are rebuilt before a case can fail for lack of descriptors.
pub fn fds_running_out() -> bool {
    let (used, limit) = crate::engine::fd_usage();
    used * 5 > limit * 2
}

fn build() -> Result<World, Fail> {
    let rt = tokio::runtime::Builder::new_multi_thread().worker_threads(2).enable_all().build().map_err(|e| infra(format!("runtime: {e}")))?;
    let parts = rt.block_on(async {
        let scheme = anytls_rs::padding::DEFAULT_PADDING_SCHEME;
        let server = start_real_server(scheme).await?;
        // Pool housekeeping must stay out of the shared world: with the default 30 s / 60 s settings
        // the reaper closes sessions that carry live streams (known finding C12.inuse), which would
        // fail unrelated requests of long runs. Families about the pool build their own client.
        let quiet = SessionPoolConfig { check_interval: Duration::from_secs(3600), idle_timeout: Duration::from_secs(7200), min_idle_sessions: 1 };
        let client = real_client(server, scheme, quiet)?;
        let socks = start_socks5(client.clone()).await?;
        let http = start_http(client.clone()).await?;
        let echo_a = TcpTarget::start(IpAddr::V4(worker_ip()), TargetMode::Echo).await?;
        let echo_b = TcpTarget::start(IpAddr::V4(worker_ip_n(2)), TargetMode::Echo).await?;
        let echo_local = TcpTarget::start(IpAddr::V4(Ipv4Addr::LOCALHOST), TargetMode::Echo).await?;
        let echo_v6 = TcpTarget::start(IpAddr::V6(std::net::Ipv6Addr::LOCALHOST), TargetMode::Echo).await.ok();
        let closed_port = SocketAddr::new(IpAddr::V4(worker_ip_n(3)), free_port(IpAddr::V4(worker_ip_n(3)))?);
        Ok::<_, Fail>((server, client, socks, http, echo_a, echo_b, echo_local, echo_v6, closed_port))
    })?;
    let (server, client, socks, http, echo_a, echo_b, echo_local, echo_v6, closed_port) = parts;
    Ok(World { rt, server, client, socks, http, echo_a, echo_b, echo_local, echo_v6, closed_port })
}

/// Run `f` against this worker's world (built on first use).
pub fn with_world<T>(f: impl FnOnce(&World) -> Result<T, Fail>) -> Result<T, Fail> {
    let n = USES.with(|u| {
        u.set(u.get() + 1);
        u.get()
    });
    if n % WORLD_LIFETIME == 0 || ((n % 8 == 0 || crate::engine::fd_usage().1 < 8192) && fds_running_out()) {
        reset_world();
    }
    WORLD.with(|w| {
        let mut g = w.borrow_mut();
        if g.is_none() {
            *g = Some(build()?);
        }
        f(g.as_ref().unwrap())
    })
}

/// Throw this worker's world away (after a case that may have damaged it).
pub fn reset_world() {
    WORLD.with(|w| {
        if let Some(world) = w.borrow_mut().take() {
            world.rt.shutdown_background();
        }
    });
}
