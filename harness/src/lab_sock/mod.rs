//! Lab-S: the loopback-socket lab. Everything stays on 127.0.0.0/8 and ::1.

pub mod dns;
pub mod refpeer;
pub mod world;

use crate::engine::Fail;
use anytls_rs::client::{Client, SessionPoolConfig};
use anytls_rs::padding::PaddingFactory;
use anytls_rs::server::Server;
use std::future::Future;
use std::net::{IpAddr, Ipv4Addr, SocketAddr};
use std::sync::atomic::{AtomicUsize, Ordering};
use std::sync::{Arc, Mutex};
use tokio::io::{AsyncReadExt, AsyncWriteExt};
use tokio::net::{TcpListener, TcpStream, UdpSocket};
use tokio::time::Duration;

/// Infrastructure trouble (port allocation, bind) is reported as inconclusive, never as a violation.
pub fn infra(what: impl Into<String>) -> Fail {
    Fail::new("INFRA", "INFRA", what)
}

/// Run a future on a fresh real-time runtime (2 worker threads); everything spawned is dropped
/// with the runtime.
pub fn run_real<F: Future>(f: F) -> F::Output {
    let rt = tokio::runtime::Builder::new_multi_thread().worker_threads(2).enable_all().build().expect("runtime");
    let out = rt.block_on(f);
    rt.shutdown_background();
    out
}

thread_local! {
    static WORKER_IP: std::cell::Cell<Option<Ipv4Addr>> = const { std::cell::Cell::new(None) };
}
static NEXT_WORKER: AtomicUsize = AtomicUsize::new(1);

/// A loopback address private to this worker thread of this process: 127.<pid-derived>.<worker>.1
pub fn worker_ip() -> Ipv4Addr {
    WORKER_IP.with(|c| {
        if let Some(ip) = c.get() {
            return ip;
        }
        let w = NEXT_WORKER.fetch_add(1, Ordering::Relaxed);
        let pid = std::process::id();
        let ip = Ipv4Addr::new(127, (pid % 200 + 20) as u8, (w % 250 + 1) as u8, 1);
        c.set(Some(ip));
        ip
    })
}

/// Another address of this worker (for targets that must be told apart by address).
pub fn worker_ip_n(n: u8) -> Ipv4Addr {
    let o = worker_ip().octets();
    Ipv4Addr::new(o[0], o[1], o[2], n.max(2))
}

pub fn free_port(ip: IpAddr) -> Result<u16, Fail> {
    let l = std::net::TcpListener::bind(SocketAddr::new(ip, 0)).map_err(|e| infra(format!("cannot allocate a port on {ip}: {e}")))?;
    let p = l.local_addr().map_err(|e| infra(e.to_string()))?.port();
    drop(l);
    Ok(p)
}

pub async fn wait_listening(addr: SocketAddr) -> Result<(), Fail> {
    for _ in 0..500 {
        if TcpStream::connect(addr).await.is_ok() {
            return Ok(());
        }
        tokio::time::sleep(Duration::from_millis(10)).await;
    }
    Err(infra(format!("listener on {addr} did not come up")))
}

pub const PASSWORD: &str = "correct horse battery staple";

/// Start the real server (default TCP proxy handler) on a fresh port of this worker's address.
pub async fn start_real_server(scheme: &str) -> Result<SocketAddr, Fail> {
    start_real_server_with(scheme, PASSWORD).await
}

/// The real server configured with this password.
pub async fn start_real_server_with(scheme: &str, password: &str) -> Result<SocketAddr, Fail> {
    let ip = IpAddr::V4(worker_ip());
    let port = free_port(ip)?;
    let addr = SocketAddr::new(ip, port);
    let cfg = anytls_rs::util::tls::create_server_config().map_err(|e| infra(format!("server tls config: {e}")))?;
    let acceptor = Arc::new(tokio_rustls::TlsAcceptor::from(cfg));
    let padding = Arc::new(PaddingFactory::new(scheme.as_bytes()).map_err(infra)?);
    let server = Server::new(password, acceptor, padding, None);
    let a = addr.to_string();
    tokio::spawn(async move {
        let _ = server.listen(&a).await;
    });
    wait_listening_quiet(addr).await?;
    Ok(addr)
}

/// Wait for a listener without completing a protocol exchange on it (plain TCP connect + close).
pub async fn wait_listening_quiet(addr: SocketAddr) -> Result<(), Fail> {
    wait_listening(addr).await
}

pub fn real_client(server: SocketAddr, scheme: &str, pool: SessionPoolConfig) -> Result<Arc<Client>, Fail> {
    let cfg = anytls_rs::util::tls::create_client_config().map_err(|e| infra(format!("client tls config: {e}")))?;
    let connector = Arc::new(tokio_rustls::TlsConnector::from(cfg));
    let padding = Arc::new(PaddingFactory::new(scheme.as_bytes()).map_err(infra)?);
    let name = tokio_rustls::rustls::pki_types::ServerName::IpAddress(server.ip().into());
    Ok(Arc::new(Client::with_pool_config(PASSWORD, server.to_string(), name, connector, padding, pool)))
}

pub async fn start_socks5(client: Arc<Client>) -> Result<SocketAddr, Fail> {
    let ip = IpAddr::V4(worker_ip());
    let addr = SocketAddr::new(ip, free_port(ip)?);
    let a = addr.to_string();
    tokio::spawn(async move {
        let _ = anytls_rs::client::start_socks5_server(&a, client).await;
    });
    wait_listening(addr).await?;
    Ok(addr)
}

pub async fn start_http(client: Arc<Client>) -> Result<SocketAddr, Fail> {
    let ip = IpAddr::V4(worker_ip());
    let addr = SocketAddr::new(ip, free_port(ip)?);
    let a = addr.to_string();
    tokio::spawn(async move {
        let _ = anytls_rs::client::start_http_proxy_server(&a, client).await;
    });
    wait_listening(addr).await?;
    Ok(addr)
}

// ------------------------------------------------------------------------------------------
// targets

#[derive(Clone, Debug, PartialEq)]
pub enum TargetMode {
    /// read everything, write nothing
    Sink,
    /// echo every byte back
    Echo,
    /// on accept: send this, then half-close; keep reading
    SendThenShutdown(Vec<u8>),
    /// on accept: send this and close the connection
    SendThenClose(Vec<u8>),
    /// once this many bytes have arrived: send the reply (the connection stays open)
    ReplyAfter(usize, Vec<u8>),
    /// once this many bytes have arrived: send the reply and close
    ReplyAfterThenClose(usize, Vec<u8>),
    /// on accept: send the first part, stay quiet for this many milliseconds, send the second part and
    /// close the connection
    SendPauseSendThenClose(Vec<u8>, u64, Vec<u8>),
}

#[derive(Default, Debug)]
pub struct ConnRec {
    pub received: Vec<u8>,
    pub eof: bool,
    pub error: Option<String>,
    pub accepted_at: Option<std::time::Instant>,
}

pub struct TcpTarget {
    pub addr: SocketAddr,
    pub conns: Arc<Mutex<Vec<Arc<Mutex<ConnRec>>>>>,
}

impl TcpTarget {
    pub async fn start(ip: IpAddr, mode: TargetMode) -> Result<Self, Fail> {
        let l = TcpListener::bind(SocketAddr::new(ip, 0)).await.map_err(|e| infra(format!("target bind on {ip}: {e}")))?;
        let addr = l.local_addr().map_err(|e| infra(e.to_string()))?;
        let conns: Arc<Mutex<Vec<Arc<Mutex<ConnRec>>>>> = Default::default();
        let c2 = conns.clone();
        tokio::spawn(async move {
            loop {
                let Ok((mut s, _)) = l.accept().await else { break };
                let _ = s.set_nodelay(true);
                let rec = Arc::new(Mutex::new(ConnRec { accepted_at: Some(std::time::Instant::now()), ..Default::default() }));
                c2.lock().unwrap().push(rec.clone());
                let mode = mode.clone();
                tokio::spawn(async move {
                    match &mode {
                        TargetMode::SendThenShutdown(d) => {
                            let _ = s.write_all(d).await;
                            let _ = s.shutdown().await;
                        }
                        TargetMode::SendThenClose(d) => {
                            let _ = s.write_all(d).await;
                            return;
                        }
                        TargetMode::SendPauseSendThenClose(a, ms, b) => {
                            let _ = s.write_all(a).await;
                            tokio::time::sleep(Duration::from_millis(*ms)).await;
                            let _ = s.write_all(b).await;
                            return;
                        }
                        _ => {}
                    }
                    let mut buf = vec![0u8; 65536];
                    let mut replied = false;
                    if let TargetMode::ReplyAfter(0, reply) = &mode {
                        replied = true;
                        let _ = s.write_all(reply).await;
                    }
                    loop {
                        match s.read(&mut buf).await {
                            Ok(0) => {
                                rec.lock().unwrap().eof = true;
                                break;
                            }
                            Ok(n) => {
                                let total = {
                                    let mut g = rec.lock().unwrap();
                                    g.received.extend_from_slice(&buf[..n]);
                                    g.received.len()
                                };
                                if mode == TargetMode::Echo && s.write_all(&buf[..n]).await.is_err() {
                                    break;
                                }
                                if let TargetMode::ReplyAfterThenClose(need, reply) = &mode {
                                    if total >= *need {
                                        let _ = s.write_all(reply).await;
                                        let _ = s.shutdown().await;
                                        // (read on until the proxy closes: nothing is left unread, no reset)
                                        let mut sink = vec![0u8; 4096];
                                        while matches!(s.read(&mut sink).await, Ok(n) if n > 0) {}
                                        rec.lock().unwrap().eof = true;
                                        break;
                                    }
                                }
                                if let TargetMode::ReplyAfter(need, reply) = &mode {
                                    if !replied && total >= *need {
                                        replied = true;
                                        // (a moment later: the application's half-close has travelled by then)
                                        tokio::time::sleep(Duration::from_millis(60)).await;
                                        if s.write_all(reply).await.is_err() {
                                            break;
                                        }
                                    }
                                }
                            }
                            Err(e) => {
                                rec.lock().unwrap().error = Some(e.to_string());
                                break;
                            }
                        }
                    }
                });
            }
        });
        Ok(Self { addr, conns })
    }
    pub fn n_conns(&self) -> usize {
        self.conns.lock().unwrap().len()
    }
    pub fn conn(&self, i: usize) -> Option<Arc<Mutex<ConnRec>>> {
        self.conns.lock().unwrap().get(i).cloned()
    }
    pub fn total_received(&self) -> usize {
        self.conns.lock().unwrap().iter().map(|c| c.lock().unwrap().received.len()).sum()
    }
}

pub struct UdpTarget {
    pub addr: SocketAddr,
    pub received: Arc<Mutex<Vec<(SocketAddr, Vec<u8>)>>>,
    pub sock: Arc<UdpSocket>,
    task: tokio::task::JoinHandle<()>,
}

impl UdpTarget {
    pub async fn start(ip: IpAddr) -> Result<Self, Fail> {
        Self::start_at(SocketAddr::new(ip, 0), Default::default()).await
    }
    /// Close the socket (datagrams to the port are answered with ICMP port unreachable from now on);
    /// returns the address and the record so that the target can come back with `start_at`.
    pub async fn stop(self) -> (SocketAddr, Arc<Mutex<Vec<(SocketAddr, Vec<u8>)>>>) {
        self.task.abort();
        let _ = self.task.await;
        (self.addr, self.received)
    }
    pub async fn start_at(at: SocketAddr, received: Arc<Mutex<Vec<(SocketAddr, Vec<u8>)>>>) -> Result<Self, Fail> {
        let sock = UdpSocket::bind(at).await.map_err(|e| infra(format!("udp target bind on {at}: {e}")))?;
        let addr = sock.local_addr().map_err(|e| infra(e.to_string()))?;
        let sock = Arc::new(sock);
        let (s2, r2) = (sock.clone(), received.clone());
        let task = tokio::spawn(async move {
            let mut buf = vec![0u8; 70000];
            loop {
                match s2.recv_from(&mut buf).await {
                    Ok((n, from)) => r2.lock().unwrap().push((from, buf[..n].to_vec())),
                    Err(_) => break,
                }
            }
        });
        Ok(Self { addr, received, sock, task })
    }
    pub fn count(&self) -> usize {
        self.received.lock().unwrap().len()
    }
}

/// Wait (real time) until `cond` holds; false after `ms` milliseconds.
pub async fn wait_until(ms: u64, mut cond: impl FnMut() -> bool) -> bool {
    let t0 = std::time::Instant::now();
    loop {
        if cond() {
            return true;
        }
        if t0.elapsed().as_millis() as u64 > ms {
            return false;
        }
        tokio::time::sleep(Duration::from_millis(5)).await;
    }
}

// ------------------------------------------------------------------------------------------
// a minimal SOCKS5 client (RFC 1928), written in the harness

#[derive(Clone, Debug)]
pub enum Dest {
    V4(Ipv4Addr, u16),
    V6(std::net::Ipv6Addr, u16),
    Name(String, u16),
}

impl Dest {
    pub fn of(addr: SocketAddr) -> Self {
        match addr {
            SocketAddr::V4(a) => Dest::V4(*a.ip(), a.port()),
            SocketAddr::V6(a) => Dest::V6(*a.ip(), a.port()),
        }
    }
    pub fn encode(&self) -> Vec<u8> {
        let mut v = Vec::new();
        match self {
            Dest::V4(ip, p) => {
                v.push(1);
                v.extend_from_slice(&ip.octets());
                v.extend_from_slice(&p.to_be_bytes());
            }
            Dest::V6(ip, p) => {
                v.push(4);
                v.extend_from_slice(&ip.octets());
                v.extend_from_slice(&p.to_be_bytes());
            }
            Dest::Name(n, p) => {
                v.push(3);
                v.push(n.len() as u8);
                v.extend_from_slice(n.as_bytes());
                v.extend_from_slice(&p.to_be_bytes());
            }
        }
        v
    }
}

/// Connect through the SOCKS5 front-end. Ok(stream) when REP = 0, Err(Some(rep)) on a failure
/// reply, Err(None) when the front-end closed without a (complete) reply.
pub async fn socks5_connect(front: SocketAddr, dest: &Dest) -> Result<TcpStream, Option<u8>> {
    let mut s = TcpStream::connect(front).await.map_err(|_| None)?;
    let _ = s.set_nodelay(true);
    s.write_all(&[5, 1, 0]).await.map_err(|_| None)?;
    let mut m = [0u8; 2];
    s.read_exact(&mut m).await.map_err(|_| None)?;
    if m != [5, 0] {
        return Err(Some(m[1]));
    }
    let mut req = vec![5, 1, 0];
    req.extend(dest.encode());
    s.write_all(&req).await.map_err(|_| None)?;
    let mut rep = [0u8; 4];
    s.read_exact(&mut rep).await.map_err(|_| None)?;
    let alen = match rep[3] {
        1 => 4,
        4 => 16,
        3 => {
            let mut l = [0u8; 1];
            s.read_exact(&mut l).await.map_err(|_| None)?;
            l[0] as usize
        }
        _ => return Err(None),
    };
    let mut rest = vec![0u8; alen + 2];
    s.read_exact(&mut rest).await.map_err(|_| None)?;
    if rep[1] != 0 {
        return Err(Some(rep[1]));
    }
    Ok(s)
}
