//! Reference peers over TLS on loopback: a scripted reference server that terminates TLS itself
//! (so it sees the real client's plaintext) and a reference client for driving the real server.
//! Both speak through the reference codec / reference authentication only.

use super::{infra, worker_ip};
use crate::engine::Fail;
use crate::reference::codec::{self as rc, RFrame, RParser};
use sha2::{Digest, Sha256};
use std::net::{IpAddr, SocketAddr};
use std::sync::{Arc, Mutex};
use tokio::io::{AsyncReadExt, AsyncWriteExt};
use tokio::net::{TcpListener, TcpStream};
use tokio::time::Duration;
use tokio_rustls::rustls;

pub fn ref_hash(password: &str) -> [u8; 32] {
    Sha256::digest(password.as_bytes()).into()
}

/// Reference preamble: hash, u16 big-endian padding length, padding.
pub fn ref_preamble(password: &str, padding: usize) -> Vec<u8> {
    let mut v = ref_hash(password).to_vec();
    v.extend_from_slice(&(padding as u16).to_be_bytes());
    v.extend(std::iter::repeat_n(0u8, padding));
    v
}

fn server_tls() -> Result<Arc<rustls::ServerConfig>, Fail> {
    let ck = rcgen::generate_simple_self_signed(vec!["localhost".to_string()]).map_err(|e| infra(format!("rcgen: {e}")))?;
    let cert = ck.cert.der().clone();
    let key = rustls::pki_types::PrivateKeyDer::Pkcs8(ck.signing_key.serialize_der().into());
    let provider = anytls_rs::util::tls::create_client_config().map_err(|e| infra(e.to_string()))?.crypto_provider().clone();
    let cfg = rustls::ServerConfig::builder_with_provider(provider)
        .with_safe_default_protocol_versions()
        .map_err(|e| infra(e.to_string()))?
        .with_no_client_auth()
        .with_single_cert(vec![cert], key)
        .map_err(|e| infra(e.to_string()))?;
    Ok(Arc::new(cfg))
}

#[derive(Clone, Debug, Default)]
pub struct Behaviour {
    /// answer each SYN with SYNACK once the destination has been read
    pub synack: bool,
    /// echo stream data back
    pub echo: bool,
    /// answer keep-alive requests
    pub heartbeat: bool,
    /// send ServerSettings v=2 after the client's settings
    pub server_settings: bool,
    /// the server's own scheme: pushed with UpdatePaddingScheme when the client's md5 differs
    pub scheme: Option<Vec<u8>>,
    /// per-connection override of `scheme` (connection i uses entry i, the last entry afterwards)
    pub schemes: Vec<Vec<u8>>,
    /// Some(n): only the first n keep-alive requests of a connection are answered, then the peer
    /// stays silent (but keeps reading and keeps the connection open)
    pub heartbeat_limit: Option<usize>,
    /// streams opened to the UDP-over-TCP magic address: every packet is echoed back, its framing
    /// (2-byte prefix + payload) cut into separate data frames at these positions, with this pause
    /// between the frames
    pub uot_echo: Option<(Vec<u16>, u64)>,
    /// every stream is refused: SYNACK carries this text
    pub synack_error: Option<Vec<u8>>,
    /// the connection is closed as soon as a SYN arrives (the session dies while the opener waits)
    pub close_on_syn: bool,
    /// everything the server sends leaves this many milliseconds late (a slow link)
    pub reply_delay_ms: u64,
}

#[derive(Default, Debug)]
pub struct ConnLog {
    pub auth_ok: bool,
    pub preamble_padding: Option<usize>,
    /// every frame received, in order (padding frames included)
    pub frames: Vec<RFrame>,
    /// plaintext read sizes (one entry per successful read call)
    pub reads: Vec<usize>,
    pub settings: std::collections::BTreeMap<String, String>,
    /// decoded destinations per stream id
    pub dests: Vec<(u32, Vec<u8>)>,
    pub pushed: usize,
    pub closed: bool,
    pub leftover: usize,
}

pub struct RefServer {
    pub addr: SocketAddr,
    pub conns: Arc<Mutex<Vec<Arc<Mutex<ConnLog>>>>>,
    /// connections currently open (TLS accepted, not yet closed)
    pub live: Arc<std::sync::atomic::AtomicUsize>,
}

/// Length of a SOCKS address at the head of `b`, if complete.
pub fn socks_addr_len(b: &[u8]) -> Option<usize> {
    let atyp = *b.first()?;
    let n = match atyp {
        1 => 1 + 4 + 2,
        4 => 1 + 16 + 2,
        3 => 1 + 1 + *b.get(1)? as usize + 2,
        _ => return Some(usize::MAX),
    };
    if b.len() >= n { Some(n) } else { None }
}

impl RefServer {
    pub async fn start(password: &'static str, beh: Behaviour) -> Result<Self, Fail> {
        let ip = IpAddr::V4(worker_ip());
        let l = TcpListener::bind(SocketAddr::new(ip, 0)).await.map_err(|e| infra(format!("refserver bind: {e}")))?;
        let addr = l.local_addr().map_err(|e| infra(e.to_string()))?;
        let acceptor = tokio_rustls::TlsAcceptor::from(server_tls()?);
        let conns: Arc<Mutex<Vec<Arc<Mutex<ConnLog>>>>> = Default::default();
        let live = Arc::new(std::sync::atomic::AtomicUsize::new(0));
        let (c2, live2) = (conns.clone(), live.clone());
        tokio::spawn(async move {
            loop {
                let Ok((tcp, _)) = l.accept().await else { break };
                let _ = tcp.set_nodelay(true);
                let acceptor = acceptor.clone();
                let mut beh = beh.clone();
                if !beh.schemes.is_empty() {
                    let i = c2.lock().unwrap().len().min(beh.schemes.len() - 1);
                    beh.scheme = Some(beh.schemes[i].clone());
                }
                let c3 = c2.clone();
                let live3 = live2.clone();
                tokio::spawn(async move {
                    let Ok(mut tls) = acceptor.accept(tcp).await else { return };
                    let log = Arc::new(Mutex::new(ConnLog::default()));
                    c3.lock().unwrap().push(log.clone());
                    live3.fetch_add(1, std::sync::atomic::Ordering::SeqCst);
                    let _ = serve(&mut tls, password, &beh, &log).await;
                    log.lock().unwrap().closed = true;
                    live3.fetch_sub(1, std::sync::atomic::Ordering::SeqCst);
                });
            }
        });
        Ok(Self { addr, conns, live })
    }
    pub fn n_conns(&self) -> usize {
        self.conns.lock().unwrap().len()
    }
    pub fn conn(&self, i: usize) -> Option<Arc<Mutex<ConnLog>>> {
        self.conns.lock().unwrap().get(i).cloned()
    }
}

async fn serve(tls: &mut tokio_rustls::server::TlsStream<TcpStream>, password: &str, beh: &Behaviour, log: &Arc<Mutex<ConnLog>>) -> std::io::Result<()> {
    // reference authentication
    let mut head = [0u8; 34];
    tls.read_exact(&mut head).await?;
    if head[..32] != ref_hash(password) {
        return Ok(());
    }
    let pad = u16::from_be_bytes([head[32], head[33]]) as usize;
    let mut skip = vec![0u8; pad];
    tls.read_exact(&mut skip).await?;
    {
        let mut l = log.lock().unwrap();
        l.auth_ok = true;
        l.preamble_padding = Some(pad);
    }
    let mut parser = RParser::new();
    let mut buf = vec![0u8; 1 << 16];
    let mut streams: std::collections::HashMap<u32, (Vec<u8>, bool)> = Default::default();
    let mut heart_seen = 0usize;
    let mut uot: std::collections::HashMap<u32, (Vec<u8>, bool)> = Default::default();
    loop {
        let n = tls.read(&mut buf).await?;
        if n == 0 {
            break;
        }
        log.lock().unwrap().reads.push(n);
        let frames = parser.feed(&buf[..n]);
        log.lock().unwrap().leftover = parser.pending();
        let mut outgoing: Vec<RFrame> = Vec::new();
        for f in frames {
            log.lock().unwrap().frames.push(f.clone());
            match f.cmd {
                rc::SETTINGS => {
                    let m = crate::lab_mem::parse_settings(&f.data);
                    if let Some(scheme) = &beh.scheme {
                        let md5 = format!("{:x}", md5::compute(scheme));
                        if m.get("padding-md5") != Some(&md5) {
                            outgoing.push(RFrame::new(rc::UPDATE_PADDING, 0, scheme.clone()));
                            log.lock().unwrap().pushed += 1;
                        }
                    }
                    if beh.server_settings {
                        outgoing.push(RFrame::new(rc::SERVER_SETTINGS, 0, b"v=2".to_vec()));
                    }
                    log.lock().unwrap().settings = m;
                }
                rc::SYN => {
                    if beh.close_on_syn {
                        return Ok(());
                    }
                    streams.insert(f.sid, (Vec::new(), false));
                }
                rc::PSH => {
                    if let Some((acc, ready)) = streams.get_mut(&f.sid) {
                        let mut data = f.data.clone();
                        if !*ready {
                            acc.extend_from_slice(&data);
                            data.clear();
                            match socks_addr_len(acc) {
                                Some(usize::MAX) => {}
                                Some(k) => {
                                    *ready = true;
                                    let dest = acc[..k].to_vec();
                                    data = acc[k..].to_vec();
                                    log.lock().unwrap().dests.push((f.sid, dest));
                                    if let Some(text) = &beh.synack_error {
                                        outgoing.push(RFrame::new(rc::SYNACK, f.sid, text.clone()));
                                    } else if beh.synack {
                                        outgoing.push(RFrame::ctl(rc::SYNACK, f.sid));
                                    }
                                }
                                None => {}
                            }
                        }
                        let is_uot = log.lock().unwrap().dests.iter().any(|(sid, d)| *sid == f.sid && d.windows(20).any(|w| w == b"v2.udp-over-tcp.arpa"));
                        if is_uot && beh.uot_echo.is_some() {
                            // reference UoT peer: request header first, then [len][payload] packets
                            let acc = uot.entry(f.sid).or_insert_with(|| (Vec::new(), false));
                            acc.0.extend_from_slice(&data);
                            if !acc.1 {
                                // isConnect(1) + SOCKS address
                                if acc.0.len() >= 2 {
                                    if let Some(k) = socks_addr_len(&acc.0[1..]) {
                                        if k != usize::MAX && acc.0.len() >= 1 + k {
                                            acc.0.drain(..1 + k);
                                            acc.1 = true;
                                        }
                                    }
                                }
                            }
                            if acc.1 {
                                loop {
                                    if acc.0.len() < 2 {
                                        break;
                                    }
                                    let l = u16::from_be_bytes([acc.0[0], acc.0[1]]) as usize;
                                    if acc.0.len() < 2 + l {
                                        break;
                                    }
                                    let pkt: Vec<u8> = acc.0.drain(..2 + l).collect();
                                    // echo it back in pieces
                                    let (cuts, pause) = beh.uot_echo.clone().unwrap();
                                    let mut pts: Vec<usize> = cuts.iter().map(|c| ((*c as usize) * (pkt.len() + 1)) >> 16).filter(|p| *p > 0 && *p < pkt.len()).collect();
                                    pts.sort_unstable();
                                    pts.dedup();
                                    pts.push(pkt.len());
                                    let mut from = 0usize;
                                    for (i, p) in pts.iter().enumerate() {
                                        tls.write_all(&rc::encode(&RFrame::new(rc::PSH, f.sid, pkt[from..*p].to_vec()))).await?;
                                        tls.flush().await?;
                                        from = *p;
                                        if i + 1 < pts.len() && pause > 0 {
                                            tokio::time::sleep(Duration::from_millis(pause)).await;
                                        }
                                    }
                                }
                            }
                        } else if beh.echo && !data.is_empty() {
                            outgoing.extend(rc::psh_frames(f.sid, &data));
                        }
                    }
                }
                rc::FIN => {
                    streams.remove(&f.sid);
                }
                rc::HEART_REQ => {
                    heart_seen += 1;
                    if beh.heartbeat && beh.heartbeat_limit.is_none_or(|n| heart_seen <= n) {
                        outgoing.push(RFrame::ctl(rc::HEART_RESP, f.sid));
                    }
                }
                _ => {}
            }
        }
        if !outgoing.is_empty() {
            if beh.reply_delay_ms > 0 {
                tokio::time::sleep(Duration::from_millis(beh.reply_delay_ms)).await;
            }
            tls.write_all(&rc::encode_all(&outgoing)).await?;
            tls.flush().await?;
        }
    }
    Ok(())
}

// ------------------------------------------------------------------------------------------

#[derive(Debug)]
struct AcceptAny;

impl rustls::client::danger::ServerCertVerifier for AcceptAny {
    fn verify_server_cert(
        &self,
        _e: &rustls::pki_types::CertificateDer<'_>,
        _i: &[rustls::pki_types::CertificateDer<'_>],
        _n: &rustls::pki_types::ServerName<'_>,
        _o: &[u8],
        _now: rustls::pki_types::UnixTime,
    ) -> Result<rustls::client::danger::ServerCertVerified, rustls::Error> {
        Ok(rustls::client::danger::ServerCertVerified::assertion())
    }
    fn verify_tls12_signature(&self, _m: &[u8], _c: &rustls::pki_types::CertificateDer<'_>, _d: &rustls::DigitallySignedStruct) -> Result<rustls::client::danger::HandshakeSignatureValid, rustls::Error> {
        Ok(rustls::client::danger::HandshakeSignatureValid::assertion())
    }
    fn verify_tls13_signature(&self, _m: &[u8], _c: &rustls::pki_types::CertificateDer<'_>, _d: &rustls::DigitallySignedStruct) -> Result<rustls::client::danger::HandshakeSignatureValid, rustls::Error> {
        Ok(rustls::client::danger::HandshakeSignatureValid::assertion())
    }
    fn supported_verify_schemes(&self) -> Vec<rustls::SignatureScheme> {
        anytls_rs::util::tls::create_client_config().map(|c| c.crypto_provider().signature_verification_algorithms.supported_schemes()).unwrap_or_default()
    }
}

/// Reference client: TLS to a server, raw bytes and reference frames.
pub struct RefClient {
    pub tls: tokio_rustls::client::TlsStream<TcpStream>,
    pub parser: RParser,
    pub seen: Vec<RFrame>,
    pub eof: bool,
    pub raw_in: usize,
}

impl RefClient {
    pub async fn connect(server: SocketAddr) -> Result<Self, Fail> {
        let provider = anytls_rs::util::tls::create_client_config().map_err(|e| infra(e.to_string()))?.crypto_provider().clone();
        let cfg = rustls::ClientConfig::builder_with_provider(provider)
            .with_safe_default_protocol_versions()
            .map_err(|e| infra(e.to_string()))?
            .dangerous()
            .with_custom_certificate_verifier(Arc::new(AcceptAny))
            .with_no_client_auth();
        let connector = tokio_rustls::TlsConnector::from(Arc::new(cfg));
        let tcp = TcpStream::connect(server).await.map_err(|e| infra(format!("connect to the server under test: {e}")))?;
        let _ = tcp.set_nodelay(true);
        let name = rustls::pki_types::ServerName::IpAddress(server.ip().into());
        let tls = connector.connect(name, tcp).await.map_err(|e| infra(format!("TLS to the server under test: {e}")))?;
        Ok(Self { tls, parser: RParser::new(), seen: Vec::new(), eof: false, raw_in: 0 })
    }
    pub async fn send_raw(&mut self, b: &[u8]) -> std::io::Result<()> {
        self.tls.write_all(b).await?;
        self.tls.flush().await
    }
    pub async fn send(&mut self, frames: &[RFrame]) -> std::io::Result<()> {
        self.send_raw(&rc::encode_all(frames)).await
    }
    /// Read for up to `ms` of quiet time; returns new frames. Sets `eof` when the server closed.
    pub async fn drain(&mut self, ms: u64) -> Vec<RFrame> {
        let mut new = Vec::new();
        let mut buf = vec![0u8; 1 << 16];
        loop {
            match tokio::time::timeout(Duration::from_millis(ms), self.tls.read(&mut buf)).await {
                Ok(Ok(0)) | Ok(Err(_)) => {
                    self.eof = true;
                    break;
                }
                Ok(Ok(n)) => {
                    self.raw_in += n;
                    new.extend(self.parser.feed(&buf[..n]));
                }
                Err(_) => break,
            }
        }
        self.seen.extend(new.iter().cloned());
        new
    }
    /// Read until `pred` matches a frame, EOF, or `ms` elapsed in total.
    pub async fn wait_for(&mut self, ms: u64, mut pred: impl FnMut(&RFrame) -> bool) -> Option<RFrame> {
        let deadline = tokio::time::Instant::now() + Duration::from_millis(ms);
        let mut buf = vec![0u8; 1 << 16];
        loop {
            match tokio::time::timeout_at(deadline, self.tls.read(&mut buf)).await {
                Ok(Ok(0)) | Ok(Err(_)) => {
                    self.eof = true;
                    return None;
                }
                Ok(Ok(n)) => {
                    self.raw_in += n;
                    let mut hit = None;
                    for f in self.parser.feed(&buf[..n]) {
                        if hit.is_none() && pred(&f) {
                            hit = Some(f.clone());
                        }
                        self.seen.push(f);
                    }
                    if hit.is_some() {
                        return hit;
                    }
                }
                Err(_) => return None,
            }
        }
    }
}
