//! A tiny authoritative-looking DNS responder on loopback plus the process-wide resolver runtime.
//!
//! The crate's resolver state (custom resolver, DNS cache) is process-wide and the trust-dns
//! resolver keeps background tasks on the runtime that first used it, so everything that touches
//! name resolution runs on one long-lived runtime with one fake DNS server and case-unique names.

use super::infra;
use crate::engine::Fail;
use std::collections::HashMap;
use std::net::{Ipv4Addr, SocketAddr};
use std::sync::{Arc, Mutex, OnceLock};
use tokio::net::UdpSocket;

pub struct Dns {
    pub rt: tokio::runtime::Runtime,
    pub addr: SocketAddr,
    pub table: Arc<Mutex<HashMap<String, Vec<Ipv4Addr>>>>,
    pub queries: Arc<Mutex<Vec<String>>>,
}

static DNS: OnceLock<Result<Dns, String>> = OnceLock::new();

fn parse_qname(msg: &[u8]) -> Option<(String, usize)> {
    let mut pos = 12usize;
    let mut labels = Vec::new();
    loop {
        let l = *msg.get(pos)? as usize;
        pos += 1;
        if l == 0 {
            break;
        }
        if l & 0xC0 != 0 {
            return None;
        }
        labels.push(String::from_utf8_lossy(msg.get(pos..pos + l)?).to_lowercase());
        pos += l;
    }
    Some((labels.join("."), pos))
}

async fn serve(sock: Arc<UdpSocket>, table: Arc<Mutex<HashMap<String, Vec<Ipv4Addr>>>>, queries: Arc<Mutex<Vec<String>>>) {
    let mut buf = [0u8; 1500];
    loop {
        let Ok((n, from)) = sock.recv_from(&mut buf).await else { break };
        let msg = &buf[..n];
        if n < 12 {
            continue;
        }
        let Some((name, qend)) = parse_qname(msg) else { continue };
        if msg.len() < qend + 4 {
            continue;
        }
        let qtype = u16::from_be_bytes([msg[qend], msg[qend + 1]]);
        queries.lock().unwrap().push(format!("{name}/{qtype}"));
        let addrs = table.lock().unwrap().get(&name).cloned();
        let mut resp = Vec::with_capacity(128);
        resp.extend_from_slice(&msg[0..2]);
        let (rcode, answers): (u8, Vec<Ipv4Addr>) = match (&addrs, qtype) {
            (Some(a), 1) => (0, a.clone()),
            (Some(_), _) => (0, Vec::new()),
            (None, _) => (3, Vec::new()),
        };
        resp.extend_from_slice(&[0x81, 0x80 | rcode]);
        resp.extend_from_slice(&1u16.to_be_bytes());
        resp.extend_from_slice(&(answers.len() as u16).to_be_bytes());
        resp.extend_from_slice(&[0, 0, 0, 0]);
        resp.extend_from_slice(&msg[12..qend + 4]);
        for a in answers {
            resp.extend_from_slice(&[0xC0, 0x0C, 0, 1, 0, 1]);
            // TTL 0: the resolver library keeps nothing in its own cache, so the only cache between a
            // request and this server is the one under test (whose age hook H7 can move)
            resp.extend_from_slice(&0u32.to_be_bytes());
            resp.extend_from_slice(&4u16.to_be_bytes());
            resp.extend_from_slice(&a.octets());
        }
        // answer after a short pause, from a task of its own: concurrent lookups really overlap
        let sock2 = sock.clone();
        tokio::spawn(async move {
            tokio::time::sleep(std::time::Duration::from_millis(2)).await;
            let _ = sock2.send_to(&resp, from).await;
        });
    }
}

/// The process-wide fake DNS (started and installed through `set_custom_dns_servers` on first use).
pub fn dns() -> Result<&'static Dns, Fail> {
    let r = DNS.get_or_init(|| {
        let rt = tokio::runtime::Builder::new_multi_thread().worker_threads(2).enable_all().build().map_err(|e| e.to_string())?;
        let table: Arc<Mutex<HashMap<String, Vec<Ipv4Addr>>>> = Default::default();
        let queries: Arc<Mutex<Vec<String>>> = Default::default();
        let (t2, q2) = (table.clone(), queries.clone());
        let addr = rt.block_on(async move {
            let ip = Ipv4Addr::new(127, (std::process::id() % 200 + 20) as u8, 253, 53);
            let sock = UdpSocket::bind(SocketAddr::new(ip.into(), 0)).await.map_err(|e| format!("fake DNS bind: {e}"))?;
            let addr = sock.local_addr().map_err(|e| e.to_string())?;
            tokio::spawn(serve(Arc::new(sock), t2, q2));
            anytls_rs::util::set_custom_dns_servers(&[addr.to_string()]).await.map_err(|e| format!("set_custom_dns_servers: {e}"))?;
            Ok::<SocketAddr, String>(addr)
        })?;
        Ok(Dns { rt, addr, table, queries })
    });
    match r {
        Ok(d) => Ok(d),
        Err(e) => Err(infra(format!("fake DNS: {e}"))),
    }
}

static NAME_COUNTER: std::sync::atomic::AtomicU64 = std::sync::atomic::AtomicU64::new(0);

/// A fresh name nobody has used in this process, registered with the given addresses.
pub fn fresh_name(d: &Dns, addrs: Vec<Ipv4Addr>) -> String {
    let n = NAME_COUNTER.fetch_add(1, std::sync::atomic::Ordering::Relaxed);
    let name = format!("h{n}.p{}.verif.test", std::process::id());
    d.table.lock().unwrap().insert(name.clone(), addrs);
    name
}
