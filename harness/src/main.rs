use std::path::PathBuf;
use verif_harness::engine::*;
use verif_harness::props;

fn usage() -> ! {
    eprintln!("usage: vcheck <ID> <quick|thorough>\n       vcheck replay <ID> <file>\n       vcheck list");
    std::process::exit(2);
}

/// Raise RLIMIT_NOFILE's soft value to the hard value; returns the soft limit now in force.
fn raise_fd_limit() -> u64 {
    unsafe {
        let mut r = libc::rlimit { rlim_cur: 0, rlim_max: 0 };
        if libc::getrlimit(libc::RLIMIT_NOFILE, &mut r) != 0 {
            return 1024;
        }
        if r.rlim_cur < r.rlim_max {
            let want = libc::rlimit { rlim_cur: r.rlim_max.min(1 << 20), rlim_max: r.rlim_max };
            if libc::setrlimit(libc::RLIMIT_NOFILE, &want) == 0 {
                return want.rlim_cur;
            }
        }
        r.rlim_cur
    }
}

fn main() {
    // A panic on the main thread (for instance while a strategy is being built) is a defect of
    // the harness, never a statement about the property: say so and leave with 2.
    match std::panic::catch_unwind(real_main) {
        Ok(()) => {}
        Err(_) => {
            let msg = verif_harness::engine::LAST_PANIC.lock().map(|l| l.clone()).unwrap_or_default();
            println!("INCONCLUSIVE: the harness itself panicked: {msg}");
            std::process::exit(2);
        }
    }
}

fn real_main() {
    let args: Vec<String> = std::env::args().skip(1).collect();
    if args.is_empty() {
        usage();
    }
    let verif_dir = PathBuf::from(std::env::var("VERIF_DIR").unwrap_or_else(|_| "/verif".into()));
    let seed: u64 = std::env::var("VERIF_SEED")
        .ok()
        .and_then(|s| s.trim().parse::<i128>().ok())
        .map(|v| v as u64)
        .unwrap_or(20260925);
    // The loopback families keep many sockets open at once: use the whole descriptor allowance of
    // the process (soft limit raised to the hard limit), and fewer workers where even that is small.
    let fd_limit = raise_fd_limit();
    let workers: usize = std::env::var("VERIF_WORKERS")
        .ok()
        .and_then(|s| s.parse().ok())
        .unwrap_or_else(|| std::thread::available_parallelism().map(|n| n.get()).unwrap_or(8).min(16));
    let workers = if fd_limit < 8192 { workers.min((fd_limit / 400).max(1) as usize) } else { workers };
    install_panic_hook();
    let known = KnownFindings::load(&verif_dir);

    match args[0].as_str() {
        "c19-child" => {
            verif_harness::props::c19::child_main(args.get(1).map(|s| s.as_str()).unwrap_or("{}"));
        }
        "gen-corpus" => {
            verif_harness::fuzz_entry::gen_corpus(&verif_dir.join("harness").join("fuzz").join("corpus"));
        }
        "list" => {
            for id in props::all_ids() {
                println!("{id}");
            }
        }
        "replay" => {
            if args.len() < 3 {
                usage();
            }
            let Some(prop) = props::get(&args[1]) else { usage() };
            // a saved libFuzzer input: <ID>-fuzz-<target>-<hash>.bin
            if args[2].ends_with(".bin") {
                let fname = std::path::Path::new(&args[2]).file_name().map(|s| s.to_string_lossy().to_string()).unwrap_or_default();
                let target = verif_harness::fuzz_entry::targets().into_iter().map(|t| t.0).find(|t| fname.contains(&format!("-fuzz-{t}-")) || fname.contains(t));
                let Some(target) = target else {
                    eprintln!("cannot tell the fuzz target from the file name {fname}");
                    std::process::exit(2);
                };
                match verif_harness::fuzzrun::replay_bin(target, std::path::Path::new(&args[2])) {
                    Ok(Ok(_)) => println!("PASS property={} (saved input holds under target {target})", prop.id),
                    Ok(Err(f)) => {
                        println!("VIOLATION property={} replay={}", prop.id, args[2]);
                        println!("  oracle={} sig={}", f.oracle, f.sig);
                        println!("  {}", f.detail);
                        std::process::exit(1);
                    }
                    Err(e) => {
                        eprintln!("cannot replay: {e}");
                        std::process::exit(2);
                    }
                }
                return;
            }
            let rc = RunCtx { tier: Tier::Quick, seed, workers: 1, verif_dir, known };
            match replay_file(&rc, &prop, &PathBuf::from(&args[2])) {
                Ok(Ok(o)) => {
                    println!("PASS property={} (replayed case holds; classes: {:?})", prop.id, o.classes);
                }
                Ok(Err(f)) => {
                    println!("VIOLATION property={} replay={}", prop.id, args[2]);
                    println!("  oracle={} sig={}", f.oracle, f.sig);
                    println!("  {}", f.detail);
                    std::process::exit(1);
                }
                Err(e) => {
                    eprintln!("cannot replay: {e}");
                    std::process::exit(2);
                }
            }
        }
        id => {
            if args.len() < 2 {
                usage();
            }
            let tier = match args[1].as_str() {
                "quick" => Tier::Quick,
                "thorough" => Tier::Thorough,
                _ => usage(),
            };
            let Some(prop) = props::get(id) else {
                eprintln!("unknown property {id}");
                std::process::exit(2);
            };
            let rc = RunCtx { tier, seed, workers, verif_dir, known };
            let t0 = std::time::Instant::now();
            let res = run_property(&rc, &prop);
            println!(
                "property={} tier={} seed={} wall={:.1}s violations={}",
                prop.id,
                tier.name(),
                seed,
                t0.elapsed().as_secs_f64(),
                res.violations.len()
            );
            if !res.violations.is_empty() {
                std::process::exit(1);
            }
        }
    }
}
