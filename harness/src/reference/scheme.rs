//! Reference reading of the padding-scheme language and the nondeterministic acceptor for
//! packet shapes (DESIGN.md Appendix A.1). Written from the protocol description:
//!
//! ```text
//! stop=<n>
//! <k>=<part>,<part>,...      part := "c" | "<a>-<b>"
//! ```
//! Packet 0 is the authentication preamble (its padding length is the first size of line 0);
//! session packets are numbered 1, 2, ... in wire order; packets >= stop are not padded.

use std::collections::BTreeMap;

#[derive(Clone, Debug, PartialEq, Eq)]
pub enum Part {
    Check,
    Range(u64, u64),
}

#[derive(Clone, Debug)]
pub struct RefScheme {
    pub stop: u32,
    pub lines: BTreeMap<String, String>,
}

impl RefScheme {
    /// `None` when the scheme is not acceptable (no parsable `stop`).
    pub fn parse(text: &[u8]) -> Option<Self> {
        let text = String::from_utf8_lossy(text);
        let mut lines = BTreeMap::new();
        for line in text.lines() {
            if let Some((k, v)) = line.split_once('=') {
                lines.insert(k.trim().to_string(), v.trim().to_string());
            }
        }
        let stop = lines.get("stop")?.parse::<u32>().ok()?;
        Some(Self { stop, lines })
    }

    pub fn parts(&self, k: u32) -> Vec<Part> {
        let Some(spec) = self.lines.get(&k.to_string()) else {
            return Vec::new();
        };
        let mut out = Vec::new();
        for part in spec.split(',') {
            let part = part.trim();
            if part == "c" {
                out.push(Part::Check);
                continue;
            }
            if let Some((a, b)) = part.split_once('-') {
                let (Ok(a), Ok(b)) = (a.trim().parse::<u64>(), b.trim().parse::<u64>()) else {
                    continue;
                };
                if a == 0 || b == 0 || a > i64::MAX as u64 || b > i64::MAX as u64 {
                    continue;
                }
                out.push(Part::Range(a.min(b), a.max(b)));
            }
        }
        out
    }

    /// Largest size mentioned by line k (0 if none).
    pub fn max_size(&self, k: u32) -> u64 {
        self.parts(k).iter().map(|p| if let Part::Range(_, b) = p { *b } else { 0 }).max().unwrap_or(0)
    }
}

/// Does some draw inside line k's ranges explain the observed write lengths `w` of a packet
/// that had `pending` payload bytes to send? `Err(reason)` if not.
pub fn accept_packet(s: &RefScheme, k: u32, pending: usize, w: &[usize]) -> Result<(), String> {
    let parts = if k >= s.stop { Vec::new() } else { s.parts(k) };
    if parts.is_empty() {
        return if w.len() == 1 && w[0] == pending {
            Ok(())
        } else {
            Err(format!(
                "packet {k} must be written unpadded as one write of {pending} bytes (stop={}, line {}), observed writes {:?}",
                s.stop,
                if k >= s.stop { "beyond stop" } else { "absent/empty" },
                w
            ))
        };
    }
    let mut r = pending as u64;
    let mut j = 0usize;
    for (pi, part) in parts.iter().enumerate() {
        match part {
            Part::Check => {
                if r == 0 {
                    break;
                }
            }
            Part::Range(a, b) => {
                if j >= w.len() {
                    return Err(format!(
                        "packet {k}: the scheme prescribes a record for part #{pi} ({a}-{b}) with {r} payload bytes left, but only {} writes were made: {:?}",
                        w.len(),
                        w
                    ));
                }
                let x = w[j] as u64;
                j += 1;
                if r == 0 {
                    // padding-only record: header + drawn size
                    if !(x >= 7 && *a <= x - 7 && x - 7 <= *b) {
                        return Err(format!("packet {k} write #{}: padding-only record of {x} bytes, but size+7 must come from {a}-{b}", j - 1));
                    }
                } else if x < r {
                    if !(*a <= x && x <= *b) {
                        return Err(format!("packet {k} write #{}: payload-only record of {x} bytes (payload left {r}) is not in {a}-{b}", j - 1));
                    }
                    r -= x;
                } else if x == r {
                    // fits without room for a padding frame: drawn size in [r, r+7]
                    if !(*a <= r + 7 && r <= *b) {
                        return Err(format!("packet {k} write #{}: the remaining {r} payload bytes were written bare, which needs a drawn size in [{r},{}], not possible with {a}-{b}", j - 1, r + 7));
                    }
                    r = 0;
                } else if x >= r + 8 {
                    if !(*a <= x && x <= *b) {
                        return Err(format!("packet {k} write #{}: payload ({r}) completed with padding to {x} bytes, not in {a}-{b}", j - 1));
                    }
                    r = 0;
                } else {
                    return Err(format!("packet {k} write #{}: {x} bytes cannot be produced from {r} remaining payload bytes (a padding frame needs at least 8 bytes)", j - 1));
                }
            }
        }
    }
    if r > 0 {
        if j >= w.len() || w[j] as u64 != r {
            return Err(format!("packet {k}: {r} payload bytes left after the scheme's sizes must go out in one write; writes {:?}", w));
        }
        j += 1;
    }
    if j != w.len() {
        return Err(format!("packet {k}: {} unexplained extra write(s): {:?}", w.len() - j, w));
    }
    Ok(())
}

/// Padding length the authentication preamble must declare: `Ok((lo, hi))`.
pub fn preamble_padding_range(s: &RefScheme) -> (u64, u64) {
    match s.parts(0).first() {
        Some(Part::Range(a, b)) => (*a, *b),
        _ => (0, 0),
    }
}

#[cfg(test)]
mod tests {
    use super::*;
    #[test]
    fn acceptor_basics() {
        let s = RefScheme::parse(b"stop=3\n0=30-30\n1=100-200\n2=400-500,c,500-1000,c,500-1000").unwrap();
        assert!(accept_packet(&s, 1, 50, &[150]).is_ok());
        assert!(accept_packet(&s, 1, 50, &[50]).is_err()); // 50 bare needs size in [50,57]
        assert!(accept_packet(&s, 1, 95, &[95]).is_ok()); // size 100 in [95,102]
        assert!(accept_packet(&s, 1, 300, &[150, 150]).is_ok());
        assert!(accept_packet(&s, 1, 300, &[150, 149]).is_err());
        assert!(accept_packet(&s, 2, 100, &[450]).is_ok()); // then c with r=0 -> stop
        assert!(accept_packet(&s, 2, 100, &[450, 600]).is_err());
        assert!(accept_packet(&s, 2, 1000, &[450, 550]).is_ok()); // second record: 550 bare needs size in [550,557]
        assert!(accept_packet(&s, 2, 0, &[457]).is_ok());
        assert!(accept_packet(&s, 3, 77, &[77]).is_ok());
        assert!(accept_packet(&s, 3, 77, &[70, 7]).is_err());
        assert_eq!(preamble_padding_range(&s), (30, 30));
    }
}
