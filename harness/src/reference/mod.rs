pub mod codec;
pub mod scheme;
pub mod http;
