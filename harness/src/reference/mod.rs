pub mod codec;
