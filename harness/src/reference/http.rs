//! Reference reading of HTTP/1.x proxy requests (RFC 7230 §5.3, §5.4), independent of the crate.

use serde::{Deserialize, Serialize};

#[derive(Clone, Debug, Serialize, Deserialize, PartialEq)]
pub enum HostSpec {
    Name(String),
    V4([u8; 4]),
    V6([u16; 8]),
}

impl HostSpec {
    /// How the host is written inside a URI / Host header / authority.
    pub fn uri_text(&self) -> String {
        match self {
            HostSpec::Name(n) => n.clone(),
            HostSpec::V4(o) => format!("{}.{}.{}.{}", o[0], o[1], o[2], o[3]),
            HostSpec::V6(s) => format!("[{}]", std::net::Ipv6Addr::new(s[0], s[1], s[2], s[3], s[4], s[5], s[6], s[7])),
        }
    }
    /// The host as a tunnel destination (no brackets).
    pub fn dest_text(&self) -> String {
        match self {
            HostSpec::V6(s) => std::net::Ipv6Addr::new(s[0], s[1], s[2], s[3], s[4], s[5], s[6], s[7]).to_string(),
            other => other.uri_text(),
        }
    }
}

#[derive(Clone, Debug, Serialize, Deserialize)]
pub enum TargetForm {
    /// CONNECT host[:port]
    Authority,
    /// http://host[:port]path
    AbsoluteHttp,
    /// https://host[:port]path
    AbsoluteHttps,
    /// path + Host header
    Origin,
    /// `*` + Host header
    Asterisk,
}

#[derive(Clone, Debug, Serialize, Deserialize)]
pub struct ReqGen {
    pub method: String,
    pub form: TargetForm,
    pub host: HostSpec,
    pub port: Option<u16>,
    /// path-and-query; may be empty for absolute forms ("http://host"), or start with '?'
    pub path: String,
    pub version11: bool,
    /// header lines other than Host: (name, separator/whitespace style 0..4, value)
    pub headers: Vec<(String, u8, String)>,
    /// Some(i): a Host header is inserted before header #i (clamped); spelled with this name
    pub host_header: Option<(u8, String, u8)>,
    pub body: Vec<u8>,
}

pub struct Built {
    pub header: String,
    pub expect_host: String,
    pub expect_port: u16,
    pub is_connect: bool,
    /// request-target the origin must see
    pub origin_target: String,
    /// header lines as sent (in order), with the index of the Host line if any
    pub lines: Vec<String>,
    pub host_line: Option<usize>,
}

fn style(name: &str, st: u8, value: &str) -> String {
    match st % 4 {
        0 => format!("{name}: {value}"),
        1 => format!("{name}:{value}"),
        2 => format!("{name}:   {value}  "),
        _ => format!("{name}:\t{value}"),
    }
}

impl ReqGen {
    pub fn is_connect(&self) -> bool {
        self.method.eq_ignore_ascii_case("CONNECT")
    }

    pub fn build(&self) -> Built {
        let hosttext = self.host.uri_text();
        let hostport = match self.port {
            Some(p) => format!("{hosttext}:{p}"),
            None => hosttext.clone(),
        };
        let is_connect = self.is_connect();
        let (target, default_port, origin_target) = if is_connect {
            (hostport.clone(), 443u16, String::new())
        } else {
            match self.form {
                TargetForm::AbsoluteHttp | TargetForm::Authority => {
                    let p = self.path.clone();
                    let ot = if p.is_empty() { "/".to_string() } else if p.starts_with('?') { format!("/{p}") } else { p.clone() };
                    (format!("http://{hostport}{p}"), 80, ot)
                }
                TargetForm::AbsoluteHttps => {
                    let p = self.path.clone();
                    let ot = if p.is_empty() { "/".to_string() } else if p.starts_with('?') { format!("/{p}") } else { p.clone() };
                    (format!("https://{hostport}{p}"), 443, ot)
                }
                TargetForm::Origin => {
                    let p = if self.path.starts_with('/') { self.path.clone() } else { format!("/{}", self.path.trim_start_matches('?')) };
                    (p.clone(), 80, p)
                }
                TargetForm::Asterisk => ("*".to_string(), 80, "*".to_string()),
            }
        };
        let version = if self.version11 { "HTTP/1.1" } else { "HTTP/1.0" };
        let mut lines: Vec<String> = self.headers.iter().map(|(n, st, v)| style(n, *st, v)).collect();
        let mut host_line = None;
        let needs_host = !is_connect && matches!(self.form, TargetForm::Origin | TargetForm::Asterisk);
        let hh = match (&self.host_header, needs_host) {
            (Some(h), _) => Some(h.clone()),
            (None, true) => Some((0u8, "Host".to_string(), 0u8)),
            (None, false) => None,
        };
        if let Some((at, name, st)) = hh {
            let i = (at as usize).min(lines.len());
            lines.insert(i, style(&name, st, &hostport));
            host_line = Some(i);
        }
        let mut header = format!("{} {} {}\r\n", self.method, target, version);
        for l in &lines {
            header.push_str(l);
            header.push_str("\r\n");
        }
        header.push_str("\r\n");
        Built {
            header,
            expect_host: self.host.dest_text(),
            expect_port: self.port.unwrap_or(default_port),
            is_connect,
            origin_target,
            lines,
            host_line,
        }
    }
}

/// What an origin server reads from the forwarded bytes.
#[derive(Debug)]
pub struct Parsed {
    pub method: String,
    pub target: String,
    pub version: String,
    pub lines: Vec<String>,
    pub rest: Vec<u8>,
}

pub fn parse_forwarded(bytes: &[u8]) -> Result<Parsed, String> {
    let end = bytes.windows(4).position(|w| w == b"\r\n\r\n").ok_or("no header terminator in the forwarded bytes")?;
    let head = std::str::from_utf8(&bytes[..end]).map_err(|_| "forwarded header is not UTF-8")?;
    let mut it = head.split("\r\n");
    let rl = it.next().ok_or("empty")?;
    let parts: Vec<&str> = rl.split(' ').collect();
    if parts.len() != 3 {
        return Err(format!("request line {:?} does not have three parts", rl));
    }
    Ok(Parsed {
        method: parts[0].to_string(),
        target: parts[1].to_string(),
        version: parts[2].to_string(),
        lines: it.map(|s| s.to_string()).collect(),
        rest: bytes[end + 4..].to_vec(),
    })
}

/// Parse a Host header value into (host without brackets, optional port).
pub fn parse_host_value(v: &str) -> Option<(String, Option<u16>)> {
    let v = v.trim();
    if let Some(rest) = v.strip_prefix('[') {
        let close = rest.find(']')?;
        let host = &rest[..close];
        let after = &rest[close + 1..];
        if after.is_empty() {
            return Some((host.to_string(), None));
        }
        let p = after.strip_prefix(':')?.parse::<u16>().ok()?;
        return Some((host.to_string(), Some(p)));
    }
    match v.rsplit_once(':') {
        Some((h, p)) if !h.contains(':') => Some((h.to_string(), Some(p.parse::<u16>().ok()?))),
        Some(_) => None, // unbracketed IPv6 is not a valid Host value
        None => Some((v.to_string(), None)),
    }
}

pub fn same_host(a: &str, b: &str) -> bool {
    if a.eq_ignore_ascii_case(b) {
        return true;
    }
    match (a.parse::<std::net::IpAddr>(), b.parse::<std::net::IpAddr>()) {
        (Ok(x), Ok(y)) => x == y,
        _ => false,
    }
}
