//! Reference frame codec, written from the AnyTLS protocol description:
//! every frame is `cmd: u8 | stream id: u32 big-endian | length: u16 big-endian | payload`.
//! Nothing in here calls into the crate under test.

#[derive(Clone, Debug, PartialEq, Eq)]
pub struct RFrame {
    pub cmd: u8,
    pub sid: u32,
    pub data: Vec<u8>,
}

pub const WASTE: u8 = 0;
pub const SYN: u8 = 1;
pub const PSH: u8 = 2;
pub const FIN: u8 = 3;
pub const SETTINGS: u8 = 4;
pub const ALERT: u8 = 5;
pub const UPDATE_PADDING: u8 = 6;
pub const SYNACK: u8 = 7;
pub const HEART_REQ: u8 = 8;
pub const HEART_RESP: u8 = 9;
pub const SERVER_SETTINGS: u8 = 10;
pub const HEADER: usize = 7;
pub const MAX_PAYLOAD: usize = 65535;

impl RFrame {
    pub fn new(cmd: u8, sid: u32, data: impl Into<Vec<u8>>) -> Self {
        Self { cmd, sid, data: data.into() }
    }
    pub fn ctl(cmd: u8, sid: u32) -> Self {
        Self { cmd, sid, data: Vec::new() }
    }
    pub fn wire_len(&self) -> usize {
        HEADER + self.data.len()
    }
}

/// Encode one frame. Panics if the payload cannot be carried by one frame.
pub fn encode(f: &RFrame) -> Vec<u8> {
    assert!(f.data.len() <= MAX_PAYLOAD, "reference encoder: payload too long");
    let mut out = Vec::with_capacity(HEADER + f.data.len());
    encode_into(f, &mut out);
    out
}

pub fn encode_into(f: &RFrame, out: &mut Vec<u8>) {
    assert!(f.data.len() <= MAX_PAYLOAD, "reference encoder: payload too long");
    out.push(f.cmd);
    out.extend_from_slice(&f.sid.to_be_bytes());
    out.extend_from_slice(&(f.data.len() as u16).to_be_bytes());
    out.extend_from_slice(&f.data);
}

pub fn encode_all(frames: &[RFrame]) -> Vec<u8> {
    let mut out = Vec::new();
    for f in frames {
        encode_into(f, &mut out);
    }
    out
}

/// Parse as many complete frames as `bytes` holds; returns them and the number of bytes consumed.
pub fn parse(bytes: &[u8]) -> (Vec<RFrame>, usize) {
    let mut frames = Vec::new();
    let mut pos = 0usize;
    loop {
        if bytes.len() - pos < HEADER {
            break;
        }
        let cmd = bytes[pos];
        let sid = u32::from_be_bytes([bytes[pos + 1], bytes[pos + 2], bytes[pos + 3], bytes[pos + 4]]);
        let len = u16::from_be_bytes([bytes[pos + 5], bytes[pos + 6]]) as usize;
        if bytes.len() - pos - HEADER < len {
            break;
        }
        frames.push(RFrame {
            cmd,
            sid,
            data: bytes[pos + HEADER..pos + HEADER + len].to_vec(),
        });
        pos += HEADER + len;
    }
    (frames, pos)
}

/// Incremental parser (for scripted peers): feed bytes, take frames.
#[derive(Default)]
pub struct RParser {
    buf: Vec<u8>,
}

impl RParser {
    pub fn new() -> Self {
        Self::default()
    }
    pub fn feed(&mut self, bytes: &[u8]) -> Vec<RFrame> {
        self.buf.extend_from_slice(bytes);
        let (frames, used) = parse(&self.buf);
        self.buf.drain(..used);
        frames
    }
    pub fn pending(&self) -> usize {
        self.buf.len()
    }
}

/// The command a conforming receiver acts on: unknown command bytes are inert padding.
pub fn effective_cmd(b: u8) -> u8 {
    if b <= 10 { b } else { WASTE }
}

/// Split a payload into PSH frames the way any conforming sender must (<= 65535 per frame).
pub fn psh_frames(sid: u32, data: &[u8]) -> Vec<RFrame> {
    if data.is_empty() {
        return vec![RFrame::new(PSH, sid, Vec::new())];
    }
    data.chunks(MAX_PAYLOAD).map(|c| RFrame::new(PSH, sid, c.to_vec())).collect()
}
