//! Runner: seeding, parallel workers, shrinking, replay files, evidence, known findings.
//!
//! A *family* is one generator + one oracle. Every property module registers one or more
//! families. The engine runs a family's cases on N worker threads, each with its own
//! proptest `TestRunner` seeded from (VERIF_SEED, property, family, worker), so that a run is a
//! pure function of the code under test and the seed. The first failing worker shrinks its
//! case; the minimal case is written as a replay file that `vcheck replay` re-executes
//! without proptest in the loop.

use proptest::strategy::{BoxedStrategy, Strategy};
use proptest::test_runner::{Config, RngAlgorithm, RngSeed, TestCaseError, TestError, TestRunner};
use serde::de::DeserializeOwned;
use serde::{Deserialize, Serialize};
use std::cell::RefCell;
use std::collections::{BTreeMap, BTreeSet};
use std::hash::{Hash, Hasher};
use std::panic::{AssertUnwindSafe, catch_unwind};
use std::path::{Path, PathBuf};
use std::sync::atomic::{AtomicBool, AtomicU64, Ordering};
use std::sync::{Arc, Mutex};
use std::time::Instant;

#[derive(Clone, Copy, PartialEq, Eq, Debug)]
pub enum Tier {
    Quick,
    Thorough,
}

impl Tier {
    pub fn name(self) -> &'static str {
        match self {
            Tier::Quick => "quick",
            Tier::Thorough => "thorough",
        }
    }
    /// Pick a count by tier.
    pub fn pick(self, quick: u32, thorough: u32) -> u32 {
        match self {
            Tier::Quick => quick,
            Tier::Thorough => thorough,
        }
    }
}

/// What a passing case reports back.
#[derive(Default, Clone, Debug)]
pub struct Outcome {
    pub nontrivial: bool,
    pub classes: Vec<&'static str>,
}

impl Outcome {
    pub fn new() -> Self {
        Self::default()
    }
    pub fn class(&mut self, c: &'static str) {
        if !self.classes.contains(&c) {
            self.classes.push(c);
        }
    }
    pub fn class_if(&mut self, cond: bool, c: &'static str) {
        if cond {
            self.class(c);
        }
    }
    pub fn nt(&mut self, cond: bool) {
        if cond {
            self.nontrivial = true;
        }
    }
}

/// A failed oracle.
#[derive(Clone, Debug, Serialize, Deserialize)]
pub struct Fail {
    /// Sub-oracle id, e.g. "C03.len".
    pub oracle: String,
    /// Signature: sub-oracle + a predicate over the case; known findings are keyed on it.
    pub sig: String,
    /// Human-readable description of what was observed.
    pub detail: String,
}

impl Fail {
    pub fn new(oracle: &str, sig: impl Into<String>, detail: impl Into<String>) -> Self {
        Self {
            oracle: oracle.to_string(),
            sig: sig.into(),
            detail: detail.into(),
        }
    }
    /// Signature equal to the oracle id.
    pub fn plain(oracle: &str, detail: impl Into<String>) -> Self {
        Self::new(oracle, oracle.to_string(), detail)
    }
}

pub type CaseResult = Result<Outcome, Fail>;

#[macro_export]
macro_rules! ensure {
    ($cond:expr, $oracle:expr, $($arg:tt)*) => {
        if !($cond) {
            return Err($crate::engine::Fail::plain($oracle, format!($($arg)*)));
        }
    };
}

#[macro_export]
macro_rules! ensure_sig {
    ($cond:expr, $oracle:expr, $sig:expr, $($arg:tt)*) => {
        if !($cond) {
            return Err($crate::engine::Fail::new($oracle, $sig, format!($($arg)*)));
        }
    };
}

/// Known findings file (/verif/known_findings.json). Read-only at run time.
#[derive(Clone, Debug, Default, Serialize, Deserialize)]
pub struct KnownFindings {
    #[serde(default)]
    pub findings: Vec<Finding>,
}

#[derive(Clone, Debug, Serialize, Deserialize)]
pub struct Finding {
    /// "known" or "fixed"
    pub status: String,
    pub property: String,
    /// Exact failure signature (for status = known).
    #[serde(default)]
    pub signature: Option<String>,
    /// Replay file (relative to /verif) that still demonstrates the finding.
    #[serde(default)]
    pub witness: Option<String>,
    /// Fix commit (for status = fixed).
    #[serde(default)]
    pub commit: Option<String>,
    pub what: String,
}

impl KnownFindings {
    pub fn load(verif_dir: &Path) -> Self {
        let p = verif_dir.join("known_findings.json");
        match std::fs::read_to_string(&p) {
            Ok(s) => serde_json::from_str(&s).unwrap_or_else(|e| {
                eprintln!("cannot parse {}: {e}", p.display());
                std::process::exit(2);
            }),
            Err(_) => Self::default(),
        }
    }
    pub fn is_known(&self, property: &str, sig: &str) -> bool {
        self.findings.iter().any(|f| {
            f.status == "known" && f.property == property && f.signature.as_deref() == Some(sig)
        })
    }
    pub fn known_for(&self, property: &str) -> Vec<&Finding> {
        self.findings
            .iter()
            .filter(|f| f.status == "known" && f.property == property)
            .collect()
    }
}

/// Per-case context handed to the oracle.
pub struct CaseCtx<'a> {
    pub property: &'a str,
    pub known: &'a KnownFindings,
    /// Strict mode (replay of a witness): known findings are not tolerated.
    pub strict: bool,
    /// Witness replay: every known finding is tolerated except this one signature.
    pub except: Option<String>,
    pub tier: Tier,
    excluded: RefCell<Vec<String>>,
}

impl<'a> CaseCtx<'a> {
    pub fn new(property: &'a str, known: &'a KnownFindings, strict: bool, tier: Tier) -> Self {
        Self {
            property,
            known,
            strict,
            except: None,
            tier,
            excluded: RefCell::new(Vec::new()),
        }
    }
    /// True when `sig` is a listed known finding and we are not in strict mode; the hit is
    /// counted as excluded. Oracles use it to skip exactly the matching sub-check so that the
    /// rest of the case is still judged.
    pub fn tolerate(&self, sig: &str) -> bool {
        if !self.strict && self.except.as_deref() != Some(sig) && self.known.is_known(self.property, sig) {
            self.excluded.borrow_mut().push(sig.to_string());
            true
        } else {
            false
        }
    }
    /// Like `tolerate` but without counting (for generators that avoid a sub-domain).
    pub fn is_known(&self, sig: &str) -> bool {
        !self.strict && self.except.as_deref() != Some(sig) && self.known.is_known(self.property, sig)
    }
    pub fn take_excluded(&self) -> Vec<String> {
        std::mem::take(&mut *self.excluded.borrow_mut())
    }
}

/// One generator + one oracle.
pub trait Family: Sync + Send + 'static {
    type Case: std::fmt::Debug + Clone + Serialize + DeserializeOwned + Send + 'static;
    fn name(&self) -> &'static str;
    fn strategy(&self, tier: Tier) -> BoxedStrategy<Self::Case>;
    fn run(&self, case: &Self::Case, cx: &CaseCtx) -> CaseResult;
    /// Extra deterministic cases executed before the random ones (boundary grids, enumerations).
    fn fixed_cases(&self, _tier: Tier) -> Vec<Self::Case> {
        Vec::new()
    }
    /// How to show a case in the evidence samples (default: its JSON, truncated).
    fn sample(&self, case: &Self::Case) -> serde_json::Value {
        let v = serde_json::to_value(case).unwrap_or(serde_json::Value::Null);
        truncate_json(v, 600)
    }
    /// Real-time per-case budget in seconds before the watchdog calls the run inconclusive.
    fn case_budget_s(&self) -> u64 {
        120
    }
    /// Some(oracle id): a case that exceeds its real-time budget is a candidate violation of this
    /// oracle (a task that spins stops the virtual clock). The saved case is re-run in a child
    /// process; only if it gets stuck again is it reported as a violation, otherwise inconclusive.
    fn stuck_oracle(&self) -> Option<&'static str> {
        None
    }
}

pub fn truncate_json(v: serde_json::Value, max: usize) -> serde_json::Value {
    let s = v.to_string();
    if s.len() <= max {
        v
    } else {
        let mut cut = max;
        while !s.is_char_boundary(cut) {
            cut -= 1;
        }
        serde_json::Value::String(format!("{}… ({} chars)", &s[..cut], s.len()))
    }
}

/// Object-safe view of a family.
pub trait DynFamily: Sync + Send {
    fn name(&self) -> &'static str;
    fn run_cases(&self, rc: &RunCtx, property: &str, cases: u32) -> FamilyReport;
    fn replay_json(&self, rc: &RunCtx, property: &str, case: &serde_json::Value, except: Option<&str>) -> Result<CaseResult, String>;
}

pub struct RunCtx {
    pub tier: Tier,
    pub seed: u64,
    pub workers: usize,
    pub verif_dir: PathBuf,
    pub known: KnownFindings,
}

#[derive(Default, Debug)]
pub struct FamilyReport {
    pub family: String,
    pub evaluations: u64,
    pub nontrivial_hashes: BTreeSet<u64>,
    pub classes: BTreeMap<String, u64>,
    pub samples: Vec<serde_json::Value>,
    pub excluded_known: BTreeMap<String, u64>,
    pub violation: Option<Violation>,
    pub wall_s: f64,
}

#[derive(Debug, Clone)]
pub struct Violation {
    pub fail: Fail,
    pub replay_path: PathBuf,
}

#[derive(Serialize, Deserialize)]
pub struct ReplayFile {
    pub property: String,
    pub family: String,
    pub oracle: String,
    pub sig: String,
    pub detail: String,
    pub seed: u64,
    pub case: serde_json::Value,
}

fn hash_str(s: &str) -> u64 {
    // DefaultHasher::new() uses fixed keys: deterministic across runs.
    let mut h = std::collections::hash_map::DefaultHasher::new();
    s.hash(&mut h);
    h.finish()
}

pub fn derive_seed(seed: u64, parts: &[&str], worker: u64) -> u64 {
    let mut h = std::collections::hash_map::DefaultHasher::new();
    seed.hash(&mut h);
    for p in parts {
        p.hash(&mut h);
    }
    worker.hash(&mut h);
    h.finish()
}

thread_local! {
    static PANIC_MSGS: RefCell<Vec<String>> = const { RefCell::new(Vec::new()) };
}

/// Install the process-wide panic hook: panics are recorded per thread (tokio swallows panics
/// in spawned tasks; on a current-thread runtime they happen on the worker's own thread) and
/// not printed.
/// Process-wide panic count (panics on threads that are not a worker's own, e.g. the worker
/// threads of a Lab-S world runtime).
pub static PANIC_COUNT: AtomicU64 = AtomicU64::new(0);
pub static LAST_PANIC: Mutex<String> = Mutex::new(String::new());

pub fn install_panic_hook() {
    std::panic::set_hook(Box::new(|info| {
        let msg = format!("{info}");
        PANIC_COUNT.fetch_add(1, Ordering::SeqCst);
        if let Ok(mut l) = LAST_PANIC.lock() {
            *l = msg.clone();
        }
        PANIC_MSGS.with(|p| p.borrow_mut().push(msg));
    }));
}

/// Take the panic messages recorded on this thread since the last call.
pub fn take_panics() -> Vec<String> {
    PANIC_MSGS.with(|p| std::mem::take(&mut *p.borrow_mut()))
}

struct Shared {
    evaluations: AtomicU64,
    stop: AtomicBool,
    /// the one worker that shrinks and reports (first to fail)
    shrinker: std::sync::atomic::AtomicUsize,
    acc: Mutex<Acc>,
}

#[derive(Default)]
struct Acc {
    nontrivial_hashes: BTreeSet<u64>,
    classes: BTreeMap<String, u64>,
    samples: Vec<(usize, serde_json::Value)>,
    excluded_known: BTreeMap<String, u64>,
    failures: Vec<(u64, serde_json::Value, Fail)>,
}

/// Slots that tell the watchdog which case every worker is running.
pub struct Inflight {
    slots: Vec<Mutex<Option<(Instant, String)>>>,
}

impl<F: Family> DynFamily for F {
    fn name(&self) -> &'static str {
        Family::name(self)
    }

    fn replay_json(&self, rc: &RunCtx, property: &str, case: &serde_json::Value, except: Option<&str>) -> Result<CaseResult, String> {
        let case: F::Case = serde_json::from_value(case.clone()).map_err(|e| format!("cannot decode case: {e}"))?;
        // plain replay: strict (nothing tolerated); witness replay: only the witness' own signature is armed
        let mut cx = CaseCtx::new(property, &rc.known, except.is_none(), rc.tier);
        cx.except = except.map(|s| s.to_string());
        Ok(run_guarded(self, &case, &cx))
    }

    fn run_cases(&self, rc: &RunCtx, property: &str, cases: u32) -> FamilyReport {
        let t0 = Instant::now();
        let shared = Arc::new(Shared {
            evaluations: AtomicU64::new(0),
            stop: AtomicBool::new(false),
            shrinker: std::sync::atomic::AtomicUsize::new(usize::MAX),
            acc: Mutex::new(Acc::default()),
        });
        let fixed = self.fixed_cases(rc.tier);
        let workers = rc.workers.max(1).min((cases as usize + fixed.len()).max(1));
        let inflight = Arc::new(Inflight {
            slots: (0..workers).map(|_| Mutex::new(None)).collect(),
        });
        let done = Arc::new(AtomicBool::new(false));
        let budget = self.case_budget_s();
        let stuck_oracle = self.stuck_oracle();

        // Watchdog: a case that runs longer than its real-time budget makes the run inconclusive.
        let wd = {
            let inflight = inflight.clone();
            let done = done.clone();
            let verif_dir = rc.verif_dir.clone();
            let property = property.to_string();
            let fam = Family::name(self).to_string();
            std::thread::spawn(move || {
                while !done.load(Ordering::Relaxed) {
                    std::thread::sleep(std::time::Duration::from_millis(50));
                    for slot in &inflight.slots {
                        let g = slot.lock().unwrap();
                        if let Some((t, case)) = g.as_ref() {
                            if t.elapsed().as_secs() > budget {
                                let dir = verif_dir.join("evidence").join(".inflight");
                                let _ = std::fs::create_dir_all(&dir);
                                let p = dir.join(format!("{property}-{fam}-stuck.json"));
                                let _ = std::fs::write(&p, case);
                                if let Some(oracle) = stuck_oracle {
                                    // confirm in a child process before calling it a violation
                                    let rf = serde_json::json!({"property": property, "family": fam, "oracle": oracle, "sig": format!("{oracle}:stuck"), "detail": format!("the case did not finish within {budget}s of real time (virtual clock stopped: a task spins or blocks the thread)"), "seed": 0, "case": serde_json::from_str::<serde_json::Value>(case).unwrap_or(serde_json::Value::Null)});
                                    let rdir = verif_dir.join("replays");
                                    let _ = std::fs::create_dir_all(&rdir);
                                    let rp = rdir.join(format!("{property}-{fam}-stuck-{:016x}.json", hash_str(case)));
                                    let _ = std::fs::write(&rp, serde_json::to_string_pretty(&rf).unwrap());
                                    let again = std::env::current_exe().ok().and_then(|exe| std::process::Command::new(exe).arg("replay").arg(&property).arg(&rp).stdout(std::process::Stdio::null()).stderr(std::process::Stdio::null()).spawn().ok());
                                    let mut stuck_again = false;
                                    if let Some(mut child) = again {
                                        let t0 = Instant::now();
                                        loop {
                                            match child.try_wait() {
                                                Ok(Some(_)) => break,
                                                Ok(None) if t0.elapsed().as_secs() > budget => {
                                                    let _ = child.kill();
                                                    stuck_again = true;
                                                    break;
                                                }
                                                Ok(None) => std::thread::sleep(std::time::Duration::from_millis(100)),
                                                Err(_) => break,
                                            }
                                        }
                                    }
                                    if stuck_again {
                                        println!("VIOLATION property={property} replay={}", rp.display());
                                        println!("  oracle={oracle} sig={oracle}:stuck");
                                        println!("  the case did not finish within {budget}s of real time, twice (a task spins or blocks its thread)");
                                        std::process::exit(1);
                                    }
                                }
                                println!(
                                    "INCONCLUSIVE property={property} family={fam}: a case exceeded its real-time budget of {budget}s (harness watchdog); case saved to {}",
                                    p.display()
                                );
                                std::process::exit(2);
                            }
                        }
                    }
                }
            })
        };

        std::thread::scope(|scope| {
            for w in 0..workers {
                let shared = shared.clone();
                let inflight = inflight.clone();
                let fixed: Vec<F::Case> = fixed.iter().skip(w).step_by(workers).cloned().collect();
                let n = cases / workers as u32 + if (w as u32) < cases % workers as u32 { 1 } else { 0 };
                let fam: &F = self;
                scope.spawn(move || {
                    worker_loop(fam, rc, property, w, n, fixed, &shared, &inflight);
                });
            }
        });
        done.store(true, Ordering::Relaxed);
        let _ = wd.join();

        let mut acc = std::mem::take(&mut *shared.acc.lock().unwrap());
        let mut report = FamilyReport {
            family: Family::name(self).to_string(),
            evaluations: shared.evaluations.load(Ordering::Relaxed),
            nontrivial_hashes: std::mem::take(&mut acc.nontrivial_hashes),
            classes: std::mem::take(&mut acc.classes),
            excluded_known: std::mem::take(&mut acc.excluded_known),
            ..Default::default()
        };
        // samples: a few, including the largest
        acc.samples.sort_by_key(|(len, _)| *len);
        let mut samples: Vec<serde_json::Value> = Vec::new();
        if let Some((_, v)) = acc.samples.last() {
            samples.push(v.clone());
        }
        for (_, v) in acc.samples.iter().take(3) {
            if !samples.contains(v) {
                samples.push(v.clone());
            }
        }
        report.samples = samples;

        // pick the failure with the smallest serialized case (deterministic given the seed)
        if !acc.failures.is_empty() {
            acc.failures.sort_by_key(|(_, v, f)| (v.to_string().len(), f.sig.clone()));
            let (seed, case, fail) = acc.failures.remove(0);
            let rf = ReplayFile {
                property: property.to_string(),
                family: Family::name(self).to_string(),
                oracle: fail.oracle.clone(),
                sig: fail.sig.clone(),
                detail: fail.detail.clone(),
                seed,
                case,
            };
            let body = serde_json::to_string_pretty(&rf).unwrap();
            let dir = rc.verif_dir.join("replays");
            let _ = std::fs::create_dir_all(&dir);
            let path = dir.join(format!(
                "{}-{}-{:016x}.json",
                property,
                Family::name(self),
                hash_str(&body)
            ));
            let _ = std::fs::write(&path, body);
            report.violation = Some(Violation { fail, replay_path: path });
        }
        report.wall_s = t0.elapsed().as_secs_f64();
        report
    }
}

/// (open descriptors, soft limit) of this process.
pub fn fd_usage() -> (usize, usize) {
    static LIMIT: std::sync::OnceLock<usize> = std::sync::OnceLock::new();
    let limit = *LIMIT.get_or_init(|| {
        std::fs::read_to_string("/proc/self/limits")
            .ok()
            .and_then(|t| t.lines().find(|l| l.starts_with("Max open files")).and_then(|l| l.split_whitespace().nth(3).and_then(|v| v.parse::<usize>().ok())))
            .unwrap_or(1024)
    });
    (std::fs::read_dir("/proc/self/fd").map(|d| d.count()).unwrap_or(0), limit)
}

fn run_guarded<F: Family>(fam: &F, case: &F::Case, cx: &CaseCtx) -> CaseResult {
    let r = run_guarded_inner(fam, case, cx);
    if let Err(f) = &r {
        // A failure observed while the process is about to run out of descriptors says nothing about
        // the code under test (accept, dial and runtime creation fail with EMFILE): inconclusive.
        let (used, limit) = fd_usage();
        if f.oracle != "INFRA" && used * 4 > limit * 3 {
            return Err(Fail::new("INFRA", "INFRA", format!("{used} of {limit} descriptors in use when a case failed ({}: {}); not attributable", f.oracle, f.detail)));
        }
    }
    r
}

fn run_guarded_inner<F: Family>(fam: &F, case: &F::Case, cx: &CaseCtx) -> CaseResult {
    let _ = take_panics();
    let r = catch_unwind(AssertUnwindSafe(|| fam.run(case, cx)));
    let panics = take_panics();
    match r {
        Ok(Ok(o)) => {
            if let Some(p) = panics.first() {
                // a panic inside a spawned task that the oracle did not look at
                let sig = format!("{}.panic:task", cx.property);
                if cx.tolerate(&sig) {
                    return Ok(o);
                }
                return Err(Fail::new(
                    &format!("{}.panic", cx.property),
                    sig,
                    format!("a task panicked during the case: {p}"),
                ));
            }
            Ok(o)
        }
        Ok(Err(f)) => Err(f),
        Err(e) => {
            let msg = if let Some(s) = e.downcast_ref::<String>() {
                s.clone()
            } else if let Some(s) = e.downcast_ref::<&str>() {
                s.to_string()
            } else {
                panics.first().cloned().unwrap_or_else(|| "panic".into())
            };
            let loc = panics.first().cloned().unwrap_or_default();
            Err(Fail::new(
                &format!("{}.panic", cx.property),
                format!("{}.panic:case", cx.property),
                format!("panic while running the case: {msg} [{loc}]"),
            ))
        }
    }
}

#[allow(clippy::too_many_arguments)]
fn worker_loop<F: Family>(
    fam: &F,
    rc: &RunCtx,
    property: &str,
    w: usize,
    n: u32,
    fixed: Vec<F::Case>,
    shared: &Shared,
    inflight: &Inflight,
) {
    let seed = derive_seed(rc.seed, &[property, Family::name(fam)], w as u64);
    let failed_here = std::cell::Cell::new(false);

    let one = |case: &F::Case| -> Result<(), Fail> {
        if shared.stop.load(Ordering::Relaxed) && !failed_here.get() {
            // another worker already failed: finish quickly
            return Ok(());
        }
        let json = serde_json::to_string(case).unwrap_or_default();
        *inflight.slots[w].lock().unwrap() = Some((Instant::now(), json.clone()));
        let cx = CaseCtx::new(property, &rc.known, false, rc.tier);
        let r = run_guarded(fam, case, &cx);
        *inflight.slots[w].lock().unwrap() = None;
        let excluded = cx.take_excluded();
        if let Err(f) = &r {
            if f.oracle == "INFRA" {
                println!("INCONCLUSIVE property={property} family={}: infrastructure trouble: {}", Family::name(fam), f.detail);
                std::process::exit(2);
            }
        }
        let r = match r {
            Err(f) if rc.known.is_known(property, &f.sig) => {
                let mut acc = shared.acc.lock().unwrap();
                *acc.excluded_known.entry(f.sig.clone()).or_default() += 1;
                Ok(Outcome::default())
            }
            other => other,
        };
        if !failed_here.get() {
            // stop counting once this worker is shrinking
            shared.evaluations.fetch_add(1, Ordering::Relaxed);
            let mut acc = shared.acc.lock().unwrap();
            for s in excluded {
                *acc.excluded_known.entry(s).or_default() += 1;
            }
            if let Ok(o) = &r {
                for c in &o.classes {
                    *acc.classes.entry(c.to_string()).or_default() += 1;
                }
                if o.nontrivial {
                    let h = hash_str(&json);
                    if acc.nontrivial_hashes.insert(h) && (acc.samples.len() < 24 || json.len() > acc.samples.iter().map(|s| s.0).max().unwrap_or(0)) {
                        let v = fam.sample(case);
                        acc.samples.push((json.len(), v));
                        if acc.samples.len() > 32 {
                            // keep the list bounded: drop a middle one
                            acc.samples.remove(12);
                        }
                    }
                }
            }
        }
        if r.is_err() && !failed_here.get() {
            // only the first failing worker shrinks and reports; the others stand down
            if shared.shrinker.compare_exchange(usize::MAX, w, Ordering::SeqCst, Ordering::SeqCst).is_err() {
                return Ok(());
            }
        }
        r.map(|_| ())
    };

    // 1. fixed cases (no shrinking; they are already minimal by construction)
    for case in &fixed {
        if let Err(f) = one(case) {
            failed_here.set(true);
            shared.stop.store(true, Ordering::Relaxed);
            let v = serde_json::to_value(case).unwrap_or(serde_json::Value::Null);
            shared.acc.lock().unwrap().failures.push((seed, v, f));
            return;
        }
    }
    if n == 0 {
        return;
    }

    // 2. generated cases
    let mut config = Config::default();
    config.cases = n;
    config.failure_persistence = None;
    config.rng_algorithm = RngAlgorithm::ChaCha;
    config.rng_seed = RngSeed::Fixed(seed);
    config.max_shrink_iters = match rc.tier {
        Tier::Quick => 600,
        Tier::Thorough => 3000,
    };
    config.max_shrink_time = match rc.tier {
        Tier::Quick => 30_000,
        Tier::Thorough => 180_000,
    };
    config.max_global_rejects = 1_000_000;
    config.max_local_rejects = 1_000_000;
    config.verbose = 0;
    config.source_file = None;
    let mut runner = TestRunner::new(config);
    let strategy = fam.strategy(rc.tier);
    let last_fail: RefCell<Option<Fail>> = RefCell::new(None);
    let result = runner.run(&strategy, |case| match one(&case) {
        Ok(()) => Ok(()),
        Err(f) => {
            failed_here.set(true);
            shared.stop.store(true, Ordering::Relaxed);
            let msg = f.sig.clone();
            *last_fail.borrow_mut() = Some(f);
            Err(TestCaseError::fail(msg))
        }
    });
    match result {
        Ok(()) => {}
        Err(TestError::Fail(_, minimal)) => {
            // re-run the minimal case once more to get its own failure description
            let cx = CaseCtx::new(property, &rc.known, false, rc.tier);
            let f = match run_guarded(fam, &minimal, &cx) {
                Err(f) => f,
                Ok(_) => last_fail.borrow().clone().unwrap_or_else(|| {
                    Fail::plain(&format!("{property}.flaky"), "minimal case passed on re-run")
                }),
            };
            let v = serde_json::to_value(&minimal).unwrap_or(serde_json::Value::Null);
            shared.acc.lock().unwrap().failures.push((seed, v, f));
        }
        Err(TestError::Abort(reason)) => {
            println!("INCONCLUSIVE property={property} family={}: generator aborted: {reason}", Family::name(fam));
            std::process::exit(2);
        }
    }
}

/// A property: id, families with their per-tier case counts, evidence metadata.
pub struct Property {
    pub id: &'static str,
    pub level: &'static str,
    pub rule: &'static str,
    pub assumptions: Vec<&'static str>,
    pub families: Vec<(Box<dyn DynFamily>, u32, u32)>,
}

pub struct PropertyResult {
    pub violations: Vec<Violation>,
}

pub fn run_property(rc: &RunCtx, prop: &Property) -> PropertyResult {
    let t0 = Instant::now();
    let mut reports = Vec::new();
    let mut violations = Vec::new();

    // 1. replay the witnesses of known findings through the strict oracle
    for f in rc.known.known_for(prop.id) {
        let Some(w) = &f.witness else {
            println!("KNOWN-FINDING: property={} {}", prop.id, f.what);
            continue;
        };
        let path = rc.verif_dir.join(w);
        match replay_file_except(rc, prop, &path, f.signature.as_deref()) {
            Ok(Err(fail)) => {
                if Some(fail.sig.as_str()) == f.signature.as_deref() {
                    println!("KNOWN-FINDING: property={} {} [sig={}]", prop.id, f.what, fail.sig);
                } else {
                    // the witness now fails differently: that is a new violation
                    println!(
                        "witness {} fails with signature {} instead of the listed {:?}",
                        path.display(),
                        fail.sig,
                        f.signature
                    );
                    violations.push(Violation { fail, replay_path: path.clone() });
                }
            }
            Ok(Ok(_)) => {
                println!(
                    "note: property={} known finding no longer reproduces from its witness ({}): {}",
                    prop.id,
                    path.display(),
                    f.what
                );
            }
            Err(e) => {
                println!("INCONCLUSIVE property={}: cannot replay witness {}: {e}", prop.id, path.display());
                std::process::exit(2);
            }
        }
    }

    // 2. run the families
    for (fam, q, t) in &prop.families {
        let cases = rc.tier.pick(*q, *t);
        let rep = fam.run_cases(rc, prop.id, cases);
        if let Some(v) = &rep.violation {
            violations.push(v.clone());
        }
        reports.push(rep);
    }

    // 3. byte-level entry points: corpus replay (both tiers) and libFuzzer campaigns (thorough)
    for rep in crate::fuzzrun::run(rc, prop) {
        if let Some(v) = &rep.violation {
            violations.push(v.clone());
        }
        reports.push(rep);
    }

    write_evidence(rc, prop, &reports, violations.len(), t0.elapsed().as_secs_f64());
    for v in &violations {
        println!(
            "VIOLATION property={} replay={}",
            prop.id,
            v.replay_path.display()
        );
        println!("  oracle={} sig={}", v.fail.oracle, v.fail.sig);
        println!("  {}", v.fail.detail);
    }
    PropertyResult { violations }
}

pub fn replay_file(rc: &RunCtx, prop: &Property, path: &Path) -> Result<CaseResult, String> {
    replay_file_except(rc, prop, path, None)
}

pub fn replay_file_except(rc: &RunCtx, prop: &Property, path: &Path, except: Option<&str>) -> Result<CaseResult, String> {
    let s = std::fs::read_to_string(path).map_err(|e| format!("{e}"))?;
    let rf: ReplayFile = serde_json::from_str(&s).map_err(|e| format!("{e}"))?;
    if rf.property != prop.id {
        return Err(format!("replay file is for {}", rf.property));
    }
    for (fam, _, _) in &prop.families {
        if fam.name() == rf.family {
            return fam.replay_json(rc, prop.id, &rf.case, except);
        }
    }
    Err(format!("no family {} in {}", rf.family, prop.id))
}

fn write_evidence(rc: &RunCtx, prop: &Property, reports: &[FamilyReport], violations: usize, wall_s: f64) {
    let evaluations: u64 = reports.iter().map(|r| r.evaluations).sum();
    let distinct: usize = reports.iter().map(|r| r.nontrivial_hashes.len()).sum();
    let mut samples = Vec::new();
    let mut families = serde_json::Map::new();
    let mut excluded = serde_json::Map::new();
    for r in reports {
        for s in r.samples.iter().take(3) {
            samples.push(serde_json::json!({"family": r.family, "case": s}));
        }
        families.insert(
            r.family.clone(),
            serde_json::json!({
                "evaluations": r.evaluations,
                "distinct_nontrivial": r.nontrivial_hashes.len(),
                "classes": r.classes,
                "wall_s": (r.wall_s * 1000.0).round() / 1000.0,
            }),
        );
        for (k, v) in &r.excluded_known {
            let e = excluded.entry(k.clone()).or_insert(serde_json::json!(0));
            *e = serde_json::json!(e.as_u64().unwrap_or(0) + v);
        }
    }
    let ev = serde_json::json!({
        "property_id": prop.id,
        "tier": rc.tier.name(),
        "seed": rc.seed,
        "level": prop.level,
        "coverage": {
            "evaluations": evaluations,
            "distinct_nontrivial": distinct,
            "rule": prop.rule,
            "samples": samples,
            "families": families,
            "excluded_known": excluded,
            "workers": rc.workers,
        },
        "assumptions": prop.assumptions,
        "wall_s": (wall_s * 1000.0).round() / 1000.0,
        "violations": violations,
    });
    let dir = rc.verif_dir.join("evidence");
    let _ = std::fs::create_dir_all(&dir);
    let p = dir.join(format!("{}.json", prop.id));
    std::fs::write(&p, serde_json::to_string_pretty(&ev).unwrap()).expect("write evidence");
}

// ---------------------------------------------------------------------------------------------
// small generator helpers shared by the property modules

/// Map a generated u16 index monotonically into 0..len (shrinks towards 0 without stalling).
pub fn idx(i: u16, len: usize) -> usize {
    if len == 0 {
        return 0;
    }
    ((i as usize) * len) >> 16
}

/// A strategy choosing among weighted boundary classes of usize values.
pub fn weighted_sizes(classes: Vec<(u32, std::ops::RangeInclusive<usize>)>) -> BoxedStrategy<usize> {
    let total: u32 = classes.iter().map(|c| c.0).sum();
    (0..total, proptest::num::u32::ANY)
        .prop_map(move |(pick, r)| {
            let mut acc = 0u32;
            for (w, range) in &classes {
                acc += *w;
                if pick < acc {
                    let lo = *range.start();
                    let hi = *range.end();
                    let span = hi - lo + 1;
                    return lo + (r as usize) % span;
                }
            }
            unreachable!()
        })
        .boxed()
}
