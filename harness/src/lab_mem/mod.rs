//! Lab-M: the in-memory, virtual-time lab (no sockets).

pub mod pipe;

use crate::reference::codec::{self as rc, RFrame, RParser};
use anytls_rs::padding::PaddingFactory;
use anytls_rs::session::{Session, SessionHeartbeatConfig, Stream};
use pipe::*;
use std::future::Future;
use std::sync::Arc;
use tokio::io::{AsyncReadExt, AsyncWriteExt};
use tokio::sync::mpsc;
use tokio::time::Duration;

/// One virtual hour: every documented timeout in the crate is <= 60 s.
pub const WATCHDOG: Duration = Duration::from_secs(3600);

/// Run a future on a fresh single-threaded runtime with the clock paused.
pub fn run_virtual<F: Future>(f: F) -> F::Output {
    let rt = tokio::runtime::Builder::new_current_thread()
        .enable_time()
        .start_paused(true)
        .build()
        .expect("runtime");
    let out = rt.block_on(f);
    // dropping the runtime drops every task of the case
    drop(rt);
    anytls_rs::verif::set_sched_source(None);
    anytls_rs::verif::set_draw_source(None);
    out
}

/// As `run_virtual`, with the I/O driver on: code under test may touch real sockets (a dial to a port
/// where nothing listens fails at once; the virtual clock still only moves when nothing is runnable).
pub fn run_virtual_io<F: Future>(f: F) -> F::Output {
    let rt = tokio::runtime::Builder::new_current_thread().enable_all().start_paused(true).build().expect("runtime");
    let out = rt.block_on(f);
    drop(rt);
    anytls_rs::verif::set_sched_source(None);
    anytls_rs::verif::set_draw_source(None);
    out
}

/// `Some(v)` if the future completes within the virtual watchdog, `None` if it blocks.
pub async fn within<T>(d: Duration, f: impl Future<Output = T>) -> Option<T> {
    tokio::time::timeout(d, f).await.ok()
}

/// Let every runnable task run to quiescence and timers up to `d` fire.
pub async fn settle(d: Duration) {
    tokio::time::sleep(d).await;
}

/// Install a schedule: the k-th visited scheduling point yields `yields[k]` times.
/// Returns a counter of visited points / taken yields.
pub fn install_schedule(yields: Vec<u8>) -> Arc<std::sync::Mutex<SchedLog>> {
    let log = Arc::new(std::sync::Mutex::new(SchedLog::default()));
    let l2 = log.clone();
    let mut k = 0usize;
    anytls_rs::verif::set_sched_source(Some(Box::new(move |name| {
        let n = yields.get(k).copied().unwrap_or(0) as u32;
        k += 1;
        let mut l = l2.lock().unwrap();
        l.visited += 1;
        if n > 0 {
            l.yields_taken += n as usize;
            l.points_with_yield.push(name);
        }
        n
    })));
    log
}

#[derive(Default, Debug, Clone)]
pub struct SchedLog {
    pub visited: usize,
    pub yields_taken: usize,
    pub points_with_yield: Vec<&'static str>,
}

/// Install a deterministic padding draw: a small LCG seeded from the case.
pub fn install_draw(seed: u64) {
    let mut x = seed | 1;
    anytls_rs::verif::set_draw_source(Some(Box::new(move |min, max| {
        x = x.wrapping_mul(6364136223846793005).wrapping_add(1442695040888963407);
        let span = (max - min + 1) as u64;
        min + ((x >> 33) % span) as i64
    })));
}

pub fn padding(scheme: &str) -> Arc<PaddingFactory> {
    Arc::new(PaddingFactory::new(scheme.as_bytes()).expect("scheme accepted by the harness must parse"))
}

pub fn default_padding() -> Arc<PaddingFactory> {
    padding(anytls_rs::padding::DEFAULT_PADDING_SCHEME)
}

/// A transport: two pipes.
pub struct Link {
    pub c2s: PipeHandle,
    pub s2c: PipeHandle,
    pub c_w: Option<PipeWriter>,
    pub c_r: Option<PipeReader>,
    pub s_w: Option<PipeWriter>,
    pub s_r: Option<PipeReader>,
}

pub fn link(c2s: PipeParams, s2c: PipeParams) -> Link {
    let (c_w, s_r, h1) = pipe(c2s);
    let (s_w, c_r, h2) = pipe(s2c);
    Link { c2s: h1, s2c: h2, c_w: Some(c_w), c_r: Some(c_r), s_w: Some(s_w), s_r: Some(s_r) }
}

/// Real client session on the client end of the link (not started).
pub fn client_session(l: &mut Link, pad: Arc<PaddingFactory>, hb: Option<SessionHeartbeatConfig>) -> Arc<Session> {
    Arc::new(Session::new_client(l.c_r.take().unwrap(), l.c_w.take().unwrap(), pad, hb))
}

/// Real server session on the server end of the link, wired the way `handle_connection` wires
/// it after authentication: stream callback channel, recv_loop and process_stream_data tasks.
pub fn server_session(
    l: &mut Link,
    pad: Arc<PaddingFactory>,
) -> (Arc<Session>, mpsc::UnboundedReceiver<Arc<Stream>>, Vec<tokio::task::JoinHandle<()>>) {
    let (tx, rx) = mpsc::unbounded_channel();
    let mut s = Session::new_server(l.s_r.take().unwrap(), l.s_w.take().unwrap(), pad);
    s.set_server_settings(None);
    s.set_stream_callback(tx);
    let s = Arc::new(s);
    let a = s.clone();
    let b = s.clone();
    let h1 = tokio::spawn(async move {
        let _ = a.recv_loop().await;
    });
    let h2 = tokio::spawn(async move {
        let _ = b.process_stream_data().await;
    });
    (s, rx, vec![h1, h2])
}

/// A scripted peer speaking through the reference codec on one end of the link.
pub struct ScriptPeer {
    pub r: PipeReader,
    pub w: PipeWriter,
    pub parser: RParser,
    pub seen: Vec<RFrame>,
    pub eof: bool,
}

impl ScriptPeer {
    /// Scripted peer in the server position.
    pub fn server_side(l: &mut Link) -> Self {
        Self { r: l.s_r.take().unwrap(), w: l.s_w.take().unwrap(), parser: RParser::new(), seen: vec![], eof: false }
    }
    /// Scripted peer in the client position.
    pub fn client_side(l: &mut Link) -> Self {
        Self { r: l.c_r.take().unwrap(), w: l.c_w.take().unwrap(), parser: RParser::new(), seen: vec![], eof: false }
    }
    pub async fn send(&mut self, frames: &[RFrame]) -> std::io::Result<()> {
        let bytes = rc::encode_all(frames);
        self.w.write_all(&bytes).await?;
        self.w.flush().await
    }
    pub async fn send_raw(&mut self, bytes: &[u8]) -> std::io::Result<()> {
        self.w.write_all(bytes).await?;
        self.w.flush().await
    }
    /// Read whatever arrives within `d` of virtual quiet time; returns the new frames.
    pub async fn drain(&mut self, d: Duration) -> Vec<RFrame> {
        let mut new = Vec::new();
        let mut buf = vec![0u8; 65536];
        loop {
            match tokio::time::timeout(d, self.r.read(&mut buf)).await {
                Ok(Ok(0)) => {
                    self.eof = true;
                    break;
                }
                Ok(Ok(n)) => {
                    new.extend(self.parser.feed(&buf[..n]));
                }
                Ok(Err(_)) => {
                    self.eof = true;
                    break;
                }
                Err(_) => break,
            }
        }
        self.seen.extend(new.iter().cloned());
        new
    }
    /// Read until a frame satisfying `pred` has been seen (or the watchdog expires).
    pub async fn wait_for(&mut self, mut pred: impl FnMut(&RFrame) -> bool, d: Duration) -> Option<RFrame> {
        let deadline = tokio::time::Instant::now() + d;
        let mut buf = vec![0u8; 65536];
        loop {
            match tokio::time::timeout_at(deadline, self.r.read(&mut buf)).await {
                Ok(Ok(0)) | Ok(Err(_)) => {
                    self.eof = true;
                    return None;
                }
                Ok(Ok(n)) => {
                    let fr = self.parser.feed(&buf[..n]);
                    let mut hit = None;
                    for f in fr {
                        if hit.is_none() && pred(&f) {
                            hit = Some(f.clone());
                        }
                        self.seen.push(f);
                    }
                    if hit.is_some() {
                        return hit;
                    }
                }
                Err(_) => return None,
            }
        }
    }
}

/// Position-keyed content: loss, duplication, reordering, alteration and splicing are all visible.
pub fn keyed_byte(stream: u32, dir: u8, off: u64) -> u8 {
    let mut x = off
        .wrapping_mul(0x9E37_79B9_7F4A_7C15)
        .wrapping_add((stream as u64) << 8)
        .wrapping_add(dir as u64 + 1);
    x ^= x >> 29;
    x = x.wrapping_mul(0xBF58_476D_1CE4_E5B9);
    x ^= x >> 32;
    x as u8
}

pub fn keyed(stream: u32, dir: u8, off: u64, len: usize) -> Vec<u8> {
    (0..len as u64).map(|i| keyed_byte(stream, dir, off + i)).collect()
}

/// Parse a settings payload ("k=v\n...") independently of the crate.
pub fn parse_settings(data: &[u8]) -> std::collections::BTreeMap<String, String> {
    let text = String::from_utf8_lossy(data);
    let mut m = std::collections::BTreeMap::new();
    for line in text.split('\n') {
        if let Some((k, v)) = line.split_once('=') {
            m.insert(k.trim().to_string(), v.trim().to_string());
        }
    }
    m
}
