//! One-directional in-memory byte pipe with scripted fragmentation, back-pressure, virtual
//! one-way delay, a recorder and a fault injector. Two of them make a transport.

use serde::{Deserialize, Serialize};
use std::collections::VecDeque;
use std::io;
use std::pin::Pin;
use std::sync::{Arc, Mutex};
use std::task::{Context, Poll, Waker};
use tokio::io::{AsyncRead, AsyncWrite, ReadBuf};
use tokio::time::{Duration, Instant, Sleep};

#[derive(Clone, Debug, Serialize, Deserialize, PartialEq, Eq)]
pub enum ErrKind {
    ConnectionReset,
    UnexpectedEof,
    Other,
    BrokenPipe,
    /// kinds that read like "try again" but are final on a stream socket (ETIMEDOUT from a vanished
    /// peer, EINTR / EAGAIN surfacing from a broken layer below)
    TimedOut,
    Interrupted,
    WouldBlock,
}

impl ErrKind {
    pub fn to_io(&self) -> io::Error {
        match self {
            ErrKind::ConnectionReset => io::Error::new(io::ErrorKind::ConnectionReset, "connection reset by peer (injected)"),
            ErrKind::UnexpectedEof => io::Error::new(io::ErrorKind::UnexpectedEof, "unexpected end of file (injected)"),
            ErrKind::Other => io::Error::other("injected transport failure"),
            ErrKind::BrokenPipe => io::Error::new(io::ErrorKind::BrokenPipe, "broken pipe (injected)"),
            ErrKind::TimedOut => io::Error::new(io::ErrorKind::TimedOut, "connection timed out (injected)"),
            ErrKind::Interrupted => io::Error::new(io::ErrorKind::Interrupted, "interrupted (injected)"),
            ErrKind::WouldBlock => io::Error::new(io::ErrorKind::WouldBlock, "would block (injected)"),
        }
    }
}

/// Static pipe parameters (generated).
#[derive(Clone, Debug, Serialize, Deserialize)]
pub struct PipeParams {
    /// Maximum number of bytes in flight; a full pipe makes the writer wait.
    pub capacity: usize,
    /// The k-th poll_write accepts at most write_sizes[k % len] bytes (empty: everything).
    pub write_sizes: Vec<usize>,
    /// The k-th poll_read returns at most read_sizes[k % len] bytes (empty: everything).
    pub read_sizes: Vec<usize>,
    /// Virtual one-way delay in milliseconds.
    pub delay_ms: u64,
}

impl Default for PipeParams {
    fn default() -> Self {
        Self { capacity: 1 << 22, write_sizes: vec![], read_sizes: vec![], delay_ms: 0 }
    }
}

impl PipeParams {
    pub fn min_fragment(&self) -> usize {
        let w = self.write_sizes.iter().copied().min().unwrap_or(usize::MAX);
        let r = self.read_sizes.iter().copied().min().unwrap_or(usize::MAX);
        w.min(r).max(1)
    }
}

/// Faults, armed statically (at an offset) or dynamically (now).
#[derive(Clone, Debug, Serialize, Deserialize, PartialEq, Eq)]
pub enum Fault {
    /// The reader sees a clean end-of-file once `at` bytes have been delivered to it.
    ReadEof { at: usize },
    /// The reader gets an error once `at` bytes have been delivered to it.
    ReadErr { at: usize, kind: ErrKind },
    /// The writer gets BrokenPipe once `at` bytes have been accepted.
    WriteErr { at: usize },
    /// The writer gets one error once `at` bytes have been accepted, and works again afterwards (a
    /// write-timeout wrapper, a layer that reports a transient condition as an error).
    WriteErrOnce { at: usize },
    /// The k-th flush (0-based) fails.
    FlushErr { k: usize },
    /// Bytes beyond offset `at` are accepted but never delivered (a silent peer).
    Blackhole { at: usize },
    /// Shutdown never completes.
    ShutdownHangs,
    /// Shutdown completes after this many milliseconds.
    ShutdownDelay { ms: u64 },
}

#[derive(Clone, Debug)]
pub enum Ev {
    Write { off: usize, len: usize, t: Instant },
    Flush { t: Instant },
    Shutdown { t: Instant },
}

struct State {
    p: PipeParams,
    queue: VecDeque<(Instant, VecDeque<u8>)>,
    buffered: usize,
    accepted: usize,
    delivered: usize,
    writes: usize,
    reads: usize,
    flushes: usize,
    writer_closed: bool,
    reader_dropped: bool,
    read_waker: Option<Waker>,
    write_waker: Option<Waker>,
    faults: Vec<Fault>,
    log: Vec<Ev>,
    raw: Vec<u8>,
    record_raw: bool,
    shutdown_seen: usize,
    /// how many injected faults were actually returned to the code under test
    faults_hit: usize,
    /// Reader stops consuming (a peer that neither reads nor writes).
    reader_frozen: bool,
    /// (bytes, ms): once this many bytes have been delivered the reader gets nothing for this long
    stall_at: Option<(usize, u64)>,
    stall_until: Option<Instant>,
    shutdown_at: Option<Instant>,
    /// the kind injected write / flush errors carry
    write_err_kind: ErrKind,
    /// bytes accepted so far at each injected write / flush error
    fault_offsets: Vec<usize>,
}

#[derive(Clone)]
pub struct PipeHandle(Arc<Mutex<State>>);

pub struct PipeWriter(PipeHandle);
pub struct PipeReader {
    h: PipeHandle,
    sleep: Option<Pin<Box<Sleep>>>,
}

pub fn pipe(p: PipeParams) -> (PipeWriter, PipeReader, PipeHandle) {
    let st = State {
        p,
        queue: VecDeque::new(),
        buffered: 0,
        accepted: 0,
        delivered: 0,
        writes: 0,
        reads: 0,
        flushes: 0,
        writer_closed: false,
        reader_dropped: false,
        read_waker: None,
        write_waker: None,
        faults: Vec::new(),
        log: Vec::new(),
        raw: Vec::new(),
        record_raw: true,
        shutdown_seen: 0,
        faults_hit: 0,
        reader_frozen: false,
        stall_at: None,
        stall_until: None,
        shutdown_at: None,
        write_err_kind: ErrKind::BrokenPipe,
        fault_offsets: Vec::new(),
    };
    let h = PipeHandle(Arc::new(Mutex::new(st)));
    (PipeWriter(h.clone()), PipeReader { h: h.clone(), sleep: None }, h)
}

impl PipeHandle {
    pub fn arm(&self, f: Fault) {
        let mut s = self.0.lock().unwrap();
        s.faults.push(f);
        if let Some(w) = s.read_waker.take() {
            w.wake();
        }
        if let Some(w) = s.write_waker.take() {
            w.wake();
        }
    }
    /// Clean EOF for the reader right now (after what has been delivered so far).
    pub fn eof_now(&self) {
        let at = self.0.lock().unwrap().delivered;
        self.arm(Fault::ReadEof { at });
    }
    pub fn read_err_now(&self, kind: ErrKind) {
        let at = self.0.lock().unwrap().delivered;
        self.arm(Fault::ReadErr { at, kind });
    }
    pub fn write_err_now(&self) {
        let at = self.0.lock().unwrap().accepted;
        self.arm(Fault::WriteErr { at });
    }
    pub fn blackhole_now(&self) {
        let at = self.0.lock().unwrap().accepted;
        self.arm(Fault::Blackhole { at });
    }
    /// A transport that stalls and recovers: once `at` bytes have been delivered, reads return
    /// nothing for `ms` milliseconds (the writer backs up against the capacity), then resume.
    pub fn stall_reader_at(&self, at: usize, ms: u64) {
        self.0.lock().unwrap().stall_at = Some((at, ms));
    }
    /// The error kind of injected write and flush failures (default: broken pipe).
    pub fn set_write_err_kind(&self, kind: ErrKind) {
        self.0.lock().unwrap().write_err_kind = kind;
    }
    pub fn freeze_reader(&self, frozen: bool) {
        let mut s = self.0.lock().unwrap();
        s.reader_frozen = frozen;
        if !frozen {
            if let Some(w) = s.read_waker.take() {
                w.wake();
            }
        }
    }
    pub fn set_record_raw(&self, on: bool) {
        self.0.lock().unwrap().record_raw = on;
    }
    pub fn accepted(&self) -> usize {
        self.0.lock().unwrap().accepted
    }
    pub fn delivered(&self) -> usize {
        self.0.lock().unwrap().delivered
    }
    pub fn raw(&self) -> Vec<u8> {
        self.0.lock().unwrap().raw.clone()
    }
    pub fn raw_len(&self) -> usize {
        self.0.lock().unwrap().raw.len()
    }
    pub fn log(&self) -> Vec<Ev> {
        self.0.lock().unwrap().log.clone()
    }
    pub fn log_len(&self) -> usize {
        self.0.lock().unwrap().log.len()
    }
    /// (offset, len) of every accepted write, in order.
    pub fn writes(&self) -> Vec<(usize, usize)> {
        self.0
            .lock()
            .unwrap()
            .log
            .iter()
            .filter_map(|e| if let Ev::Write { off, len, .. } = e { Some((*off, *len)) } else { None })
            .collect()
    }
    pub fn shutdowns(&self) -> usize {
        self.0.lock().unwrap().shutdown_seen
    }
    pub fn writer_closed(&self) -> bool {
        self.0.lock().unwrap().writer_closed
    }
    pub fn faults_hit(&self) -> usize {
        self.0.lock().unwrap().faults_hit
    }
    /// How many bytes had been accepted at each injected write / flush error.
    pub fn fault_offsets(&self) -> Vec<usize> {
        self.0.lock().unwrap().fault_offsets.clone()
    }
    pub fn flushes(&self) -> usize {
        self.0.lock().unwrap().flushes
    }
}

impl AsyncWrite for PipeWriter {
    fn poll_write(self: Pin<&mut Self>, cx: &mut Context<'_>, buf: &[u8]) -> Poll<io::Result<usize>> {
        let mut s = self.0.0.lock().unwrap();
        if s.writer_closed {
            return Poll::Ready(Err(io::Error::new(io::ErrorKind::BrokenPipe, "write after shutdown")));
        }
        let mut limit = usize::MAX;
        if let Some(i) = s.faults.iter().position(|f| matches!(f, Fault::WriteErrOnce { at } if s.accepted >= *at)) {
            // one error, then the transport works again
            s.faults.remove(i);
            s.faults_hit += 1;
            let acc = s.accepted;
            s.fault_offsets.push(acc);
            return Poll::Ready(Err(s.write_err_kind.to_io()));
        }
        for f in &s.faults {
            if let Fault::WriteErrOnce { at } = f {
                limit = limit.min(*at - s.accepted);
            }
            if let Fault::WriteErr { at } = f {
                if s.accepted >= *at {
                    s.faults_hit += 1;
                    return Poll::Ready(Err(s.write_err_kind.to_io()));
                }
                limit = limit.min(*at - s.accepted);
            }
        }
        if s.reader_dropped {
            return Poll::Ready(Err(s.write_err_kind.to_io()));
        }
        if buf.is_empty() {
            return Poll::Ready(Ok(0));
        }
        let blackhole_at = s.faults.iter().find_map(|f| if let Fault::Blackhole { at } = f { Some(*at) } else { None });
        let room = s.p.capacity.saturating_sub(s.buffered);
        if room == 0 {
            s.write_waker = Some(cx.waker().clone());
            return Poll::Pending;
        }
        let k = s.writes;
        let script = if s.p.write_sizes.is_empty() { usize::MAX } else { s.p.write_sizes[k % s.p.write_sizes.len()].max(1) };
        let mut n = buf.len().min(script).min(room).min(limit);
        if let Some(bh) = blackhole_at {
            // keep the boundary exact: do not let one write straddle the black hole offset
            if s.accepted < bh {
                n = n.min(bh - s.accepted);
            }
        }
        s.writes += 1;
        let off = s.accepted;
        let now = Instant::now();
        s.log.push(Ev::Write { off, len: n, t: now });
        if s.record_raw {
            s.raw.extend_from_slice(&buf[..n]);
        }
        s.accepted += n;
        // A black-holed byte still occupies the (peer's) buffer: this is what a dead TCP peer looks like.
        s.buffered += n;
        let swallowed = blackhole_at.is_some_and(|bh| off >= bh);
        if !swallowed {
            let at = now + Duration::from_millis(s.p.delay_ms);
            s.queue.push_back((at, buf[..n].iter().copied().collect()));
            if let Some(w) = s.read_waker.take() {
                w.wake();
            }
        }
        Poll::Ready(Ok(n))
    }

    fn poll_flush(self: Pin<&mut Self>, _cx: &mut Context<'_>) -> Poll<io::Result<()>> {
        let mut s = self.0.0.lock().unwrap();
        let k = s.flushes;
        s.flushes += 1;
        s.log.push(Ev::Flush { t: Instant::now() });
        if s.faults.iter().any(|f| matches!(f, Fault::FlushErr { k: kk } if *kk == k)) {
            s.faults_hit += 1;
            let acc = s.accepted;
            s.fault_offsets.push(acc);
            return Poll::Ready(Err(s.write_err_kind.to_io()));
        }
        let broken = s.faults.iter().any(|f| matches!(f, Fault::WriteErr { at } if s.accepted >= *at));
        if broken {
            s.faults_hit += 1;
            return Poll::Ready(Err(s.write_err_kind.to_io()));
        }
        Poll::Ready(Ok(()))
    }

    fn poll_shutdown(self: Pin<&mut Self>, cx: &mut Context<'_>) -> Poll<io::Result<()>> {
        let mut s = self.0.0.lock().unwrap();
        if let Some(at) = s.shutdown_at {
            if Instant::now() < at {
                return Poll::Pending;
            }
        } else {
            s.shutdown_seen += 1;
            s.log.push(Ev::Shutdown { t: Instant::now() });
        }
        if s.faults.iter().any(|f| matches!(f, Fault::ShutdownHangs)) {
            return Poll::Pending;
        }
        if s.shutdown_at.is_none() {
            if let Some(ms) = s.faults.iter().find_map(|f| if let Fault::ShutdownDelay { ms } = f { Some(*ms) } else { None }) {
                let at = Instant::now() + std::time::Duration::from_millis(ms);
                s.shutdown_at = Some(at);
                let waker = cx.waker().clone();
                tokio::spawn(async move {
                    tokio::time::sleep_until(at).await;
                    waker.wake();
                });
                return Poll::Pending;
            }
        }
        s.writer_closed = true;
        if let Some(w) = s.read_waker.take() {
            w.wake();
        }
        Poll::Ready(Ok(()))
    }
}

impl Drop for PipeWriter {
    fn drop(&mut self) {
        let mut s = self.0.0.lock().unwrap();
        s.writer_closed = true;
        if let Some(w) = s.read_waker.take() {
            w.wake();
        }
    }
}

impl Drop for PipeReader {
    fn drop(&mut self) {
        let mut s = self.h.0.lock().unwrap();
        s.reader_dropped = true;
        if let Some(w) = s.write_waker.take() {
            w.wake();
        }
    }
}

impl AsyncRead for PipeReader {
    fn poll_read(mut self: Pin<&mut Self>, cx: &mut Context<'_>, buf: &mut ReadBuf<'_>) -> Poll<io::Result<()>> {
        let this = &mut *self;
        let mut s = this.h.0.lock().unwrap();
        if s.reader_frozen {
            s.read_waker = Some(cx.waker().clone());
            return Poll::Pending;
        }
        if let Some((at, ms)) = s.stall_at {
            if s.delivered >= at {
                s.stall_at = None;
                s.stall_until = Some(Instant::now() + std::time::Duration::from_millis(ms));
            }
        }
        if let Some(until) = s.stall_until {
            if Instant::now() < until {
                s.read_waker = Some(cx.waker().clone());
                drop(s);
                let mut sl = Box::pin(tokio::time::sleep_until(until));
                let _ = sl.as_mut().poll(cx);
                this.sleep = Some(sl);
                return Poll::Pending;
            }
            s.stall_until = None;
        }
        let mut limit = usize::MAX;
        let mut hit: Option<Option<ErrKind>> = None;
        for f in &s.faults {
            match f {
                Fault::ReadEof { at } => {
                    if s.delivered >= *at {
                        hit = Some(None);
                        break;
                    }
                    limit = limit.min(*at - s.delivered);
                }
                Fault::ReadErr { at, kind } => {
                    if s.delivered >= *at {
                        hit = Some(Some(kind.clone()));
                        break;
                    }
                    limit = limit.min(*at - s.delivered);
                }
                _ => {}
            }
        }
        if let Some(h) = hit {
            s.faults_hit += 1;
            return match h {
                None => Poll::Ready(Ok(())),
                Some(k) => Poll::Ready(Err(k.to_io())),
            };
        }
        if buf.remaining() == 0 {
            return Poll::Ready(Ok(()));
        }
        let now = Instant::now();
        let Some((at, _)) = s.queue.front() else {
            if s.writer_closed {
                return Poll::Ready(Ok(()));
            }
            s.read_waker = Some(cx.waker().clone());
            return Poll::Pending;
        };
        if *at > now {
            let at = *at;
            s.read_waker = Some(cx.waker().clone());
            drop(s);
            let mut sl = Box::pin(tokio::time::sleep_until(at));
            let _ = sl.as_mut().poll(cx);
            this.sleep = Some(sl);
            return Poll::Pending;
        }
        this.sleep = None;
        let k = s.reads;
        s.reads += 1;
        let script = if s.p.read_sizes.is_empty() { usize::MAX } else { s.p.read_sizes[k % s.p.read_sizes.len()].max(1) };
        let mut want = buf.remaining().min(script).min(limit);
        let mut got = 0usize;
        // take from the head chunk(s) that are already deliverable
        while want > 0 {
            let Some((at, chunk)) = s.queue.front_mut() else { break };
            if *at > now {
                break;
            }
            let n = want.min(chunk.len());
            let (a, b) = chunk.as_slices();
            if n <= a.len() {
                buf.put_slice(&a[..n]);
            } else {
                buf.put_slice(a);
                buf.put_slice(&b[..n - a.len()]);
            }
            chunk.drain(..n);
            if chunk.is_empty() {
                s.queue.pop_front();
            }
            want -= n;
            got += n;
        }
        s.delivered += got;
        s.buffered -= got;
        if let Some(w) = s.write_waker.take() {
            w.wake();
        }
        Poll::Ready(Ok(()))
    }
}

use std::future::Future;

/// A writer that - like a `BufWriter`, or TLS while the socket would block - hands nothing to the
/// transport until it is flushed.
pub struct HoldUntilFlush {
    inner: PipeWriter,
    staged: Vec<u8>,
    sent: usize,
}

impl HoldUntilFlush {
    pub fn new(inner: PipeWriter) -> Self {
        Self { inner, staged: Vec::new(), sent: 0 }
    }
    fn drain(&mut self, cx: &mut Context<'_>) -> Poll<io::Result<()>> {
        while self.sent < self.staged.len() {
            let this = &mut *self;
            match Pin::new(&mut this.inner).poll_write(cx, &this.staged[this.sent..]) {
                Poll::Ready(Ok(0)) => return Poll::Ready(Err(io::Error::new(io::ErrorKind::WriteZero, "transport took nothing"))),
                Poll::Ready(Ok(n)) => self.sent += n,
                Poll::Ready(Err(e)) => return Poll::Ready(Err(e)),
                Poll::Pending => return Poll::Pending,
            }
        }
        self.staged.clear();
        self.sent = 0;
        Poll::Ready(Ok(()))
    }
}

impl AsyncWrite for HoldUntilFlush {
    fn poll_write(mut self: Pin<&mut Self>, _cx: &mut Context<'_>, buf: &[u8]) -> Poll<io::Result<usize>> {
        self.staged.extend_from_slice(buf);
        Poll::Ready(Ok(buf.len()))
    }
    fn poll_flush(mut self: Pin<&mut Self>, cx: &mut Context<'_>) -> Poll<io::Result<()>> {
        match self.drain(cx) {
            Poll::Ready(Ok(())) => Pin::new(&mut self.inner).poll_flush(cx),
            other => other,
        }
    }
    fn poll_shutdown(mut self: Pin<&mut Self>, cx: &mut Context<'_>) -> Poll<io::Result<()>> {
        match self.drain(cx) {
            Poll::Ready(Ok(())) => Pin::new(&mut self.inner).poll_shutdown(cx),
            other => other,
        }
    }
}
