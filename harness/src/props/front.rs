//! Family `front` (Lab-S), shared by C07 and C16: arbitrary destinations through the real SOCKS5
//! and HTTP front-ends and the real client, observed by the reference server.
//!
//! The end-to-end families that dial can only name harness-owned loopback listeners. Here nothing
//! is dialled: the reference server records the destination header of every stream it is asked to
//! open, answers SYNACK and echoes. So every IPv4 / IPv6 address, every name of 1..255 bytes and
//! every port 0..65535 can be requested through the front-ends, in any TCP segmentation, and the
//! destination the *server would dial* is compared with the one the application asked for.

use crate::engine::*;
use crate::ensure;
use crate::lab_sock::refpeer::*;
use crate::lab_sock::*;
use crate::props::c07::{host_text, ref_decode, same_dest, HostGen};
use proptest::prelude::*;
use serde::{Deserialize, Serialize};
use std::net::SocketAddr;
use tokio::io::{AsyncReadExt, AsyncWriteExt};
use tokio::net::TcpStream;
use tokio::time::Duration;

#[derive(Clone, Debug, Serialize, Deserialize)]
pub struct FrontReq {
    pub host: HostGen,
    /// None = the scheme's default port (HTTP forms only; SOCKS5 then uses 80)
    pub port: Option<u16>,
    /// 0 = SOCKS5 CONNECT, 1 = HTTP CONNECT, 2 = HTTP GET origin-form + Host header, 3 = HTTP GET absolute-form
    pub via: u8,
    /// 0 = one segment, 1 = byte at a time, else cut at `cuts`
    pub delivery: u8,
    pub cuts: Vec<u16>,
    /// SOCKS5 only: send the name as ATYP 3 even when the text is an address literal
    pub as_domain: bool,
}

#[derive(Clone, Debug, Serialize, Deserialize)]
pub struct FrontCase {
    pub reqs: Vec<FrontReq>,
    /// what is wrong in the AnyTLS leg (the front-end must then answer every request with a failure,
    /// never with 'succeeded' / 200): 0 = nothing, 1 = the server refuses every stream with an
    /// ordinary reason, 2 = with a reason no table of known texts will contain, 3 = the server drops
    /// the connection when the SYN arrives, 4 = the server does not know the client's password
    #[serde(default)]
    pub fault: u8,
    /// everything the server sends (ServerSettings, SYNACK, refusals, echoes) arrives this late
    #[serde(default)]
    pub slow_link_ms: u16,
}

pub struct FrontFam;

fn host_strategy() -> BoxedStrategy<HostGen> {
    prop_oneof![
        4 => prop_oneof![
            Just([0u8, 0, 0, 1]), Just([127u8, 0, 0, 1]), Just([255u8, 255, 255, 254]), Just([1u8, 2, 3, 4]), Just([10u8, 0, 255, 1]), Just([128u8, 129, 200, 255]), any::<[u8; 4]>()
        ]
        .prop_map(HostGen::V4),
        4 => prop_oneof![
            Just([0u16, 0, 0, 0, 0, 0, 0, 1]),
            Just([0u16, 0, 0, 0, 0, 0xffff, 0x0102, 0x0304]),
            Just([0x2001u16, 0xdb8, 0, 0, 1, 0, 0, 1]),
            Just([0xfe80u16, 0, 0, 0, 0x8000, 0xff, 0xff00, 0x8001]),
            Just([0xffffu16; 8]),
            any::<[u16; 8]>(),
        ]
        .prop_map(HostGen::V6),
        // names: lengths around every width a parser might use for the length (7 bits, 8 bits), LDH
        8 => (prop_oneof![Just(1u16), Just(2), Just(3), Just(63), Just(64), Just(127), Just(128), Just(129), Just(200), Just(253), Just(254), Just(255), 4u16..253], Just(0u8)).prop_map(|(l, s)| HostGen::Name(l, s)),
        // digits and dots that are not an address
        1 => (prop_oneof![Just(5u16), Just(7), Just(15), Just(16)], Just(2u8)).prop_map(|(l, s)| HostGen::Name(l, s)),
    ]
    .boxed()
}

fn req_strategy() -> BoxedStrategy<FrontReq> {
    (
        host_strategy(),
        prop_oneof![
            2 => Just(None),
            8 => prop_oneof![Just(1u16), Just(80), Just(255), Just(256), Just(443), Just(8080), Just(32767), Just(32768), Just(65280), Just(65535), any::<u16>()].prop_map(Some),
        ],
        0u8..4,
        prop_oneof![3 => Just(0u8), 1 => Just(1u8), 3 => Just(2u8)],
        proptest::collection::vec(any::<u16>(), 1..4),
        proptest::bool::weighted(0.15),
    )
        .prop_map(|(host, port, via, delivery, cuts, as_domain)| FrontReq { host, port, via, delivery, cuts, as_domain })
        .boxed()
}

async fn send_cut(s: &mut TcpStream, bytes: &[u8], delivery: u8, cuts: &[u16]) -> std::io::Result<()> {
    let mut pts: Vec<usize> = match delivery {
        0 => vec![],
        1 => (1..bytes.len()).collect(),
        _ => cuts.iter().map(|c| idx(*c, bytes.len() + 1)).collect(),
    };
    pts.sort_unstable();
    pts.dedup();
    pts.retain(|p| *p > 0 && *p < bytes.len());
    pts.push(bytes.len());
    let mut from = 0usize;
    let n = pts.len();
    for p in pts {
        s.write_all(&bytes[from..p]).await?;
        from = p;
        if n > 1 {
            tokio::time::sleep(Duration::from_millis(if delivery == 1 { 0 } else { 2 })).await;
            if delivery == 1 {
                tokio::task::yield_now().await;
            }
        }
    }
    Ok(())
}

async fn read_until(s: &mut TcpStream, ms: u64, mut done: impl FnMut(&[u8]) -> bool) -> (Vec<u8>, bool) {
    let mut out = Vec::new();
    let mut buf = [0u8; 2048];
    let deadline = tokio::time::Instant::now() + Duration::from_millis(ms);
    while !done(&out) {
        match tokio::time::timeout_at(deadline, s.read(&mut buf)).await {
            Ok(Ok(0)) | Ok(Err(_)) => return (out, true),
            Ok(Ok(n)) => out.extend_from_slice(&buf[..n]),
            Err(_) => break,
        }
    }
    (out, false)
}

fn all_dests(srv: &RefServer) -> Vec<Vec<u8>> {
    let conns = srv.conns.lock().unwrap().clone();
    let mut v = Vec::new();
    for c in conns {
        for (_sid, d) in c.lock().unwrap().dests.iter() {
            v.push(d.clone());
        }
    }
    v
}

/// What the application asked for, as text, and how it writes the host inside an HTTP message.
fn spelled(r: &FrontReq) -> (String, u16, String) {
    let text = host_text(&r.host);
    let port = match (r.via, r.port) {
        (_, Some(p)) => p,
        (1, None) => 443,
        _ => 80,
    };
    let http_host = if matches!(r.host, HostGen::V6(_)) { format!("[{text}]") } else { text.clone() };
    (text, port, http_host)
}

impl Family for FrontFam {
    type Case = FrontCase;
    fn name(&self) -> &'static str {
        "front"
    }
    fn fixed_cases(&self, _tier: Tier) -> Vec<FrontCase> {
        // every name length through SOCKS5 in one history per block of 32, and the port bytes' boundaries
        let mut v = Vec::new();
        for block in 0..8u16 {
            let reqs = (1..=32u16)
                .map(|i| FrontReq { host: HostGen::Name((block * 32 + i).min(255), 0), port: Some(if i % 2 == 0 { 255 } else { 256 }), via: 0, delivery: (i % 3) as u8, cuts: vec![i * 1999, 65535 - i * 911], as_domain: false })
                .collect();
            v.push(FrontCase { reqs, fault: 0, slow_link_ms: 0 });
        }
        for fault in 1..=4u8 {
            let reqs = (0..4u8).map(|via| FrontReq { host: HostGen::Name(12, 0), port: Some(8080), via, delivery: 0, cuts: vec![], as_domain: false }).collect();
            v.push(FrontCase { reqs, fault, slow_link_ms: 0 });
        }
        // a refusal that takes its time to arrive (first stream of a fresh session, then a reused one)
        for via in 0..2u8 {
            let reqs = (0..2).map(|_| FrontReq { host: HostGen::Name(12, 0), port: Some(8080), via, delivery: 0, cuts: vec![], as_domain: false }).collect();
            v.push(FrontCase { reqs, fault: 1, slow_link_ms: 700 });
        }
        v
    }
    fn strategy(&self, _tier: Tier) -> BoxedStrategy<FrontCase> {
        let slow = (proptest::collection::vec(req_strategy(), 1..3), prop_oneof![Just(0u8), Just(1u8), Just(2u8)], prop_oneof![Just(350u16), Just(700)]).prop_map(|(reqs, fault, slow_link_ms)| FrontCase { reqs, fault, slow_link_ms });
        let plain = (proptest::collection::vec(req_strategy(), 1..8), prop_oneof![5 => Just(0u8), 1 => Just(1u8), 1 => Just(2u8), 1 => Just(3u8), 1 => Just(4u8)]).prop_map(|(reqs, fault)| FrontCase { reqs, fault, slow_link_ms: 0 });
        prop_oneof![12 => plain, 1 => slow].boxed()
    }
    fn case_budget_s(&self) -> u64 {
        180
    }
    fn run(&self, case: &FrontCase, _cx: &CaseCtx) -> CaseResult {
        let mut out = Outcome::new();
        let c = case.clone();
        let r: Result<(), Fail> = run_real(async move {
            let case = c;
            let beh = Behaviour {
                synack: true,
                echo: true,
                heartbeat: true,
                server_settings: true,
                synack_error: match case.fault {
                    1 => Some(b"Failed to connect to 10.1.2.3:8080: Connection refused (os error 111)".to_vec()),
                    2 => Some("quota exhausted \u{2014} try later".as_bytes().to_vec()),
                    _ => None,
                },
                close_on_syn: case.fault == 3,
                reply_delay_ms: case.slow_link_ms as u64,
                ..Default::default()
            };
            let srv = RefServer::start(if case.fault == 4 { "some other password" } else { PASSWORD }, beh).await?;
            let fault_text = ["", "the server refuses every stream (connection refused)", "the server refuses every stream with an unusual reason", "the server drops the connection on SYN", "the server rejects the client's password"][case.fault.min(4) as usize];
            let quiet = anytls_rs::client::SessionPoolConfig { check_interval: Duration::from_secs(3600), idle_timeout: Duration::from_secs(7200), min_idle_sessions: 1 };
            let client = real_client(srv.addr, anytls_rs::padding::DEFAULT_PADDING_SCHEME, quiet)?;
            let socks = start_socks5(client.clone()).await?;
            let http = start_http(client.clone()).await?;
            for (k, r) in case.reqs.iter().enumerate() {
                let (text, port, http_host) = spelled(r);
                let how = ["SOCKS5 CONNECT", "HTTP CONNECT", "HTTP GET (origin-form + Host)", "HTTP GET (absolute-form)"][(r.via % 4) as usize];
                let before = all_dests(&srv).len();
                let front: SocketAddr = if r.via % 4 == 0 { socks } else { http };
                let mut s = TcpStream::connect(front).await.map_err(|e| infra(format!("connect to the front-end: {e}")))?;
                let _ = s.set_nodelay(true);
                let what = format!("request #{k} via {how} for {text:?} port {port}");
                match r.via % 4 {
                    0 => {
                        let mut req = vec![5u8, 1, 0];
                        let dest = match (&r.host, r.as_domain) {
                            (HostGen::V4(o), false) => Dest::V4((*o).into(), port),
                            (HostGen::V6(g), false) => Dest::V6(std::net::Ipv6Addr::new(g[0], g[1], g[2], g[3], g[4], g[5], g[6], g[7]), port),
                            _ => Dest::Name(text.clone(), port),
                        };
                        req.extend(dest.encode());
                        // greeting and request in one generated segmentation (a client may pipeline them)
                        let mut all = vec![5u8, 1, 0];
                        all.extend_from_slice(&req);
                        send_cut(&mut s, &all, r.delivery, &r.cuts).await.map_err(|e| Fail::plain("C07.front", format!("{what}: write failed: {e}")))?;
                        let (rep, closed) = read_until(&mut s, 45_000, |b| b.len() >= 2 + 10).await;
                        ensure!(rep.len() >= 2 && rep[..2] == [5, 0], "C16.method", "{what}: method reply {:02x?} (closed: {closed})", &rep[..rep.len().min(2)]);
                        if case.fault != 0 {
                            ensure!(
                                rep.len() >= 4 && rep[2] == 5 && rep[3] != 0,
                                "C16.reply",
                                "{what}: {fault_text}, so no tunnel exists; the front-end answered {:02x?} (closed: {closed}) - a failure code is required, 'succeeded' (00) never",
                                &rep[2..]
                            );
                            continue;
                        }
                        ensure!(rep.len() >= 4 && rep[2] == 5 && rep[3] == 0, "C16.reply", "{what}: no success reply although the reference server accepts every stream: the reply was {:02x?} (closed: {closed})", &rep[2..]);
                    }
                    1 => {
                        let req = format!("CONNECT {http_host}:{port} HTTP/1.1\r\nHost: {http_host}:{port}\r\n\r\n");
                        let req = if r.port.is_none() { format!("CONNECT {http_host} HTTP/1.1\r\nHost: {http_host}\r\n\r\n") } else { req };
                        send_cut(&mut s, req.as_bytes(), r.delivery, &r.cuts).await.map_err(|e| Fail::plain("C07.front", format!("{what}: write failed: {e}")))?;
                        let (rep, closed) = read_until(&mut s, 45_000, |b| b.windows(4).any(|w| w == b"\r\n\r\n")).await;
                        if case.fault != 0 {
                            ensure!(!rep.starts_with(b"HTTP/1.1 200") && !rep.starts_with(b"HTTP/1.0 200"), "C17.connect", "{what}: {fault_text}, so no tunnel exists; CONNECT was answered {:?}", String::from_utf8_lossy(&rep[..rep.len().min(60)]));
                            continue;
                        }
                        ensure!(rep.starts_with(b"HTTP/1.1 200"), "C17.connect", "{what}: no success reply although the reference server accepts every stream: the reply was {:?} (closed: {closed})", String::from_utf8_lossy(&rep[..rep.len().min(60)]));
                    }
                    v => {
                        let authority = if r.port.is_some() { format!("{http_host}:{port}") } else { http_host.clone() };
                        let req = if v == 2 {
                            format!("GET /a/b?x=1&k={k} HTTP/1.1\r\nAccept: */*\r\nHost: {authority}\r\nX-K: {k}\r\n\r\n")
                        } else {
                            format!("GET http://{authority}/a/b?x=1&k={k} HTTP/1.1\r\nAccept: */*\r\nX-K: {k}\r\n\r\n")
                        };
                        send_cut(&mut s, req.as_bytes(), r.delivery, &r.cuts).await.map_err(|e| Fail::plain("C07.front", format!("{what}: write failed: {e}")))?;
                        // the reference server echoes the forwarded request
                        let (rep, closed) = read_until(&mut s, 45_000, |b| b.windows(4).any(|w| w == b"\r\n\r\n")).await;
                        if case.fault != 0 {
                            ensure!(!rep.starts_with(b"GET "), "C17.forward", "{what}: {fault_text}; something answered the request all the same: {:?}", String::from_utf8_lossy(&rep[..rep.len().min(60)]));
                            continue;
                        }
                        ensure!(
                            rep.starts_with(format!("GET /a/b?x=1&k={k} HTTP/1.1\r\n").as_bytes()),
                            "C17.forward",
                            "{what}: expected the forwarded request echoed by the reference server, got {:?} (closed: {closed})",
                            String::from_utf8_lossy(&rep[..rep.len().min(80)])
                        );
                    }
                }
                // the destination the server was asked to dial
                let ok = wait_until(5_000, || all_dests(&srv).len() > before).await;
                ensure!(ok, "C07.front", "{what}: the front-end reported success but no stream with a destination reached the server");
                let dests = all_dests(&srv);
                ensure!(dests.len() == before + 1, "C07.front", "{what}: {} streams were opened for one request", dests.len() - before);
                let d = &dests[before];
                let dec = ref_decode(d);
                ensure!(dec.is_some(), "C07.front", "{what}: the destination header on the wire does not parse: {:02x?}", &d[..d.len().min(40)]);
                let (h2, p2, used) = dec.unwrap();
                ensure!(used == d.len(), "C07.front", "{what}: destination header has {} trailing bytes", d.len() - used);
                ensure!(
                    (same_dest(&h2, &text) || h2.eq_ignore_ascii_case(&text)) && p2 == port,
                    "C07.front",
                    "{what}: the server was asked to dial {:?} port {p2}",
                    if h2.len() > 80 { format!("{}… ({} bytes)", &h2[..80], h2.len()) } else { h2.clone() }
                );
                // and the tunnel is a tunnel: bytes after the request are not eaten by it
                if r.via % 4 <= 1 {
                    let msg = format!("ping-{k}");
                    s.write_all(msg.as_bytes()).await.map_err(|e| Fail::plain("C07.front", format!("{what}: tunnel write: {e}")))?;
                    let (rep, _) = read_until(&mut s, 10_000, |b| b.len() >= msg.len()).await;
                    ensure!(rep == msg.as_bytes(), "C07.front", "{what}: sent {msg:?} through the tunnel, the echo was {:?}", String::from_utf8_lossy(&rep));
                }
            }
            Ok(())
        });
        r?;
        out.nt(true);
        for r in &case.reqs {
            out.class(["via-socks5", "via-http-connect", "via-http-origin-form", "via-http-absolute-form"][(r.via % 4) as usize]);
            match &r.host {
                HostGen::V4(_) => out.class("ipv4"),
                HostGen::V6(_) => out.class("ipv6"),
                HostGen::Name(l, _) => {
                    out.class_if(*l >= 128, "name>=128");
                    out.class_if(*l >= 254, "name>=254");
                    out.class_if(*l < 128, "name<128");
                }
                _ => {}
            }
            out.class_if(r.port.is_none(), "default-port");
            out.class_if(matches!(r.port, Some(p) if p >= 32768), "port>=32768");
            out.class_if(r.delivery == 1, "byte-at-a-time");
        }
        out.class_if(case.fault != 0, "fault-in-the-anytls-leg");
        out.class_if(case.slow_link_ms > 0, "slow-link-to-the-server");
        Ok(out)
    }
}
