//! C11 — concurrent writers cannot scramble the wire.

use crate::engine::*;
use crate::lab_mem::pipe::PipeParams;
use crate::lab_mem::*;
use crate::props::c01::SchemeSel;
use crate::reference::codec::{self as rc, RFrame};
use crate::ensure;
use anytls_rs::protocol::{Command, Frame};
use bytes::Bytes;
use proptest::prelude::*;
use serde::{Deserialize, Serialize};
use std::sync::{Arc, Mutex};
use tokio::io::AsyncReadExt;

pub fn property() -> Property {
    Property {
        id: "C11",
        level: "exploration",
        rule: "2-5 tasks on one fresh real client session, each doing what real callers do (open_stream -> disable_buffering -> destination via write_data_frame -> further data via write_data_frame or send_data; heartbeat frames), the first task starting while start_client has only just buffered the settings; the schedule is generated: yield counts at the H1 hook points (write_frame after the pending buffer, write_with_padding after the packet index / before the writer lock, open_stream before the SYN write, process_stream_data before its write, ...), task spawn order, transport Pending through small pipe capacities; padding on and off. Oracles on the recorded wire with padding erased (reference codec): complete parse and multiset equality with the submission logs, per-task FIFO, settings frame first, SYN before every PSH of its stream. Non-trivial = >= 2 tasks and >= 1 forced pre-emption taken at a hook point. Distinct = distinct serialized case. Three cases in ten run the session's own keep-alive monitor (interval 1 s or 30 s, first request due at once) as one more writer; its requests (id 0) may appear in any number but never before the settings frame and never inside another frame; stalls now last up to 61 s. Family `fresh_burst` (Lab-S, multi-threaded runtime): 1-2 rounds of 2-9 simultaneous requests through the real SOCKS5 front-end and a real client (first round: empty pool) to the reference server, which records every session's frames in order, answers SYNACK and echoes; runtime threads are blocked for up to 200 / 2000 / 10000 microseconds at 0, 64, 256 or 1024 of 1024 client-side tracing events (harness/src/stall.rs). Oracles: every request is served; on every session the first frame is the settings frame and there is one; every stream's SYN precedes its data. The writers family also runs crowds of 20 / 70 / 150 tasks (fixed cases, with and without padding) that all open their stream on the fresh session and wait at a barrier before any of them leaves the buffering phase: the settings frame must still be the first frame on the wire and every other oracle holds as for the small groups.",
        assumptions: vec![
            "schedules are explored at the instrumented points (H1), at transport Pendings and through spawn order, on a single-threaded runtime",
            "reference codec; tokio paused clock / current-thread scheduler",
        ],
        families: vec![(Box::new(WritersFam), 100_000, 2_000_000), (Box::new(FreshBurstFam), 150, 3_000)],
    }
}

#[derive(Clone, Debug, Serialize, Deserialize)]
pub enum TOp {
    /// write_data_frame with this many payload bytes
    Frame(usize),
    /// send_data with this many payload bytes (only after all Frame ops of the task)
    Send(usize),
    Heart,
}

#[derive(Clone, Debug, Serialize, Deserialize)]
pub struct TaskPlan {
    /// opens a stream first (real callers) or only sends control frames
    pub opens: bool,
    pub ops: Vec<TOp>,
    /// yields before the task starts (spawn-order / start-time variation)
    pub start_yields: u8,
}

#[derive(Clone, Debug, Serialize, Deserialize)]
pub struct WritersCase {
    pub scheme: SchemeSel,
    pub tasks: Vec<TaskPlan>,
    pub c2s: PipeParams,
    pub yields: Vec<u8>,
    pub draw_seed: u64,
    /// Some((n, secs)): the peer stops reading for `secs` virtual seconds once it has read n bytes
    /// (a transport that stalls and recovers; with a small capacity the writers sit in their writes)
    #[serde(default)]
    pub stall: Option<(u16, u8)>,
    /// Some(secs): the session runs its keep-alive monitor with this interval (its first request is
    /// due at once, while the settings frame is still buffered) - one more writer, inside the session
    #[serde(default)]
    pub monitor: Option<u8>,
    /// every task that opens a stream waits, right after open_stream, until all of them have opened
    /// theirs (a burst of callers on a brand-new session: the pending buffer holds all their SYNs
    /// before the first destination write flushes it)
    #[serde(default)]
    pub open_barrier: bool,
}

pub struct WritersFam;

pub struct ConcRun {
    pub raw: Vec<u8>,
    pub writes: Vec<(usize, usize)>,
    pub subs: Vec<Vec<RFrame>>,
    pub sched: SchedLog,
}

/// Normalise: all Send ops after all Frame ops within a task (the only mix real callers perform).
fn normalise(ops: &[TOp]) -> Vec<TOp> {
    let mut frames: Vec<TOp> = Vec::new();
    let mut sends: Vec<TOp> = Vec::new();
    for o in ops {
        match o {
            TOp::Send(_) => sends.push(o.clone()),
            TOp::Heart if !sends.is_empty() => {} // a control frame would race with the forwarded data
            _ => frames.push(o.clone()),
        }
    }
    frames.extend(sends);
    frames
}

pub fn run_concurrent(case: &WritersCase) -> Result<ConcRun, Fail> {
    let text = case.scheme.text();
    let tasks = case.tasks.clone();
    let c2s = case.c2s.clone();
    let yields = case.yields.clone();
    let seed = case.draw_seed;
    let stall = case.stall;
    let monitor = case.monitor;
    let open_barrier = case.open_barrier;
    run_virtual(async move {
        install_draw(seed);
        let sched = install_schedule(yields);
        let mut l = link(c2s, PipeParams::default());
        let hb = monitor.map(|secs| anytls_rs::session::SessionHeartbeatConfig { interval: tokio::time::Duration::from_secs(secs.max(1) as u64), timeout: tokio::time::Duration::from_secs(1_000_000) });
        let sess = client_session(&mut l, padding(&text), hb);
        // a peer that only drains
        let mut sr = l.s_r.take().unwrap();
        let _keep_s_w = l.s_w.take();
        let stalling = Arc::new(std::sync::atomic::AtomicBool::new(false));
        let stalling2 = stalling.clone();
        tokio::spawn(async move {
            let stalling = stalling2;
            let mut buf = vec![0u8; 65536];
            let mut total = 0usize;
            let mut stalled = false;
            loop {
                if let Some((n, secs)) = stall {
                    if !stalled && total >= n as usize {
                        stalled = true;
                        stalling.store(true, std::sync::atomic::Ordering::SeqCst);
                        tokio::time::sleep(tokio::time::Duration::from_secs(secs as u64)).await;
                        stalling.store(false, std::sync::atomic::Ordering::SeqCst);
                    }
                }
                // read in small pieces so that the stall point is hit closely
                let lim = if stall.is_some() && !stalled { 16 } else { buf.len() };
                match sr.read(&mut buf[..lim]).await {
                    Ok(0) | Err(_) => break,
                    Ok(k) => total += k,
                }
            }
        });
        let subs: Vec<Arc<Mutex<Vec<RFrame>>>> = tasks.iter().map(|_| Default::default()).collect();
        let mut handles = Vec::new();
        // the first task may start while start_client is still running
        let starter = {
            let s = sess.clone();
            tokio::spawn(async move { s.start_client().await.map_err(|e| e.to_string()) })
        };
        // real callers only get the session after start_client returned (create_new_session awaits it)
        match within(WATCHDOG, starter).await {
            Some(Ok(Ok(()))) => {}
            other => return Err(Fail::new("C11.api", "C11.api:start_client", format!("start_client: {:?}", other))),
        }
        let openers = tasks.iter().filter(|t| t.opens).count();
        let barrier = std::sync::Arc::new(tokio::sync::Barrier::new(openers.max(1)));
        for (ti, plan) in tasks.iter().cloned().enumerate() {
            let sess = sess.clone();
            let log = subs[ti].clone();
            let barrier = barrier.clone();
            handles.push(tokio::spawn(async move {
                for _ in 0..plan.start_yields {
                    tokio::task::yield_now().await;
                }
                let mut sid = 0u32;
                let mut stream = None;
                if plan.opens {
                    // the SYN is logged before the call: submission order is program order
                    let (st, _rx) = sess.open_stream().await.map_err(|e| format!("open_stream: {e}"))?;
                    sid = st.id();
                    log.lock().unwrap().push(RFrame::ctl(rc::SYN, sid));
                    stream = Some(st);
                    if open_barrier {
                        barrier.wait().await;
                    }
                    sess.disable_buffering();
                }
                let mut off = 0u64;
                for op in normalise(&plan.ops) {
                    match op {
                        TOp::Frame(n) if plan.opens => {
                            let data = keyed(ti as u32, 0, off, n);
                            off += n as u64;
                            log.lock().unwrap().extend(rc::psh_frames(sid, &data));
                            sess.write_data_frame(sid, Bytes::from(data)).await.map_err(|e| format!("write_data_frame: {e}"))?;
                        }
                        TOp::Send(n) if plan.opens => {
                            let data = keyed(ti as u32, 0, off, n);
                            off += n as u64;
                            log.lock().unwrap().extend(rc::psh_frames(sid, &data));
                            stream.as_ref().unwrap().send_data(Bytes::from(data)).map_err(|e| format!("send_data: {e}"))?;
                        }
                        TOp::Heart => {
                            if !plan.opens {
                                sess.disable_buffering();
                            }
                            // (id 0 is what the session's own monitor uses)
                            log.lock().unwrap().push(RFrame::ctl(rc::HEART_REQ, 0x100 + ti as u32));
                            sess.write_control_frame(Frame::control(Command::HeartRequest, 0x100 + ti as u32))
                                .await
                                .map_err(|e| format!("write_control_frame: {e}"))?;
                        }
                        _ => {}
                    }
                }
                Ok::<(), String>(())
            }));
        }
        let joined = within(WATCHDOG, async {
            let mut r = Ok(());
            for h in handles {
                match h.await {
                    Ok(Ok(())) => {}
                    Ok(Err(e)) => r = Err(e),
                    Err(e) => r = Err(format!("task panicked: {e}")),
                }
            }
            r
        })
        .await;
        match joined {
            None => return Err(Fail::new("C11.api", "C11.api:hang", "a writer task did not finish within one virtual hour")),
            Some(Err(e)) => return Err(Fail::new("C11.api", "C11.api:err", format!("a write call failed on a live session: {e}"))),
            Some(Ok(())) => {}
        }
        // flush whatever a control-only run left in the initial buffer, and let forwarded data drain
        sess.disable_buffering();
        let _ = within(WATCHDOG, sess.write_control_frame(Frame::control(Command::HeartRequest, 0xFFFF))).await;
        // forwarded data (send_data) is written by the session's own task: let it get through, also
        // behind a stalled transport
        settle(tokio::time::Duration::from_secs(2 + stall.map(|s| s.1 as u64 + 5).unwrap_or(0))).await;
        let subs: Vec<Vec<RFrame>> = subs.iter().map(|s| s.lock().unwrap().clone()).collect();
        // With the keep-alive monitor running the wire is never final: take the snapshot at a moment
        // when no write of the monitor is half-way through the transport (an in-flight write completes
        // within milliseconds of virtual time; a torn frame stays torn and is judged below)
        let mut raw = l.c2s.raw();
        if monitor.is_some() {
            // (the monitor's own traffic can carry the peer to its stall point this late)
            for _ in 0..600 {
                let in_stall = stalling.load(std::sync::atomic::Ordering::SeqCst);
                if !in_stall && rc::parse(&raw).1 == raw.len() {
                    break;
                }
                settle(tokio::time::Duration::from_millis(if in_stall { 1000 } else { 5 })).await;
                raw = l.c2s.raw();
            }
        }
        Ok(ConcRun { raw, writes: l.c2s.writes(), subs, sched: sched.lock().unwrap().clone() })
    })
}

fn describe(f: &RFrame) -> String {
    format!("cmd={} sid={} len={}", f.cmd, f.sid, f.data.len())
}

pub fn check_wire(run: &ConcRun) -> Result<Vec<RFrame>, Fail> {
    let (frames, used) = rc::parse(&run.raw);
    ensure!(
        used == run.raw.len(),
        "C11.contig",
        "the wire does not parse into complete frames: {} of {} bytes consumed after {} frames; frames {:?}; unparsed tail {:02x?}",
        used,
        run.raw.len(),
        frames.len(),
        frames.iter().rev().take(12).rev().map(describe).collect::<Vec<_>>(),
        &run.raw[used..run.raw.len().min(used + 24)]
    );
    let kept: Vec<RFrame> = frames.into_iter().filter(|f| f.cmd != rc::WASTE).collect();
    ensure!(!kept.is_empty(), "C11.settings", "nothing on the wire");
    ensure!(
        kept[0].cmd == rc::SETTINGS,
        "C11.settings",
        "the first frame of the session is {} instead of the settings frame (wire order: {:?})",
        describe(&kept[0]),
        kept.iter().take(8).map(describe).collect::<Vec<_>>()
    );
    ensure!(
        kept.iter().filter(|f| f.cmd == rc::SETTINGS).count() == 1,
        "C11.contig",
        "settings frame duplicated"
    );
    // multiset equality: submitted frames + settings + the final flush heartbeat
    let mut want: Vec<&RFrame> = run.subs.iter().flatten().collect();
    let flush = RFrame::ctl(rc::HEART_REQ, 0xFFFF);
    want.push(&flush);
    // the session's own keep-alive requests (id 0) come in any number
    let mut got: Vec<&RFrame> = kept.iter().filter(|f| f.cmd != rc::SETTINGS && !(f.cmd == rc::HEART_REQ && f.sid == 0)).collect();
    let key = |f: &&RFrame| (f.cmd, f.sid, f.data.len(), f.data.clone());
    let mut w2 = want.clone();
    w2.sort_by_key(key);
    got.sort_by_key(key);
    if w2 != got {
        let missing: Vec<String> = w2.iter().filter(|f| !got.contains(f)).take(4).map(|f| describe(f)).collect();
        let extra: Vec<String> = got.iter().filter(|f| !w2.contains(f)).take(4).map(|f| describe(f)).collect();
        return Err(Fail::plain(
            "C11.contig",
            format!(
                "frames on the wire differ from the frames submitted: {} on the wire, {} submitted; missing (e.g.) {:?}, unexpected (e.g.) {:?}",
                got.len(),
                w2.len(),
                missing,
                extra
            ),
        ));
    }
    // per-task FIFO
    for (ti, sub) in run.subs.iter().enumerate() {
        let mut pos = 0usize;
        for f in sub {
            match kept[pos..].iter().position(|g| g == f) {
                Some(p) => pos += p + 1,
                None => {
                    return Err(Fail::plain(
                        "C11.fifo",
                        format!("task #{ti}: frame {} does not appear after its predecessors on the wire (submission order violated)", describe(f)),
                    ));
                }
            }
        }
    }
    // SYN precedes every PSH of its stream
    let mut opened = std::collections::HashSet::new();
    for f in &kept {
        if f.cmd == rc::SYN {
            opened.insert(f.sid);
        }
        if f.cmd == rc::PSH {
            ensure!(
                opened.contains(&f.sid),
                "C11.syn",
                "a data frame of stream {} ({} bytes) precedes the stream's SYN on the wire",
                f.sid,
                f.data.len()
            );
        }
    }
    Ok(kept)
}

pub fn tasks_strategy() -> BoxedStrategy<Vec<TaskPlan>> {
    let len = weighted_sizes(vec![(4, 1..=60), (2, 61..=3000), (1, 65530..=65540)]);
    let op = prop_oneof![4 => len.clone().prop_map(TOp::Frame), 2 => len.prop_map(TOp::Send), 1 => Just(TOp::Heart)];
    let task = (proptest::bool::weighted(0.85), proptest::collection::vec(op, 1..5), 0u8..4).prop_map(|(opens, ops, start_yields)| TaskPlan { opens, ops, start_yields });
    proptest::collection::vec(task, 2..=5).boxed()
}

pub fn yields_strategy() -> BoxedStrategy<Vec<u8>> {
    prop_oneof![
        1 => Just(Vec::new()),
        6 => proptest::collection::vec(prop_oneof![3 => Just(0u8), 2 => Just(1u8), 1 => Just(2u8), 1 => Just(3u8)], 1..80),
    ]
    .boxed()
}

impl Family for WritersFam {
    type Case = WritersCase;
    fn name(&self) -> &'static str {
        "writers"
    }
    fn strategy(&self, _tier: Tier) -> BoxedStrategy<WritersCase> {
        let scheme_sel = prop_oneof![3 => Just(SchemeSel::Default), 2 => Just(SchemeSel::Stop0)];
        let cap = prop_oneof![Just(16usize), Just(64), Just(1024), Just(1usize << 20)];
        let stall = proptest::option::weighted(0.3, (prop_oneof![Just(0u16), 1u16..600], prop_oneof![Just(1u8), Just(9), Just(11), Just(31), Just(61)]));
        let monitor = proptest::option::weighted(0.3, prop_oneof![Just(1u8), Just(30)]);
        (scheme_sel, tasks_strategy(), cap, yields_strategy(), any::<u64>(), stall, monitor)
            .prop_map(|(scheme, tasks, capacity, yields, draw_seed, stall, monitor)| WritersCase {
                scheme,
                tasks,
                // a stall only bites when the writers cannot get rid of their bytes
                c2s: PipeParams { capacity: if stall.is_some() { capacity.min(64) } else { capacity }, ..Default::default() },
                yields,
                draw_seed,
                stall,
                monitor,
                open_barrier: false,
            })
            .boxed()
    }
    fn fixed_cases(&self, _tier: Tier) -> Vec<WritersCase> {
        // two real-caller tasks, one pre-emption at each of the first 12 visited hook points
        let mut v = Vec::new();
        for k in 0..14usize {
            for scheme in [SchemeSel::Default, SchemeSel::Stop0] {
                let mut yields = vec![0u8; k];
                yields.push(1);
                v.push(WritersCase {
                    scheme,
                    tasks: vec![
                        TaskPlan { opens: true, ops: vec![TOp::Frame(7), TOp::Frame(20)], start_yields: 0 },
                        TaskPlan { opens: true, ops: vec![TOp::Frame(9), TOp::Send(5)], start_yields: 0 },
                    ],
                    c2s: PipeParams::default(),
                    yields,
                    draw_seed: k as u64,
                    stall: None,
                    monitor: if k % 3 == 2 { Some(1) } else { None },
                    open_barrier: false,
                });
            }
        }
        // a crowd on a brand-new session: 20, 70 and 150 callers have all opened their stream before the
        // first of them writes its destination
        for n in [20usize, 70, 150] {
            for scheme in [SchemeSel::Default, SchemeSel::Stop0] {
                v.push(WritersCase {
                    scheme,
                    tasks: (0..n).map(|i| TaskPlan { opens: true, ops: vec![TOp::Frame(7 + i % 5)], start_yields: 0 }).collect(),
                    c2s: PipeParams::default(),
                    yields: vec![],
                    draw_seed: n as u64,
                    stall: None,
                    monitor: None,
                    open_barrier: true,
                });
            }
        }
        v
    }
    fn run(&self, case: &WritersCase, _cx: &CaseCtx) -> CaseResult {
        let mut out = Outcome::new();
        let run = run_concurrent(case)?;
        check_wire(&run)?;
        let preempt = run.sched.yields_taken > 0;
        out.nt(preempt && case.tasks.len() >= 2);
        out.class_if(preempt, "forced-preemption");
        out.class_if(run.sched.points_with_yield.iter().any(|p| *p == "write_frame:after_buffer"), "yield@write_frame:after_buffer");
        out.class_if(run.sched.points_with_yield.iter().any(|p| p.starts_with("write_with_padding")), "yield@write_with_padding");
        out.class_if(run.sched.points_with_yield.iter().any(|p| *p == "open_stream:before_syn"), "yield@open_stream:before_syn");
        out.class_if(run.sched.points_with_yield.iter().any(|p| *p == "process_stream_data:before_write"), "yield@process_stream_data");
        out.class_if(case.c2s.capacity <= 64, "transport-pending");
        out.class_if(case.stall.is_some_and(|s| s.1 >= 11), "transport-stalled>10s");
        out.class_if(case.monitor.is_some(), "keep-alive-monitor-running");
        out.class_if(case.open_barrier && case.tasks.len() >= 70, "crowd-of->=70-openers-before-the-first-flush");
        out.class_if(case.tasks.iter().any(|t| t.ops.iter().any(|o| matches!(o, TOp::Send(_)))), "send_data");
        Ok(out)
    }
}

// ------------------------------------------------------------------------------------------
// family `fresh_burst` (Lab-S): simultaneous first requests on a real client with an empty pool,
// on a multi-threaded runtime, with runtime threads stalled at generated trace events

use crate::lab_sock::refpeer::{Behaviour, RefServer};
use crate::lab_sock::{real_client, run_real, socks5_connect, start_socks5, Dest, PASSWORD};

#[derive(Clone, Debug, Serialize, Deserialize)]
pub struct FreshBurstCase {
    /// simultaneous requests per round
    pub n: u8,
    pub rounds: u8,
    /// runtime threads are stalled at this many of 1024 client-side trace events ...
    pub stall_rate: u16,
    /// ... for up to this many microseconds
    pub stall_max_us: u16,
    pub seed: u64,
}

pub struct FreshBurstFam;

impl Family for FreshBurstFam {
    type Case = FreshBurstCase;
    fn name(&self) -> &'static str {
        "fresh_burst"
    }
    fn strategy(&self, _tier: Tier) -> BoxedStrategy<FreshBurstCase> {
        (2u8..10, 1u8..3, prop_oneof![1 => Just(0u16), 2 => Just(64u16), 2 => Just(256u16), 1 => Just(1024u16)], prop_oneof![Just(200u16), Just(2000), Just(10_000)], any::<u64>())
            .prop_map(|(n, rounds, stall_rate, stall_max_us, seed)| FreshBurstCase { n, rounds, stall_rate, stall_max_us, seed })
            .boxed()
    }
    fn case_budget_s(&self) -> u64 {
        180
    }
    fn run(&self, case: &FreshBurstCase, _cx: &CaseCtx) -> CaseResult {
        let mut out = Outcome::new();
        let c = case.clone();
        let r: Result<usize, Fail> = run_real(async move {
            use tokio::io::{AsyncReadExt, AsyncWriteExt};
            let case = c;
            let beh = Behaviour { synack: true, echo: true, heartbeat: true, server_settings: true, ..Default::default() };
            let srv = RefServer::start(PASSWORD, beh).await?;
            let quiet = anytls_rs::client::SessionPoolConfig { check_interval: tokio::time::Duration::from_secs(3600), idle_timeout: tokio::time::Duration::from_secs(7200), min_idle_sessions: 1 };
            let client = real_client(srv.addr, anytls_rs::padding::DEFAULT_PADDING_SCHEME, quiet)?;
            let socks = start_socks5(client.clone()).await?;
            crate::stall::configure(case.stall_rate as u32, case.stall_max_us as u32, case.seed);
            let mut res: Result<(), Fail> = Ok(());
            'rounds: for round in 0..case.rounds {
                let mut hs = Vec::new();
                for i in 0..case.n {
                    hs.push(tokio::spawn(async move {
                        let mut s = match socks5_connect(socks, &Dest::Name(format!("burst{round}-{i}.test"), 80)).await {
                            Ok(s) => s,
                            Err(e) => return Err(format!("reply {:?}", e)),
                        };
                        let msg = format!("hello-{round}-{i}");
                        s.write_all(msg.as_bytes()).await.map_err(|e| e.to_string())?;
                        let mut b = vec![0u8; msg.len()];
                        match tokio::time::timeout(tokio::time::Duration::from_secs(40), s.read_exact(&mut b)).await {
                            Ok(Ok(_)) if b == msg.as_bytes() => Ok(()),
                            _ => Err("no echo through the tunnel".to_string()),
                        }
                    }));
                }
                for (i, h) in hs.into_iter().enumerate() {
                    match h.await {
                        Ok(Ok(())) => {}
                        Ok(Err(e)) => {
                            res = Err(Fail::plain("C11.first", format!("request {i} of {} simultaneous first requests (round {round}) on a fresh client failed although the server accepts every stream: {e}", case.n)));
                            break 'rounds;
                        }
                        Err(e) => {
                            res = Err(Fail::plain("C11.first", format!("request task: {e}")));
                            break 'rounds;
                        }
                    }
                }
            }
            crate::stall::configure(0, 0, 0);
            res?;
            // every session's wire, as the reference server decoded it
            let conns = srv.conns.lock().unwrap().clone();
            for (ci, c) in conns.iter().enumerate() {
                let log = c.lock().unwrap();
                if !log.auth_ok {
                    continue;
                }
                let frames: Vec<&RFrame> = log.frames.iter().filter(|f| f.cmd != rc::WASTE).collect();
                ensure!(!frames.is_empty(), "C11.settings", "session {ci}: nothing was sent");
                ensure!(
                    frames[0].cmd == rc::SETTINGS,
                    "C11.settings",
                    "session {ci} of a burst of {} simultaneous first requests: the first frame is {} instead of the settings frame (wire order: {:?})",
                    case.n,
                    describe(frames[0]),
                    frames.iter().take(8).map(|f| describe(f)).collect::<Vec<_>>()
                );
                ensure!(frames.iter().filter(|f| f.cmd == rc::SETTINGS).count() == 1, "C11.contig", "session {ci}: settings frame duplicated");
                let mut opened = std::collections::HashSet::new();
                for f in &frames {
                    if f.cmd == rc::SYN {
                        opened.insert(f.sid);
                    }
                    if f.cmd == rc::PSH {
                        ensure!(opened.contains(&f.sid), "C11.syn", "session {ci}: a data frame of stream {} precedes the stream's SYN on the wire", f.sid);
                    }
                }
            }
            Ok(conns.len())
        });
        let sessions = r?;
        out.nt(case.n >= 2);
        out.class_if(case.stall_rate > 0, "runtime-threads-stalled-at-trace-events");
        out.class_if(sessions < case.n as usize * case.rounds as usize, "requests-shared-a-brand-new-session");
        Ok(out)
    }
}
