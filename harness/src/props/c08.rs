//! C08 — end of stream reaches the other side, after all the data.
//!
//! Lab-M family `fin`: a scripted reference peer sends, per stream, k data frames and then FIN
//! back-to-back (FIN is processed while data is still queued), to a real session in either role.

use crate::engine::*;
use crate::ensure;
use crate::lab_mem::pipe::PipeParams;
use crate::lab_mem::*;
use crate::props::c01;
use crate::reference::codec::{self as rc, RFrame};
use anytls_rs::session::Stream;
use bytes::Bytes;
use proptest::prelude::*;
use serde::{Deserialize, Serialize};
use std::sync::Arc;
use tokio::time::Duration;

pub fn property() -> Property {
    Property {
        id: "C08",
        level: "exploration",
        rule: "family `fin` (Lab-M): 1-3 streams on a real session (client or server role) against a scripted reference peer; per stream k data frames (sizes 0 .. 65535) followed by FIN written back-to-back in one transport write with generated fragmentation, readers that start before or only after the FIN was processed and read with buffers of 1 .. 64 KiB, data written the other way before and after the FIN, sibling streams that keep being used. Oracles: P1 the reader obtains exactly the bytes sent and then end-of-stream; P2 never end-of-stream before all earlier bytes; P3 the reverse direction and the siblings still deliver after the FIN; P4 once the stream has ended the session's tables no longer hold it. Non-trivial = data still queued when the FIN is processed (late reader or >= 2 frames), or reverse-direction traffic after the FIN. Distinct = distinct serialized case. Family `srv_fin` (Lab-S, server side): a reference client over TLS opens a stream to a recording target through the real server and, unlike the real client, sends FIN (or closes its session); orders: target sends `down`, half-closes and keeps reading, then the client sends `up` and finishes / client first against an open target / target sends and closes; amounts 0..3 MB, data frames of 1..65535 bytes. Armed: every byte before the end arrives (both directions), the target then sees end-of-stream and never a failed read once both sides have finished; the missing FIN towards the client and the missing shutdown towards a still-open target fall under the listed finding. In four of ten client-first srv_fin cases the reference client does not wait for the SYNACK: open, destination, data and FIN (or the end of its session) arrive in one piece and the end is processed while the server is still dialling. In the eof family an application that half-closes after sending `up` bytes meets a target that replies with `down` bytes once it has received everything: the reply, travelling after the application's direction has ended, must arrive in full (P3). A further srv_fin order: the client sends `up` and FIN, does not read for 0.3 / 1.5 s and then reads on; the target, once it has everything, replies with `down` bytes (16 MiB when `down` >= 300000, so that the reply backs up inside the server) and closes: every byte of the reply arrives, and before any FIN for the stream. The srv_fin family also puts a quiet period in the middle of a transfer - between the two halves of the client's upload (nothing flows in either direction meanwhile) or between the two halves of the target's reply: 31 s in three fixed cases, 4 / 11 s (thorough: also 31 / 61 s) in one generated case in twenty; what is sent after the silence still arrives, before the end. Where the reference client ends by tearing its whole session down, the bytes that reach the target must be a prefix of what was sent (bytes still inside the server when a session dies are C09's subject); a stream ended by FIN is judged byte for byte.",
        assumptions: vec![
            "reference codec; tokio paused clock / current-thread scheduler; harness pipe",
            "H4 verif_table_sizes for the state-released check",
        ],
        families: vec![(Box::new(FinFam), 15_000, 160_000), (Box::new(crate::props::e2e::EofFam), 48, 600), (Box::new(crate::props::e2e::SrvFinFam), 120, 2_000)],
    }
}

#[derive(Clone, Debug, Serialize, Deserialize)]
pub struct FinStream {
    pub chunks: Vec<usize>,
    pub fin: bool,
    pub late_reader: bool,
    pub buf: usize,
    /// bytes the session side writes on this stream before / after the peer's FIN
    pub back_before: usize,
    pub back_after: usize,
    pub use_send_data: bool,
}

#[derive(Clone, Debug, Serialize, Deserialize)]
pub struct FinCase {
    pub server_role: bool,
    pub streams: Vec<FinStream>,
    pub to_session: PipeParams,
    /// after all FINs: one more data frame per still-open sibling
    pub sibling_tail: usize,
}

pub struct FinFam;

async fn read_all(st: Arc<Stream>, buf: usize) -> (Vec<u8>, bool, Option<String>) {
    let reader = st.reader().clone();
    let mut out = Vec::new();
    let mut b = vec![0u8; buf.max(1)];
    loop {
        let mut g = reader.lock().await;
        match within(Duration::from_secs(30), g.read(&mut b)).await {
            None => return (out, false, None),
            Some(Ok(0)) => return (out, true, None),
            Some(Ok(n)) => out.extend_from_slice(&b[..n]),
            Some(Err(e)) => return (out, false, Some(e.to_string())),
        }
    }
}

impl Family for FinFam {
    type Case = FinCase;
    fn name(&self) -> &'static str {
        "fin"
    }
    fn strategy(&self, _tier: Tier) -> BoxedStrategy<FinCase> {
        let chunk = weighted_sizes(vec![(1, 0..=0), (5, 1..=100), (2, 101..=9000), (1, 65535..=65535)]);
        let st = (
            proptest::collection::vec(chunk, 0..5),
            proptest::bool::weighted(0.8),
            any::<bool>(),
            prop_oneof![Just(1usize), Just(3), Just(100), Just(8192), Just(65536)],
            prop_oneof![Just(0usize), Just(20), Just(3000)],
            prop_oneof![Just(0usize), Just(20), Just(3000)],
            any::<bool>(),
        )
            .prop_map(|(chunks, fin, late_reader, buf, back_before, back_after, use_send_data)| FinStream { chunks, fin, late_reader, buf, back_before, back_after, use_send_data });
        (any::<bool>(), proptest::collection::vec(st, 1..=3), c01::pipe_params(), prop_oneof![Just(0usize), Just(50)])
            .prop_map(|(server_role, streams, to_session, sibling_tail)| FinCase { server_role, streams, to_session, sibling_tail })
            .boxed()
    }
    fn run(&self, case: &FinCase, _cx: &CaseCtx) -> CaseResult {
        let mut out = Outcome::new();
        let c = case.clone();
        let total: usize = case.streams.iter().map(|s| s.chunks.iter().sum::<usize>() + 64).sum();
        let res: Result<(), Fail> = run_virtual(async move {
            let case = c;
            let p = c01::bound_work(&case.to_session, total);
            let (c2s, s2c) = if case.server_role { (p, PipeParams::default()) } else { (PipeParams::default(), p) };
            let mut l = link(c2s, s2c);
            let out_h = if case.server_role { l.s2c.clone() } else { l.c2s.clone() };
            let pad = padding("stop=0");
            let sess;
            let mut peer;
            let mut rx = None;
            if case.server_role {
                let (s, r, _t) = server_session(&mut l, pad);
                sess = s;
                rx = Some(r);
                peer = ScriptPeer::client_side(&mut l);
                let md5 = format!("{:x}", md5::compute(b"stop=0"));
                peer.send(&[RFrame::new(rc::SETTINGS, 0, format!("v=2\nclient=ref\npadding-md5={md5}").into_bytes())]).await.ok();
            } else {
                sess = client_session(&mut l, pad, None);
                within(WATCHDOG, sess.clone().start_client()).await;
                peer = ScriptPeer::server_side(&mut l);
            }
            // open the streams
            let mut streams: Vec<Arc<Stream>> = Vec::new();
            for i in 0..case.streams.len() {
                if case.server_role {
                    peer.send(&[RFrame::ctl(rc::SYN, i as u32 + 1)]).await.ok();
                    match within(WATCHDOG, rx.as_mut().unwrap().recv()).await.flatten() {
                        Some(st) => streams.push(st),
                        None => return Err(Fail::plain("C08.P1", "SYN did not surface a stream")),
                    }
                } else {
                    match within(WATCHDOG, sess.open_stream()).await {
                        Some(Ok((st, _))) => {
                            sess.disable_buffering();
                            streams.push(st);
                        }
                        _ => return Err(Fail::plain("C08.P1", "open_stream failed")),
                    }
                }
            }
            // reverse-direction data before the FIN
            let mut back_expected: Vec<Vec<u8>> = vec![Vec::new(); streams.len()];
            for (i, sp) in case.streams.iter().enumerate() {
                if sp.back_before > 0 {
                    let d = keyed(i as u32, 5, 0, sp.back_before);
                    back_expected[i].extend_from_slice(&d);
                    if sp.use_send_data {
                        ensure!(streams[i].send_data(Bytes::from(d)).is_ok(), "C08.P3", "send_data failed before the FIN");
                    } else {
                        let r = within(WATCHDOG, sess.write_data_frame(streams[i].id(), Bytes::from(d))).await;
                        ensure!(matches!(r, Some(Ok(()))), "C08.P3", "write_data_frame failed before the FIN");
                    }
                }
            }
            // early readers
            let mut readers: Vec<Option<tokio::task::JoinHandle<(Vec<u8>, bool, Option<String>)>>> = Vec::new();
            for (i, sp) in case.streams.iter().enumerate() {
                if !sp.late_reader {
                    readers.push(Some(tokio::spawn(read_all(streams[i].clone(), sp.buf))));
                } else {
                    readers.push(None);
                }
            }
            // the peer writes, per stream, data + FIN back-to-back in one write
            let mut expected: Vec<Vec<u8>> = vec![Vec::new(); streams.len()];
            let mut burst: Vec<RFrame> = Vec::new();
            for (i, sp) in case.streams.iter().enumerate() {
                let id = streams[i].id();
                for n in &sp.chunks {
                    let d = keyed(i as u32, 4, expected[i].len() as u64, *n);
                    expected[i].extend_from_slice(&d);
                    burst.push(RFrame::new(rc::PSH, id, d));
                }
                if sp.fin {
                    burst.push(RFrame::ctl(rc::FIN, id));
                }
            }
            ensure!(peer.send(&burst).await.is_ok(), "C08.P1", "the session stopped reading while the peer was sending");
            // let the session process everything (FIN included) before late readers start
            settle(Duration::from_secs(1)).await;
            // sibling tail: streams without FIN get one more frame after the others' FINs
            if case.sibling_tail > 0 {
                let mut tail = Vec::new();
                for (i, sp) in case.streams.iter().enumerate() {
                    if !sp.fin {
                        let d = keyed(i as u32, 4, expected[i].len() as u64, case.sibling_tail);
                        expected[i].extend_from_slice(&d);
                        tail.push(RFrame::new(rc::PSH, streams[i].id(), d));
                    }
                }
                if !tail.is_empty() {
                    ensure!(peer.send(&tail).await.is_ok(), "C08.P3", "the session stopped reading after a FIN");
                }
            }
            for (i, sp) in case.streams.iter().enumerate() {
                if sp.late_reader {
                    readers[i] = Some(tokio::spawn(read_all(streams[i].clone(), sp.buf)));
                }
            }
            // reverse-direction data after the FIN
            for (i, sp) in case.streams.iter().enumerate() {
                if sp.back_after > 0 {
                    let d = keyed(i as u32, 5, back_expected[i].len() as u64, sp.back_after);
                    back_expected[i].extend_from_slice(&d);
                    if sp.use_send_data {
                        ensure!(streams[i].send_data(Bytes::from(d)).is_ok(), "C08.P3", "send_data failed after the peer's FIN (the other direction must keep working)");
                    } else {
                        let r = within(WATCHDOG, sess.write_data_frame(streams[i].id(), Bytes::from(d))).await;
                        ensure!(matches!(r, Some(Ok(()))), "C08.P3", "write_data_frame failed after the peer's FIN (the other direction must keep working)");
                    }
                }
            }
            settle(Duration::from_secs(1)).await;
            // judge the readers
            for (i, sp) in case.streams.iter().enumerate() {
                let (data, eof, err) = match within(WATCHDOG, readers[i].take().unwrap()).await {
                    Some(Ok(x)) => x,
                    _ => return Err(Fail::plain("C08.P1", "reader task did not finish")),
                };
                let tag = format!("stream {} ({} frames{}, reader {}, buffer {})", streams[i].id(), sp.chunks.len(), if sp.fin { " + FIN" } else { "" }, if sp.late_reader { "late" } else { "early" }, sp.buf);
                ensure!(err.is_none(), "C08.P2", "{tag}: read error {:?}", err);
                let n = data.len().min(expected[i].len());
                ensure!(data[..n] == expected[i][..n], "C08.P2", "{tag}: bytes differ from what was sent");
                if eof {
                    ensure!(
                        data.len() == expected[i].len(),
                        "C08.P2",
                        "{tag}: end-of-stream after {} of {} bytes - data sent before the FIN was lost",
                        data.len(),
                        expected[i].len()
                    );
                    ensure!(sp.fin, "C08.P2", "{tag}: end-of-stream without a FIN");
                } else {
                    ensure!(data.len() == expected[i].len(), "C08.P1", "{tag}: only {} of {} bytes arrived", data.len(), expected[i].len());
                    ensure!(!sp.fin, "C08.P1", "{tag}: all {} bytes arrived but end-of-stream was never observed after the FIN", data.len());
                }
            }
            // reverse direction as seen by the peer
            let frames = peer.drain(Duration::from_secs(1)).await;
            let _ = frames;
            for (i, want) in back_expected.iter().enumerate() {
                let got: Vec<u8> = peer.seen.iter().filter(|f| f.cmd == rc::PSH && f.sid == streams[i].id()).flat_map(|f| f.data.iter().copied()).collect();
                ensure!(
                    got == *want,
                    "C08.P3",
                    "stream {}: the peer received {} of the {} bytes written in the reverse direction (FIN sent by peer: {})",
                    streams[i].id(),
                    got.len(),
                    want.len(),
                    case.streams[i].fin
                );
            }
            ensure!(!sess.is_closed(), "C08.P3", "the session closed itself");
            // P4: ended streams are gone from the tables, open ones still there
            let (a, b) = sess.verif_table_sizes().await;
            let open_now = case.streams.iter().filter(|s| !s.fin).count();
            ensure!(
                a == open_now && b == open_now,
                "C08.P4",
                "after {} FINs the session's tables hold {} / {} entries, {} streams are still open",
                case.streams.len() - open_now,
                a,
                b,
                open_now
            );
            let _ = out_h;
            Ok(())
        });
        res?;
        let queued = case.streams.iter().any(|s| s.fin && (s.late_reader || s.chunks.len() >= 2) && s.chunks.iter().sum::<usize>() > 0);
        let back = case.streams.iter().any(|s| s.fin && s.back_after > 0);
        out.nt(queued || back);
        out.class_if(queued, "fin-with-data-queued");
        out.class_if(back, "reverse-after-fin");
        out.class_if(case.streams.len() >= 2, "siblings");
        out.class_if(case.server_role, "server-role");
        out.class_if(!case.server_role, "client-role");
        Ok(out)
    }
}
