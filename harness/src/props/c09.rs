//! C09 — a dying session releases everyone waiting on it, promptly (fault enumeration).
//!
//! A canonical scenario (real session in either role against a scripted reference peer, with
//! blocked readers, pending opens and queued writers) is first run fault-free to learn how many
//! bytes flow in each direction; the fault positions are then enumerated over those byte ranges.

use crate::engine::*;
use crate::lab_mem::pipe::{ErrKind, Fault, PipeParams};
use crate::lab_mem::*;
use crate::reference::codec::{self as rc, RFrame};
use anytls_rs::protocol::{Command, Frame};
use anytls_rs::session::{Session, SessionHeartbeatConfig, Stream};
use bytes::Bytes;
use proptest::prelude::*;
use serde::{Deserialize, Serialize};
use std::sync::atomic::{AtomicBool, AtomicUsize, Ordering};
use std::sync::Arc;
use tokio::time::Duration;

pub fn property() -> Property {
    Property {
        id: "C09",
        level: "fault_enumeration",
        rule: "scenario = role (client/server) x streams (0-3) x pending opens x blocked readers x 0-3 concurrent writer tasks (queued on a small-capacity transport) x life point (fresh session with only the settings buffered .. mid-transfer); cause = peer EOF, read error (ConnectionReset / UnexpectedEof / Other), write error at byte k, flush error, Alert frame (with/without text), liveness timeout, owner close(), each optionally with a transport whose shutdown never completes; position = byte offset in the affected direction, enumerated from the recorded fault-free run of the same scenario (fixed cases walk every offset of a canonical scenario for every cause; random cases sample scenario x cause x position x H1 schedule). Oracles under a one-hour virtual watchdog: closed flag, shutdown seen on the transport, blocked readers return, pending opens resolve with an error, later opens/writes fail, in-flight calls return, the session's tasks end. Non-trivial = >= 1 blocked reader or pending open or queued writer at the fault. Distinct = distinct serialized case. Read faults also come as TimedOut / Interrupted / WouldBlock errors, write and flush faults as broken pipe, connection reset, timed out, interrupted, would block or other. For the liveness cause half of the generated cases, and fixed cases with 0 / 2 / 3 writers over 32- and 256-byte pipes, make the silent peer stop reading as well: data writes and the keep-alive request back up in the transport, and the session must still become closed, shut its transport down and release every reader, opener and writer.",
        assumptions: vec![
            "virtual watchdog: not completed after one virtual hour = blocks forever (documented bounds: 1 s shutdown, 30 s open)",
            "scripted peer speaks through the reference codec; harness pipe models EOF/reset/broken pipe/hanging shutdown",
            "server session wired as handle_connection wires it",
        ],
        families: vec![(Box::new(FaultFam), 15_000, 600_000)],
    }
}

#[derive(Clone, Debug, Serialize, Deserialize, PartialEq)]
pub enum Cause {
    PeerEof,
    ReadErr(ErrKind),
    WriteErr,
    FlushErr,
    Alert(Option<String>),
    OwnerClose,
    Liveness,
}

#[derive(Clone, Debug, Serialize, Deserialize)]
pub struct FaultCase {
    pub client_role: bool,
    pub n_streams: u8,
    /// client role: how many of the streams never get a SYNACK
    pub n_pending: u8,
    pub blocked_readers: bool,
    pub writers: u8,
    pub wchunk: usize,
    pub out_cap: usize,
    pub cause: Cause,
    /// position, mapped monotonically onto the byte range of the affected direction
    pub pos: u16,
    pub shutdown_hangs: bool,
    pub yields: Vec<u8>,
    /// life point: inject before the session's first flush (fresh session)
    pub fresh: bool,
    /// the error kind of a write / flush fault: 0 broken pipe, 1 connection reset, 2 timed out,
    /// 3 interrupted, 4 would block, 5 other
    #[serde(default)]
    pub write_kind: u8,
    /// cause Liveness only: the silent peer stops reading as well, so that the session's writes - the
    /// keep-alive request among them - back up in the transport instead of being taken
    #[serde(default)]
    pub peer_stops_reading: bool,
}

pub struct FaultFam;

struct Probe {
    reader_done: Vec<Arc<AtomicBool>>,
    reader_started: usize,
    writer_done: Arc<AtomicUsize>,
    writers: usize,
    pending_rx: Vec<tokio::sync::oneshot::Receiver<anytls_rs::Result<()>>>,
    streams: Vec<Arc<Stream>>,
}

struct Totals {
    incoming: usize,
    outgoing: usize,
    in_boundaries: Vec<usize>,
}

fn peer_script(case: &FaultCase, ids: &[u32]) -> Vec<RFrame> {
    // what the peer sends towards the session under test during the transfer phase
    let mut v = Vec::new();
    for (i, id) in ids.iter().enumerate() {
        v.push(RFrame::new(rc::PSH, *id, keyed(*id, 1, 0, 30 + i * 7)));
    }
    v.push(RFrame::ctl(if case.client_role { rc::HEART_RESP } else { rc::HEART_REQ }, 0));
    for id in ids {
        v.push(RFrame::new(rc::PSH, *id, keyed(*id, 1, 1000, 200)));
    }
    v.push(RFrame::new(rc::WASTE, 0, vec![0u8; 11]));
    v
}

/// Run the scenario. `fault`: None = fault-free recording run.
async fn scenario(case: &FaultCase, fault_at: Option<usize>) -> Result<(Totals, Option<Verdict>), Fail> {
    let out_params = PipeParams { capacity: case.out_cap.max(16), ..Default::default() };
    let (c2s, s2c) = if case.client_role { (out_params, PipeParams::default()) } else { (PipeParams::default(), out_params) };
    let mut l = link(c2s, s2c);
    let pad = default_padding();
    let (out_h, in_h) = if case.client_role { (l.c2s.clone(), l.s2c.clone()) } else { (l.s2c.clone(), l.c2s.clone()) };
    if case.shutdown_hangs && fault_at.is_some() {
        out_h.arm(Fault::ShutdownHangs);
    }
    out_h.set_write_err_kind(match case.write_kind % 6 {
        0 => ErrKind::BrokenPipe,
        1 => ErrKind::ConnectionReset,
        2 => ErrKind::TimedOut,
        3 => ErrKind::Interrupted,
        4 => ErrKind::WouldBlock,
        _ => ErrKind::Other,
    });
    let hb = if case.cause == Cause::Liveness { Some(SessionHeartbeatConfig { interval: Duration::from_secs(2), timeout: Duration::from_secs(5) }) } else { None };

    // arm byte-offset faults up front: the session runs into them wherever they are
    if let Some(x) = fault_at {
        match &case.cause {
            Cause::PeerEof => in_h.arm(Fault::ReadEof { at: x }),
            Cause::ReadErr(k) => in_h.arm(Fault::ReadErr { at: x, kind: k.clone() }),
            Cause::WriteErr => out_h.arm(Fault::WriteErr { at: x }),
            Cause::FlushErr => out_h.arm(Fault::FlushErr { k: x }),
            _ => {}
        }
    }

    let sess: Arc<Session>;
    let peer;
    let mut first: Vec<u8> = Vec::new();
    let mut server_rx = None;
    let mut harness_refs = 1usize;
    if case.client_role {
        sess = client_session(&mut l, pad, hb);
        peer = ScriptPeer::server_side(&mut l);
        match within(WATCHDOG, sess.clone().start_client()).await {
            Some(Ok(())) => {}
            Some(Err(_)) => {}
            None => return Err(Fail::new("C09.concurrent", "C09.concurrent:start_client", "start_client did not return")),
        }
    } else {
        let (s, rx, _tasks) = server_session(&mut l, pad);
        sess = s;
        server_rx = Some(rx);
        peer = ScriptPeer::client_side(&mut l);
        let md5 = format!("{:x}", md5::compute(anytls_rs::padding::DEFAULT_PADDING_SCHEME.as_bytes()));
        first = rc::encode(&RFrame::new(rc::SETTINGS, 0, format!("v=2\nclient=ref\npadding-md5={md5}").into_bytes()));
        harness_refs = 1;
    }

    // the peer drains what the session sends from the very beginning (slowly, so that writers
    // queue up behind a small transport capacity)
    let ScriptPeer { mut r, w, .. } = peer;
    // A sane peer closes its side once it has seen the session's end-of-file: the drain task
    // drops the peer's writer then. (With a transport whose shutdown never completes the peer
    // never learns about the close; see C09.tasks below.)
    let w = PeerWriter(Arc::new(tokio::sync::Mutex::new(Some(w))));
    let w_for_drain = w.clone();
    let drain = tokio::spawn(async move {
        use tokio::io::AsyncReadExt;
        let mut buf = vec![0u8; 512];
        loop {
            match r.read(&mut buf).await {
                Ok(0) | Err(_) => break,
                Ok(_) => tokio::time::sleep(Duration::from_millis(1)).await,
            }
        }
        w_for_drain.close().await;
        r
    });

    if !first.is_empty() {
        let _ = w.write_all(&first).await;
    }

    let mut probe = Probe {
        reader_done: Vec::new(),
        reader_started: 0,
        writer_done: Arc::new(AtomicUsize::new(0)),
        writers: 0,
        pending_rx: Vec::new(),
        streams: Vec::new(),
    };
    let owner_close_step = if case.cause == Cause::OwnerClose { Some(idx(case.pos, 4)) } else { None };
    let mut owner_closed = false;
    if owner_close_step == Some(0) && fault_at.is_some() {
        let _ = within(WATCHDOG, sess.close()).await;
        owner_closed = true;
    }

    // ---- phase 1: streams
    let mut ids: Vec<u32> = Vec::new();
    if !case.fresh {
        if case.client_role {
            for i in 0..case.n_streams {
                match within(WATCHDOG, sess.open_stream()).await {
                    Some(Ok((st, rx))) => {
                        sess.disable_buffering();
                        let _ = within(WATCHDOG, sess.write_data_frame(st.id(), Bytes::from(keyed(st.id(), 0, 0, 10)))).await;
                        ids.push(st.id());
                        probe.streams.push(st.clone());
                        if i < case.n_streams.saturating_sub(case.n_pending) {
                            let _ = w.write_all(&rc::encode(&RFrame::ctl(rc::SYNACK, st.id()))).await;
                            drop(rx);
                        } else {
                            probe.pending_rx.push(rx);
                        }
                    }
                    Some(Err(_)) => break,
                    None => return Err(Fail::new("C09.concurrent", "C09.concurrent:open_stream", "open_stream did not return within one virtual hour")),
                }
            }
        } else {
            for i in 0..case.n_streams {
                let id = i as u32 + 1;
                if w.write_all(&rc::encode_all(&[RFrame::ctl(rc::SYN, id), RFrame::new(rc::PSH, id, keyed(id, 0, 0, 10))])).await.is_err() {
                    break;
                }
                match within(Duration::from_secs(5), server_rx.as_mut().unwrap().recv()).await.flatten() {
                    Some(st) => {
                        ids.push(st.id());
                        probe.streams.push(st);
                    }
                    None => break,
                }
            }
        }
        settle(Duration::from_millis(50)).await;
    }
    if owner_close_step == Some(1) && fault_at.is_some() {
        let _ = within(WATCHDOG, sess.close()).await;
        owner_closed = true;
    }

    // ---- phase 2: blocked readers, queued writers, peer data
    if case.blocked_readers {
        for st in &probe.streams {
            let done = Arc::new(AtomicBool::new(false));
            probe.reader_done.push(done.clone());
            probe.reader_started += 1;
            let st = st.clone();
            tokio::spawn(async move {
                let reader = st.reader().clone();
                let mut buf = vec![0u8; 4096];
                loop {
                    let mut g = reader.lock().await;
                    match g.read(&mut buf).await {
                        Ok(0) | Err(_) => break,
                        Ok(_) => {}
                    }
                }
                done.store(true, Ordering::SeqCst);
            });
        }
    }
    let stop_writers = Arc::new(AtomicBool::new(false));
    if !probe.streams.is_empty() || case.client_role {
        for w in 0..case.writers {
            probe.writers += 1;
            let sess = sess.clone();
            let done = probe.writer_done.clone();
            let sid = probe.streams.get(w as usize % probe.streams.len().max(1)).map(|s| s.id()).unwrap_or(1);
            let chunk = case.wchunk;
            let stop = stop_writers.clone();
            tokio::spawn(async move {
                for k in 0..6u64 {
                    if stop.load(Ordering::Relaxed) {
                        break;
                    }
                    let r = if k % 3 == 2 {
                        sess.write_control_frame(Frame::control(Command::HeartRequest, 7)).await
                    } else {
                        sess.write_data_frame(sid, Bytes::from(keyed(sid, 0, 100 + k * 1000, chunk))).await
                    };
                    if r.is_err() {
                        break;
                    }
                    tokio::task::yield_now().await;
                }
                done.fetch_add(1, Ordering::SeqCst);
            });
        }
    }
    // the peer drains what the session sends (slowly, so that writers queue) and sends its script
    let script = peer_script(case, &ids);
    let mut in_boundaries = Vec::new();
    {
        let mut off = in_h.accepted();
        for f in &script {
            in_boundaries.push(off);
            off += f.wire_len();
        }
        in_boundaries.push(off);
    }
    let alert_at = if let Cause::Alert(_) = &case.cause { Some(idx(case.pos, script.len() + 1)) } else { None };
    let silent = case.cause == Cause::Liveness && fault_at.is_some();
    if silent && case.peer_stops_reading {
        out_h.freeze_reader(true);
    }
    {
        for (i, f) in script.iter().enumerate() {
            if alert_at == Some(i) && fault_at.is_some() {
                let text = if let Cause::Alert(t) = &case.cause { t.clone() } else { None };
                let _ = w.write_all(&rc::encode(&RFrame::new(rc::ALERT, 0, text.unwrap_or_default().into_bytes()))).await;
            }
            if silent {
                break;
            }
            if w.write_all(&rc::encode(f)).await.is_err() {
                break;
            }
            tokio::time::sleep(Duration::from_millis(2)).await;
            if owner_close_step == Some(2) && fault_at.is_some() && !owner_closed && i == script.len() / 2 {
                let _ = within(WATCHDOG, sess.close()).await;
                owner_closed = true;
            }
        }
        if alert_at == Some(script.len()) && fault_at.is_some() {
            let text = if let Cause::Alert(t) = &case.cause { t.clone() } else { None };
            let _ = w.write_all(&rc::encode(&RFrame::new(rc::ALERT, 0, text.unwrap_or_default().into_bytes()))).await;
        }
    }
    if owner_close_step == Some(3) && fault_at.is_some() && !owner_closed {
        settle(Duration::from_millis(100)).await;
        let _ = within(WATCHDOG, sess.close()).await;
    }

    if fault_at.is_none() {
        // recording run: let everything finish
        settle(Duration::from_secs(1)).await;
        stop_writers.store(true, Ordering::Relaxed);
        settle(Duration::from_secs(1)).await;
        let t = Totals { incoming: in_h.accepted(), outgoing: out_h.accepted(), in_boundaries };
        w.close().await;
        drain.abort();
        return Ok((t, None));
    }

    // ---- the oracles
    let nt = (probe.reader_started > 0) || !probe.pending_rx.is_empty() || probe.writers > 0;
    // did the fault fire? (a fault beyond the traffic never triggers; then there is nothing to judge)
    let closed = within(WATCHDOG, async {
        loop {
            if sess.is_closed() {
                return;
            }
            tokio::time::sleep(Duration::from_millis(100)).await;
        }
    })
    .await
    .is_some();
    let fired = match &case.cause {
        Cause::PeerEof | Cause::ReadErr(_) => in_h.faults_hit() > 0,
        Cause::WriteErr | Cause::FlushErr => out_h.faults_hit() > 0,
        _ => true,
    };
    if !fired {
        w.close().await;
        drain.abort();
        return Ok((Totals { incoming: 0, outgoing: 0, in_boundaries }, Some(Verdict { nontrivial: false, fired: false })));
    }
    let what = format!("{:?} at {:?}", case.cause, fault_at);
    if !closed {
        return Err(Fail::new("C09.flag", format!("C09.flag:{}", cause_tag(&case.cause)), format!("after {what} the session never became visibly closed (one virtual hour)")));
    }
    // everything else must follow promptly; give it the documented bounds and then some
    settle(Duration::from_secs(60)).await;
    if out_h.shutdowns() == 0 {
        return Err(Fail::new("C09.shutdown", format!("C09.shutdown:{}", cause_tag(&case.cause)), format!("after {what} the session's transport was never shut down")));
    }
    for (i, d) in probe.reader_done.iter().enumerate() {
        if !d.load(Ordering::SeqCst) {
            return Err(Fail::new(
                "C09.readers",
                format!("C09.readers:{}", cause_tag(&case.cause)),
                format!("after {what} the reader of stream {} is still blocked (neither end-of-stream nor error)", probe.streams[i].id()),
            ));
        }
    }
    for (i, rx) in probe.pending_rx.iter_mut().enumerate() {
        match rx.try_recv() {
            Ok(Err(_)) => {}
            Err(tokio::sync::oneshot::error::TryRecvError::Closed) => {}
            Ok(Ok(())) => {
                return Err(Fail::new("C09.opens", format!("C09.opens:ok:{}", cause_tag(&case.cause)), format!("after {what} pending open #{i} resolved with success although no SYNACK was ever sent")));
            }
            Err(tokio::sync::oneshot::error::TryRecvError::Empty) => {
                return Err(Fail::new("C09.opens", format!("C09.opens:pending:{}", cause_tag(&case.cause)), format!("after {what} pending open #{i} never resolved")));
            }
        }
    }
    if probe.writer_done.load(Ordering::SeqCst) != probe.writers {
        return Err(Fail::new(
            "C09.concurrent",
            format!("C09.concurrent:{}", cause_tag(&case.cause)),
            format!("after {what} {} of {} writer tasks are still stuck inside a write call", probe.writers - probe.writer_done.load(Ordering::SeqCst), probe.writers),
        ));
    }
    // later calls
    match within(WATCHDOG, sess.open_stream()).await {
        None => return Err(Fail::new("C09.late", "C09.late:open_stream:hang", format!("after {what} a later open_stream blocks forever"))),
        Some(Ok(_)) => return Err(Fail::new("C09.late", "C09.late:open_stream:ok", format!("after {what} a later open_stream succeeded on the dead session"))),
        Some(Err(_)) => {}
    }
    match within(WATCHDOG, sess.write_data_frame(1, Bytes::from_static(b"late"))).await {
        None => return Err(Fail::new("C09.late", "C09.late:write_data_frame:hang", format!("after {what} a later write_data_frame blocks forever"))),
        Some(Ok(())) => return Err(Fail::new("C09.late", "C09.late:write_data_frame:ok", format!("after {what} a later write_data_frame reported success on the dead session"))),
        Some(Err(_)) => {}
    }
    match within(WATCHDOG, sess.write_control_frame(Frame::control(Command::HeartRequest, 0))).await {
        None => return Err(Fail::new("C09.late", "C09.late:write_control_frame:hang", format!("after {what} a later write_control_frame blocks forever"))),
        Some(Ok(())) => return Err(Fail::new("C09.late", "C09.late:write_control_frame:ok", format!("after {what} a later write_control_frame reported success on the dead session"))),
        Some(Err(_)) => {}
    }
    // the session's own tasks must be gone: only the harness' references remain
    settle(Duration::from_secs(5)).await;
    let refs = Arc::strong_count(&sess);
    // Only judged when the peer could learn about the close and closed its side in response:
    // the receive task legitimately sits in a transport read until the peer's EOF arrives.
    if refs > harness_refs && !case.shutdown_hangs && !(silent && case.peer_stops_reading) {
        return Err(Fail::new(
            "C09.tasks",
            format!("C09.tasks:{}", cause_tag(&case.cause)),
            format!("after {what} {} task(s) of the session are still alive (they hold references to it)", refs - harness_refs),
        ));
    }
    w.close().await;
    drain.abort();
    let _ = (&server_rx, &probe.streams);
    Ok((Totals { incoming: 0, outgoing: 0, in_boundaries }, Some(Verdict { nontrivial: nt, fired: true })))
}

#[derive(Clone)]
struct PeerWriter(Arc<tokio::sync::Mutex<Option<crate::lab_mem::pipe::PipeWriter>>>);

impl PeerWriter {
    async fn write_all(&self, bytes: &[u8]) -> std::io::Result<()> {
        use tokio::io::AsyncWriteExt;
        let mut g = self.0.lock().await;
        match g.as_mut() {
            Some(w) => w.write_all(bytes).await,
            None => Err(std::io::Error::new(std::io::ErrorKind::BrokenPipe, "peer already closed")),
        }
    }
    async fn close(&self) {
        self.0.lock().await.take();
    }
}

struct Verdict {
    nontrivial: bool,
    fired: bool,
}

fn cause_tag(c: &Cause) -> &'static str {
    match c {
        Cause::PeerEof => "peer-eof",
        Cause::ReadErr(_) => "read-err",
        Cause::WriteErr => "write-err",
        Cause::FlushErr => "flush-err",
        Cause::Alert(_) => "alert",
        Cause::OwnerClose => "owner-close",
        Cause::Liveness => "liveness",
    }
}

pub fn run_fault_case(case: &FaultCase) -> CaseResult {
    let mut out = Outcome::new();
    // 1. recording run (fault-free) of the same scenario and schedule
    let c1 = case.clone();
    let totals = run_virtual(async move {
        install_draw(7);
        install_schedule(c1.yields.clone());
        scenario(&c1, None).await.map(|(t, _)| t)
    })?;
    // 2. position
    let at = match &case.cause {
        Cause::PeerEof | Cause::ReadErr(_) => idx(case.pos, totals.incoming + 1),
        Cause::WriteErr => idx(case.pos, totals.outgoing + 1),
        Cause::FlushErr => idx(case.pos, 12),
        _ => 0,
    };
    let c2 = case.clone();
    let (t2, verdict) = run_virtual(async move {
        install_draw(7);
        install_schedule(c2.yields.clone());
        scenario(&c2, Some(at)).await
    })?;
    let v = verdict.unwrap();
    out.nt(v.nontrivial && v.fired);
    out.class_if(!v.fired, "fault-not-reached");
    out.class(cause_tag(&case.cause));
    out.class_if(case.shutdown_hangs, "shutdown-hangs");
    out.class_if(case.client_role, "client-role");
    out.class_if(!case.client_role, "server-role");
    out.class_if(case.fresh, "fresh-session");
    out.class_if(case.writers > 0 && case.out_cap <= 256, "queued-writers");
    out.class_if(case.cause == Cause::Liveness && case.peer_stops_reading, "silent-peer-that-does-not-read-either");
    out.class_if(case.n_pending > 0 && case.client_role && !case.fresh, "pending-opens");
    let inside = matches!(case.cause, Cause::PeerEof | Cause::ReadErr(_)) && !t2.in_boundaries.contains(&at);
    out.class_if(inside, "inside-frame");
    Ok(out)
}

fn cause_strategy() -> BoxedStrategy<Cause> {
    prop_oneof![
        3 => Just(Cause::PeerEof),
        1 => Just(Cause::ReadErr(ErrKind::ConnectionReset)),
        1 => Just(Cause::ReadErr(ErrKind::UnexpectedEof)),
        1 => Just(Cause::ReadErr(ErrKind::Other)),
        1 => prop_oneof![Just(ErrKind::TimedOut), Just(ErrKind::Interrupted), Just(ErrKind::WouldBlock)].prop_map(Cause::ReadErr),
        3 => Just(Cause::WriteErr),
        1 => Just(Cause::FlushErr),
        1 => Just(Cause::Alert(None)),
        1 => Just(Cause::Alert(Some("going away".to_string()))),
        2 => Just(Cause::OwnerClose),
        1 => Just(Cause::Liveness),
    ]
    .boxed()
}

impl Family for FaultFam {
    type Case = FaultCase;
    fn name(&self) -> &'static str {
        "fault"
    }
    fn strategy(&self, _tier: Tier) -> BoxedStrategy<FaultCase> {
        (
            (any::<bool>(), 0u8..4, 0u8..3, proptest::bool::weighted(0.8), 0u8..4),
            (prop_oneof![Just(10usize), Just(300), Just(5000)], prop_oneof![Just(32usize), Just(256), Just(1usize << 20)]),
            cause_strategy(),
            any::<u16>(),
            proptest::bool::weighted(0.25),
            prop_oneof![2 => Just(Vec::new()), 1 => proptest::collection::vec(0u8..3, 0..40)],
            (proptest::bool::weighted(0.1), prop_oneof![3 => Just(0u8), 1 => 1u8..6], any::<bool>()),
        )
            .prop_map(|((client_role, n_streams, n_pending, blocked_readers, writers), (wchunk, out_cap), cause, pos, shutdown_hangs, yields, (fresh, write_kind, peer_stops_reading))| {
                let cause = if cause == Cause::Liveness && !client_role { Cause::PeerEof } else { cause };
                let peer_stops_reading = peer_stops_reading && cause == Cause::Liveness;
                FaultCase { client_role, n_streams, n_pending, blocked_readers, writers, wchunk, out_cap, cause, pos, shutdown_hangs, yields, fresh, write_kind, peer_stops_reading }
            })
            .boxed()
    }
    fn fixed_cases(&self, tier: Tier) -> Vec<FaultCase> {
        // walk positions of a canonical scenario for every cause and both roles
        let mut v = Vec::new();
        let steps: u32 = if tier == Tier::Thorough { 400 } else { 60 };
        for client_role in [true, false] {
            for cause in [
                Cause::PeerEof,
                Cause::ReadErr(ErrKind::ConnectionReset),
                Cause::ReadErr(ErrKind::UnexpectedEof),
                Cause::ReadErr(ErrKind::Other),
                Cause::ReadErr(ErrKind::TimedOut),
                Cause::ReadErr(ErrKind::Interrupted),
                Cause::WriteErr,
                Cause::FlushErr,
                Cause::Alert(None),
                Cause::Alert(Some("bye".into())),
                Cause::OwnerClose,
                Cause::Liveness,
            ] {
                if cause == Cause::Liveness && !client_role {
                    continue;
                }
                let n = match cause {
                    Cause::Alert(_) => 9,
                    Cause::OwnerClose => 4,
                    Cause::Liveness => 1,
                    Cause::FlushErr => 12,
                    _ => steps,
                };
                for s in 0..n {
                    let pos = ((s as u64 * 65536) / n as u64 + 1).min(65535) as u16;
                    for hangs in [false, true] {
                        if hangs && s % 5 != 0 {
                            continue;
                        }
                        v.push(FaultCase {
                            client_role,
                            n_streams: 2,
                            n_pending: 1,
                            blocked_readers: true,
                            writers: 2,
                            wchunk: 300,
                            out_cap: 256,
                            cause: cause.clone(),
                            pos,
                            shutdown_hangs: hangs,
                            yields: vec![],
                            fresh: false,
                            write_kind: (s % 6) as u8,
                            peer_stops_reading: false,
                        });
                        if cause == Cause::Liveness {
                            // the silent peer does not read either: writers and the keep-alive back up
                            for (writers, out_cap) in [(2u8, 32usize), (0, 32), (3, 256)] {
                                v.push(FaultCase { client_role, n_streams: 2, n_pending: 1, blocked_readers: true, writers, wchunk: 300, out_cap, cause: cause.clone(), pos, shutdown_hangs: hangs, yields: vec![], fresh: false, write_kind: 0, peer_stops_reading: true });
                            }
                        }
                    }
                }
            }
        }
        v
    }
    fn run(&self, case: &FaultCase, _cx: &CaseCtx) -> CaseResult {
        run_fault_case(case)
    }
}
