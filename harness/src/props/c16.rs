//! C16 — the SOCKS5 front-end follows the protocol for every client byte stream.
//!
//! Lab-S family `socks`: generated greetings and requests, delivered in generated TCP segments,
//! against the real start_socks5_server -> real Client -> TLS -> real Server -> loopback targets.

use crate::engine::*;
use crate::ensure;
use crate::lab_sock::world::*;
use crate::lab_sock::*;
use proptest::prelude::*;
use serde::{Deserialize, Serialize};
use tokio::io::{AsyncReadExt, AsyncWriteExt};
use tokio::net::TcpStream;
use tokio::time::Duration;

pub fn property() -> Property {
    Property {
        id: "C16",
        level: "exploration",
        rule: "Lab-S family `socks`: greeting (version 5/4/0/255/random, declared method count 0/1/2/255 with matching list, lists with and without 0x00) and request (version, command 1/2/3/0/0x80/random, any RSV, ATYP 1/3/4/0/2/5/255, IPv4 / IPv6 / domain `localhost` destinations of loopback targets, refusing ports) generated and delivered whole, byte-at-a-time or in random segments with pauses (TCP_NODELAY), the request optionally glued to the greeting and payload glued to the request, with a healthy neighbour connection alongside. Reference model of RFC 1928: method selection 05 00 <=> version 5 and 0x00 offered (otherwise 05 FF or close, never 05 00); a tunnel exactly to the requested destination and only for command 1; REP=0 only with an accepted target connection, non-zero REP or close otherwise; malformed input ends that connection only (neighbour keeps echoing, a fresh valid connection succeeds). Non-trivial = request delivered in >= 2 segments, or command != 1, or ATYP != 1, or the refusal path. Distinct = distinct serialized case. Family `front` (shared with C07): greeting and request pipelined in generated segmentations for any IPv4/IPv6 address, names of every length 1..255 and any port through the real SOCKS5 listener and the real client to the reference server, which records the destination it is asked to dial: method reply, success reply and the destination on the wire are compared with the request. In the front family four cases in nine put a fault into the AnyTLS leg (the reference server refuses every stream with an ordinary or an unusual reason text, drops the connection when the SYN arrives, or does not know the client's password): every request must then be answered with a SOCKS5 failure code (never 00) / a non-200 status. One front case in thirteen delays every reply of the reference server by 350 / 700 ms (with or without a refusal): the reply to the application is still 'succeeded' exactly when the server accepted the stream. One socks case in forty pauses for 3.4 s at the first cut of the request (cut delivery), wherever that falls - also in the middle of a field. Two fixed socks cases first make the listener turn away 140 / 300 other connections (wrong version, no acceptable method, BIND, a refusing destination, a bare TCP probe; eight at a time) and then run a well-formed conversation, judged as always.",
        assumptions: vec![
            "kernel loopback; negatives (no connection was made) are evaluated only after the front-end replied or closed",
            "one shared world (server, client, front-ends, targets) per worker thread; cases observe deltas",
            "`localhost` resolves to 127.0.0.1 through the system resolver",
        ],
        families: vec![(Box::new(SocksFam), 2_500, 40_000), (Box::new(crate::props::front::FrontFam), 200, 2_000)],
    }
}

#[derive(Clone, Debug, Serialize, Deserialize, PartialEq)]
pub enum DestSel {
    /// echo target on the worker's first / second address (IPv4)
    EchoA,
    EchoB,
    /// ::1 target
    EchoV6,
    /// "localhost" by name
    Localhost,
    /// a closed port (connection refused)
    Refusing,
}

#[derive(Clone, Debug, Serialize, Deserialize)]
pub struct SocksCase {
    pub g_ver: u8,
    /// declared method count; the list is padded/truncated to match so the stream stays parseable
    pub g_methods: Vec<u8>,
    pub r_ver: u8,
    pub cmd: u8,
    pub rsv: u8,
    /// ATYP override: None = the one matching the destination
    pub atyp: Option<u8>,
    /// domain length override for ATYP 3 (0 = malformed)
    pub zero_len_domain: bool,
    pub dest: DestSel,
    /// 0 = whole, 1 = byte at a time, else random cuts from `cuts`
    pub delivery: u8,
    pub cuts: Vec<u16>,
    pub glue_request: bool,
    pub payload: Vec<u8>,
    pub neighbour: bool,
    /// Some(k): another client sits on the listener with only the first k bytes of its greeting
    /// sent (a slow or stalled peer) for the whole conversation
    #[serde(default)]
    pub staller: Option<u8>,
    /// with cut delivery: the client pauses for 3.4 s at its first cut (a slow client, a lossy link) -
    /// wherever that falls, also in the middle of a field
    #[serde(default)]
    pub long_pause: bool,
    /// n > 0: before the conversation the listener has to turn away n other connections (wrong
    /// version, no acceptable method, BIND, a destination that refuses, a bare TCP probe - eight at a
    /// time): what the listener has seen before must not change how it serves the next client
    #[serde(default)]
    pub crowd_before: u16,
}

pub struct SocksFam;

async fn read_some(s: &mut TcpStream, want: usize, ms: u64) -> (Vec<u8>, bool) {
    // read up to `want` bytes; (bytes, closed)
    let mut out = Vec::new();
    let mut buf = [0u8; 512];
    let deadline = tokio::time::Instant::now() + Duration::from_millis(ms);
    while out.len() < want {
        let room = (want - out.len()).min(buf.len());
        match tokio::time::timeout_at(deadline, s.read(&mut buf[..room])).await {
            Ok(Ok(0)) | Ok(Err(_)) => return (out, true),
            Ok(Ok(n)) => out.extend_from_slice(&buf[..n]),
            Err(_) => break,
        }
    }
    (out, false)
}

async fn send_segments(s: &mut TcpStream, bytes: &[u8], delivery: u8, cuts: &[u16]) -> bool {
    send_segments_paused(s, bytes, delivery, cuts, false).await
}

async fn send_segments_paused(s: &mut TcpStream, bytes: &[u8], delivery: u8, cuts: &[u16], long_pause: bool) -> bool {
    let mut pts: Vec<usize> = match delivery {
        0 => vec![],
        1 => (1..bytes.len()).collect(),
        _ => cuts.iter().map(|c| idx(*c, bytes.len() + 1)).collect(),
    };
    pts.sort_unstable();
    pts.dedup();
    pts.retain(|p| *p > 0 && *p < bytes.len());
    pts.push(bytes.len());
    let mut from = 0usize;
    let n = pts.len();
    for (i, p) in pts.into_iter().enumerate() {
        if s.write_all(&bytes[from..p]).await.is_err() {
            return false;
        }
        from = p;
        let long = long_pause && delivery >= 2 && i == 0 && n > 1;
        tokio::time::sleep(Duration::from_millis(if long { 3400 } else if delivery == 1 { 1 } else { 3 })).await;
    }
    true
}

impl Family for SocksFam {
    type Case = SocksCase;
    fn name(&self) -> &'static str {
        "socks"
    }
    fn strategy(&self, _tier: Tier) -> BoxedStrategy<SocksCase> {
        let g_ver = prop_oneof![20 => Just(5u8), 1 => Just(4u8), 1 => Just(0u8), 1 => Just(255u8), 1 => any::<u8>()];
        let methods = prop_oneof![
            10 => Just(vec![0u8]),
            4 => Just(vec![2u8, 0]),
            1 => Just(vec![0u8, 1, 2]),
            1 => Just(vec![2u8]),
            1 => Just(vec![1u8, 2]),
            1 => Just(Vec::new()),
            1 => Just(vec![0x80u8; 255]),
            1 => proptest::collection::vec(1u8..=255, 1..6),
        ];
        let cmd = prop_oneof![12 => Just(1u8), 2 => Just(2u8), 2 => Just(3u8), 1 => Just(0u8), 1 => Just(0x80u8), 1 => any::<u8>()];
        let atyp = prop_oneof![14 => Just(None), 1 => Just(Some(0u8)), 1 => Just(Some(2u8)), 1 => Just(Some(5u8)), 1 => Just(Some(255u8))];
        let dest = prop_oneof![3 => Just(DestSel::EchoA), 2 => Just(DestSel::EchoB), 2 => Just(DestSel::EchoV6), 2 => Just(DestSel::Localhost), 2 => Just(DestSel::Refusing)];
        (
            (g_ver, methods, prop_oneof![9 => Just(5u8), 1 => any::<u8>()], cmd, prop_oneof![3 => Just(0u8), 1 => any::<u8>()]),
            (atyp, proptest::bool::weighted(0.05), dest),
            (0u8..4, proptest::collection::vec(any::<u16>(), 1..5), any::<bool>()),
            prop_oneof![Just(Vec::new()), proptest::collection::vec(any::<u8>(), 1..200)],
            (proptest::bool::weighted(0.3), proptest::option::weighted(0.3, 0u8..3), proptest::bool::weighted(0.025)),
        )
            .prop_map(|((g_ver, g_methods, r_ver, cmd, rsv), (atyp, zero_len_domain, dest), (delivery, cuts, glue_request), payload, (neighbour, staller, long_pause))| SocksCase {
                g_ver,
                g_methods,
                r_ver,
                cmd,
                rsv,
                atyp,
                zero_len_domain,
                dest,
                delivery,
                cuts,
                glue_request,
                payload,
                neighbour,
                staller,
                long_pause,
                crowd_before: 0,
            })
            .boxed()
    }
    fn fixed_cases(&self, _tier: Tier) -> Vec<SocksCase> {
        let good = |dest: DestSel, neighbour: bool, crowd_before: u16| SocksCase {
            g_ver: 5,
            g_methods: vec![0],
            r_ver: 5,
            cmd: 1,
            rsv: 0,
            atyp: None,
            zero_len_domain: false,
            dest,
            delivery: 0,
            cuts: vec![],
            glue_request: false,
            payload: b"after-the-crowd".to_vec(),
            neighbour,
            staller: None,
            long_pause: false,
            crowd_before,
        };
        vec![good(DestSel::EchoA, false, 140), good(DestSel::EchoB, true, 300)]
    }
    fn case_budget_s(&self) -> u64 {
        150
    }
    fn run(&self, case: &SocksCase, _cx: &CaseCtx) -> CaseResult {
        let mut out = Outcome::new();
        let r = with_world(|w| {
            let case = case.clone();
            w.rt.block_on(async move {
                // destination
                let (dest, target): (Dest, Option<&TcpTarget>) = match case.dest {
                    DestSel::EchoA => (Dest::of(w.echo_a.addr), Some(&w.echo_a)),
                    DestSel::EchoB => (Dest::of(w.echo_b.addr), Some(&w.echo_b)),
                    DestSel::EchoV6 => match &w.echo_v6 {
                        Some(t) => (Dest::of(t.addr), Some(t)),
                        None => (Dest::of(w.echo_a.addr), Some(&w.echo_a)),
                    },
                    DestSel::Localhost => (Dest::Name("localhost".into(), w.echo_local.addr.port()), Some(&w.echo_local)),
                    DestSel::Refusing => (Dest::of(w.closed_port), None),
                };
                let all_targets: Vec<&TcpTarget> = [Some(&w.echo_a), Some(&w.echo_b), Some(&w.echo_local), w.echo_v6.as_ref()].into_iter().flatten().collect();
                let before: Vec<usize> = all_targets.iter().map(|t| t.n_conns()).collect();

                if case.crowd_before > 0 {
                    let socks = w.socks;
                    let closed = Dest::of(w.closed_port).encode();
                    let mut k = 0u16;
                    while k < case.crowd_before {
                        let mut hs = Vec::new();
                        for j in k..(k + 8).min(case.crowd_before) {
                            let closed = closed.clone();
                            hs.push(tokio::spawn(async move {
                                let Ok(mut x) = TcpStream::connect(socks).await else { return };
                                let _ = x.set_nodelay(true);
                                match j % 5 {
                                    0 => {
                                        let _ = x.write_all(&[4, 1, 0]).await;
                                        let _ = read_some(&mut x, 8, 2000).await;
                                    }
                                    1 => {
                                        let _ = x.write_all(&[5, 1, 0]).await;
                                        let _ = read_some(&mut x, 2, 2000).await;
                                        let _ = x.write_all(&[5, 2, 0, 1, 127, 0, 0, 1, 0, 80]).await;
                                        let _ = read_some(&mut x, 10, 2000).await;
                                    }
                                    2 => {
                                        let _ = x.write_all(&[5, 1, 2]).await;
                                        let _ = read_some(&mut x, 2, 2000).await;
                                    }
                                    3 => {
                                        let _ = x.write_all(&[5, 1, 0]).await;
                                        let _ = read_some(&mut x, 2, 2000).await;
                                        let mut req = vec![5u8, 1, 0];
                                        req.extend_from_slice(&closed);
                                        let _ = x.write_all(&req).await;
                                        let _ = read_some(&mut x, 10, 5000).await;
                                    }
                                    _ => {}
                                }
                            }));
                        }
                        for h in hs {
                            let _ = h.await;
                        }
                        k += 8;
                    }
                    tokio::time::sleep(Duration::from_millis(100)).await;
                }
                // a stalled peer: connected, greeting only partly sent, kept open until the end
                let mut stalled = None;
                if let Some(k) = case.staller {
                    let mut x = TcpStream::connect(w.socks).await.map_err(|e| infra(format!("connect to the SOCKS5 listener: {e}")))?;
                    let _ = x.set_nodelay(true);
                    let g = [5u8, 2, 2];
                    let _ = x.write_all(&g[..(k as usize).min(3)]).await;
                    tokio::time::sleep(Duration::from_millis(20)).await;
                    stalled = Some(x);
                }
                // neighbour first
                let mut neigh = None;
                if case.neighbour {
                    match tokio::time::timeout(Duration::from_secs(8), socks5_connect(w.socks, &Dest::of(w.echo_b.addr))).await {
                        Ok(Ok(s)) => neigh = Some(s),
                        Ok(Err(e)) => return Err(Fail::plain("C16.local", format!("a valid neighbour connection could not be established (reply {:?})", e))),
                        Err(_) => return Err(Fail::plain("C16.local", format!("a valid neighbour connection gets no service within 8 s{}", if case.staller.is_some() { " while another client sits on the listener with an unfinished greeting" } else { "" }))),
                    }
                }
                if case.neighbour {
                    // the target's accept loop registers the connection a moment after the kernel
                    // completed it: wait for the record before taking the baseline
                    let bi = all_targets.iter().position(|x| std::ptr::eq(*x, &w.echo_b)).unwrap();
                    wait_until(3000, || w.echo_b.n_conns() > before[bi]).await;
                }
                let before2: Vec<usize> = all_targets.iter().map(|t| t.n_conns()).collect();

                // bytes
                let mut greeting = vec![case.g_ver, case.g_methods.len() as u8];
                greeting.extend_from_slice(&case.g_methods);
                let mut enc = dest.encode();
                if let Some(a) = case.atyp {
                    enc[0] = a;
                }
                if case.zero_len_domain && enc[0] == 3 {
                    enc = vec![3, 0, 0, 80];
                }
                let mut request = vec![case.r_ver, case.cmd, case.rsv];
                request.extend_from_slice(&enc);

                // model
                let greet_ok = case.g_ver == 5 && !case.g_methods.is_empty() && case.g_methods.contains(&0);
                let real_atyp = enc[0];
                let req_wellformed = case.r_ver == 5 && [1u8, 3, 4].contains(&real_atyp) && !(case.zero_len_domain && real_atyp == 3) && case.atyp.is_none();
                let tunnel_expected = greet_ok && req_wellformed && case.cmd == 1;

                let mut s = TcpStream::connect(w.socks).await.map_err(|e| infra(format!("connect to the SOCKS5 listener: {e}")))?;
                let _ = s.set_nodelay(true);
                let mut wire = greeting.clone();
                let glue = case.glue_request && greet_ok;
                if glue {
                    wire.extend_from_slice(&request);
                    wire.extend_from_slice(&case.payload);
                }
                send_segments_paused(&mut s, &wire, case.delivery, &case.cuts, case.long_pause && case.glue_request).await;
                let (sel, closed) = read_some(&mut s, 2, 3000).await;
                let desc = format!("greeting {:02x?}.. request {:02x?}", &greeting[..greeting.len().min(6)], &request[..request.len().min(10)]);
                if !greet_ok {
                    ensure!(sel != [5, 0], "C16.method", "method 'no authentication' selected although it must be refused ({desc})");
                    ensure!(sel.is_empty() || sel == [5, 0xFF], "C16.method", "method selection reply {:02x?} is neither 05 FF nor a plain close ({desc})", sel);
                    // the connection must end (positive event), after which no tunnel may exist
                    let (_, closed2) = if closed { (Vec::new(), true) } else { read_some(&mut s, 1, 3000).await };
                    ensure!(closed || closed2, "C16.method", "after refusing the greeting the front-end keeps the connection open ({desc})");
                } else {
                    ensure!(sel == [5, 0], "C16.method", "version 5 greeting offering 'no authentication' was answered with {:02x?} (closed: {closed}) ({desc})", sel);
                    if !glue {
                        let mut rest = request.clone();
                        rest.extend_from_slice(&case.payload);
                        send_segments_paused(&mut s, &rest, case.delivery, &case.cuts, case.long_pause).await;
                    }
                    let (rep, rclosed) = read_some(&mut s, 10, 12_000).await;
                    let accepted_now = |t: &TcpTarget, i: usize| t.n_conns() > before2[i];
                    if tunnel_expected {
                        match target {
                            Some(t) => {
                                ensure!(rep.len() >= 2 && rep[0] == 5, "C16.reply", "no SOCKS5 reply to a valid CONNECT (got {:02x?}, closed {rclosed}) ({desc})", rep);
                                ensure!(rep[1] == 0, "C16.reply", "valid CONNECT to an accepting target answered with REP={} ({desc})", rep[1]);
                                let ti = all_targets.iter().position(|x| std::ptr::eq(*x, t)).unwrap();
                                let ok = wait_until(3000, || accepted_now(t, ti)).await;
                                ensure!(ok, "C16.reply", "REP=0 although the requested target has not accepted a connection ({desc})");
                                for (i, other) in all_targets.iter().enumerate() {
                                    if i != ti {
                                        ensure!(!accepted_now(other, i), "C16.addr", "a connection was made to {} instead of / in addition to the requested {:?}", other.addr, dest);
                                    }
                                }
                                // payload round trip through the tunnel
                                let mut probe = case.payload.clone();
                                let extra = b"ping-c16".to_vec();
                                s.write_all(&extra).await.map_err(|e| Fail::plain("C16.reply", format!("write into the tunnel failed: {e}")))?;
                                probe.extend_from_slice(&extra);
                                let mut got = if rep.len() > 10 { rep[10..].to_vec() } else { Vec::new() };
                                let (more, _) = read_some(&mut s, probe.len() - got.len().min(probe.len()), 10_000).await;
                                got.extend(more);
                                ensure!(got == probe, "C16.addr", "tunnel does not echo what was sent: sent {} bytes (incl. {} glued to the request), got {} back ({desc})", probe.len(), case.payload.len(), got.len());
                            }
                            None => {
                                ensure!(rep.len() < 2 || rep[1] != 0, "C16.reply", "REP=0 for a destination that refuses connections ({desc})");
                                ensure!(rep.len() >= 2 || rclosed, "C16.reply", "neither a failure reply nor a close for a refusing destination ({desc})");
                            }
                        }
                    } else {
                        ensure!(
                            rep.len() < 2 || rep[1] != 0,
                            "C16.connect",
                            "request with version {} command {} ATYP {} was answered 'succeeded' ({desc})",
                            case.r_ver,
                            case.cmd,
                            real_atyp
                        );
                        // positive event: a reply or a close; then: no tunnel anywhere
                        let (_, c2) = if rclosed || rep.len() >= 2 { (Vec::new(), true) } else { read_some(&mut s, 1, 5000).await };
                        ensure!(rclosed || rep.len() >= 2 || c2, "C16.connect", "neither a failure reply nor a close for an unsupported/malformed request ({desc})");
                        tokio::time::sleep(Duration::from_millis(30)).await;
                        for (i, t) in all_targets.iter().enumerate() {
                            ensure!(
                                !accepted_now(t, i),
                                "C16.connect",
                                "a tunnel was opened to {} for a request with version {} command {} ATYP {} ({desc})",
                                t.addr,
                                case.r_ver,
                                case.cmd,
                                real_atyp
                            );
                        }
                    }
                }
                drop(s);
                // C16.local
                if let Some(mut n) = neigh {
                    n.write_all(b"neighbour").await.map_err(|e| Fail::plain("C16.local", format!("neighbour connection broke: {e}")))?;
                    let (got, _) = read_some(&mut n, 9, 10_000).await;
                    ensure!(got == b"neighbour", "C16.local", "the neighbour connection no longer echoes after this conversation ({desc})");
                }
                let fresh = match tokio::time::timeout(Duration::from_secs(8), socks5_connect(w.socks, &Dest::of(w.echo_a.addr))).await {
                    Ok(r) => r,
                    Err(_) => return Err(Fail::plain("C16.local", format!("a fresh valid connection gets no service within 8 s{} ({desc})", if case.staller.is_some() { " while another client sits on the listener with an unfinished greeting" } else { "" }))),
                };
                match fresh {
                    Ok(mut f) => {
                        f.write_all(b"fresh").await.map_err(|e| Fail::plain("C16.local", format!("fresh connection broke: {e}")))?;
                        let (got, _) = read_some(&mut f, 5, 10_000).await;
                        ensure!(got == b"fresh", "C16.local", "a fresh valid connection does not work after this conversation ({desc})");
                    }
                    Err(e) => return Err(Fail::plain("C16.local", format!("a fresh valid CONNECT fails after this conversation (reply {:?}) ({desc})", e))),
                }
                let _ = before;
                drop(stalled);
                Ok((greet_ok, tunnel_expected))
            })
        });
        let (greet_ok, tunnel_expected) = match r {
            Ok(x) => x,
            Err(f) => {
                reset_world();
                return Err(f);
            }
        };
        let segmented = case.delivery != 0;
        out.nt(segmented || case.cmd != 1 || case.dest != DestSel::EchoA || !greet_ok);
        out.class_if(segmented, "segmented");
        out.class_if(case.cmd != 1, "cmd!=CONNECT");
        out.class_if(!greet_ok, "greeting-refused");
        out.class_if(case.dest == DestSel::Refusing && tunnel_expected, "refusing-target");
        out.class_if(matches!(case.dest, DestSel::EchoV6 | DestSel::Localhost), "atyp!=1");
        out.class_if(tunnel_expected, "tunnel");
        out.class_if(case.glue_request && greet_ok, "glued");
        out.class_if(case.staller.is_some(), "stalled-peer-alongside");
        out.class_if(case.long_pause && case.delivery >= 2, "3.4s-pause-at-a-cut");
        out.class_if(case.crowd_before >= 128, ">=128-connections-turned-away-before");
        Ok(out)
    }
}
