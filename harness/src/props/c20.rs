//! C20 — hostile or garbled input cannot crash or wedge the proxy.

use crate::engine::*;
use crate::gens::scheme::*;
use crate::lab_mem::pipe::PipeParams;
use crate::lab_mem::*;
use crate::reference::codec::{self as rc, RFrame};
use crate::{alloc_guard, ensure};
use anytls_rs::session::{Stream, StreamReader};
use bytes::Bytes;
use proptest::prelude::*;
use serde::{Deserialize, Serialize};
use std::sync::Arc;
use std::sync::atomic::{AtomicBool, Ordering};
use tokio::time::Duration;

pub fn property() -> Property {
    Property {
        id: "C20",
        level: "exploration",
        rule: "family `session_bytes` (Lab-M, mutational): a generated frame sequence for an established real session in either role - every command for every role, stream ids {0, 2, 3, 4, 0xFFFFFFFF}, payloads up to a few KiB, settings payloads (text, binary, huge values), pushed padding schemes (parsable with sizes up to 2^63-1, unparsable) - mutated by bit flips, truncation, duplication, reordering and length-field corruption, or raw random bytes; delivered in generated fragments; followed by normal use of a sibling stream opened beforehand and of the write path (so that a poisoned scheme is exercised). Monitors: panics in any task (process-wide hook), largest single allocation, virtual-time quiescence (a spinning task stops the virtual clock: real-time watchdog, confirmed by re-running the saved case in a child process), every call returns under the virtual watchdog; afterwards the session is either closed with its waiters released or the sibling still transfers its bytes exactly and the outgoing wire still parses. Family `parsers`: arbitrary and mutated bytes in arbitrary chunking into the private destination / UDP-over-TCP parsers (H5), differential with the reference where the input is valid. Family `http_head` (pure): well-formed requests and a table of hostile request lines / host values, mutated by overwrites, insertions of multi-byte and separator sequences at every position, truncation, or raw bytes, into the HTTP front-end's header-end finder and parse+rewrite functions (H6): no panic, no oversized allocation, header end = first CRLFCRLF (what becomes of a malformed request that is accepted is judged at the listener). Family `history` (Lab-M, shared with C02): stray, stale, duplicate and out-of-order SYN/PSH/FIN/SYNACK frames from a scripted peer against a real session in either role while the session opens streams of its own under forced pre-emptions (frames that cannot belong to the next stream stay in flight during open_stream) and sends on them: no call may hang, nothing may disturb a stream the frames were not addressed to. Family `socks` (Lab-S, shared with C16): generated and malformed greetings / requests in generated segmentations against the real SOCKS5 listener, with a neighbour connection, optionally another client that sits on the listener with 0-2 bytes of its greeting sent, and a fresh valid connection afterwards (others must be served within 8 s). Family `http_listener` (Lab-S): mutated and random header blocks against the real HTTP listener with a healthy neighbour and a fresh request afterwards. Non-trivial = input that differs from valid traffic and selects >= 2 distinct frame handlers (session_bytes), or is not rejected at its first byte (parsers/listener). Distinct = distinct serialized case. The libFuzzer targets in /verif/fuzz feed the same oracles from bytes in the thorough tier. Family `http_head` (pure): a well-formed generated request, one of 30 hostile request lines / host values, or raw bytes, mutated by up to 3 byte overwrites (separators, UTF-8 lead/continuation bytes, CR, LF, random), up to 3 insertions (multi-byte characters, CR/LF, NUL, ':', '[', ']', '://', '@', ...) and truncation, plus a multi-byte character inserted at every position of every hostile template; oracle: no panic, no oversized allocation, header end = first CRLFCRLF. In the http_listener family a header block without its CRLFCRLF terminator followed by the application's end-of-stream must make the listener let go of the connection within 10 s (C20.spin).",
        assumptions: vec![
            "tokio swallows panics of spawned tasks: they are counted by a process-wide hook on the worker's own thread (current-thread runtime)",
            "a peer may legitimately address the sibling stream or leave its byte stream inside an unfinished frame: the sibling oracle applies only when the hostile bytes end on a frame boundary and do not address the sibling",
            "server sessions in Lab-M have no dial handler attached (streams surface to the harness), so fuzzed destinations never reach a socket",
        ],
        families: vec![(Box::new(SessFam), 40_000, 2_000_000), (Box::new(ParseFam), 200_000, 4_000_000), (Box::new(HeadFam), 100_000, 3_000_000), (Box::new(HttpFam), 400, 6_000), (Box::new(ServerTunnelFam), 300, 6_000), (Box::new(crate::props::c16::SocksFam), 600, 10_000), (Box::new(HistoryShare), 4_000, 150_000)],
    }
}

#[derive(Clone, Debug, Serialize, Deserialize)]
pub enum Payload {
    Empty,
    Bytes(Vec<u8>),
    Fill(usize),
    Scheme(SchemeGen),
    Text(String),
}

impl Payload {
    fn bytes(&self) -> Vec<u8> {
        match self {
            Payload::Empty => Vec::new(),
            Payload::Bytes(b) => b.clone(),
            Payload::Fill(n) => keyed(77, 0, 0, *n),
            Payload::Scheme(s) => s.text().into_bytes(),
            Payload::Text(t) => t.clone().into_bytes(),
        }
    }
}

#[derive(Clone, Debug, Serialize, Deserialize)]
pub enum Mutation {
    BitFlip(u16, u8),
    Truncate(u16),
    Duplicate(u16, u16),
    SwapFrames(u8, u8),
    /// overwrite the length field of frame #i
    Length(u8, u16),
    InsertRandom(u16, Vec<u8>),
}

#[derive(Clone, Debug, Serialize, Deserialize)]
pub struct SessCase {
    pub server_role: bool,
    pub frames: Vec<(u8, u8, Payload)>,
    pub mutations: Vec<Mutation>,
    pub raw_tail: Vec<u8>,
    pub frag: PipeParams,
    /// the session's own padding scheme (client role)
    pub own_scheme: Option<SchemeGen>,
}

pub struct SessFam;

const IDS: [u32; 5] = [0, 2, 3, 4, 0xFFFF_FFFF];
const SIBLING_PEER_ID: u32 = 0x00A5_A5A5;

pub fn build_hostile(frames: &[(u8, u8, Payload)], mutations: &[Mutation], raw_tail: &[u8]) -> Vec<u8> {
    let mut fr: Vec<RFrame> = frames
        .iter()
        .map(|(cmd, id, p)| {
            let mut d = p.bytes();
            d.truncate(rc::MAX_PAYLOAD);
            RFrame::new(*cmd, IDS[*id as usize % IDS.len()], d)
        })
        .collect();
    for m in mutations {
        if let Mutation::SwapFrames(a, b) = m {
            if !fr.is_empty() {
                let (a, b) = (*a as usize % fr.len(), *b as usize % fr.len());
                fr.swap(a, b);
            }
        }
    }
    let mut starts = Vec::new();
    let mut bytes = Vec::new();
    for f in &fr {
        starts.push(bytes.len());
        rc::encode_into(f, &mut bytes);
    }
    for m in mutations {
        match m {
            Mutation::Length(i, v) => {
                if !starts.is_empty() {
                    let s = starts[*i as usize % starts.len()];
                    if s + 7 <= bytes.len() {
                        bytes[s + 5..s + 7].copy_from_slice(&v.to_be_bytes());
                    }
                }
            }
            Mutation::BitFlip(p, b) => {
                if !bytes.is_empty() {
                    let i = idx(*p, bytes.len());
                    bytes[i] ^= 1 << (b % 8);
                }
            }
            Mutation::Duplicate(p, n) => {
                if !bytes.is_empty() {
                    let i = idx(*p, bytes.len());
                    let n = (*n as usize % 64).min(bytes.len() - i);
                    let slice = bytes[i..i + n].to_vec();
                    let at = i + n;
                    bytes.splice(at..at, slice);
                }
            }
            Mutation::InsertRandom(p, r) => {
                let i = idx(*p, bytes.len() + 1);
                bytes.splice(i..i, r.iter().copied());
            }
            Mutation::Truncate(p) => {
                let i = idx(*p, bytes.len() + 1);
                bytes.truncate(i);
            }
            Mutation::SwapFrames(..) => {}
        }
    }
    bytes.extend_from_slice(raw_tail);
    bytes
}

/// C02's `history` family seen from C20: the scripted peer's stray, stale and duplicate frames are
/// hostile input, and a session that hangs in a call, closes itself or mixes up streams because of
/// them did not "continue correctly". Same generator and run; the failure is reported under C20's
/// own oracle id with C02's as its signature suffix.
pub struct HistoryShare;

impl Family for HistoryShare {
    type Case = crate::props::c02::HistoryCase;
    fn name(&self) -> &'static str {
        "history"
    }
    fn strategy(&self, tier: Tier) -> BoxedStrategy<Self::Case> {
        crate::props::c02::HistoryFam.strategy(tier)
    }
    fn fixed_cases(&self, tier: Tier) -> Vec<Self::Case> {
        crate::props::c02::HistoryFam.fixed_cases(tier)
    }
    fn case_budget_s(&self) -> u64 {
        crate::props::c02::HistoryFam.case_budget_s()
    }
    fn run(&self, case: &Self::Case, cx: &CaseCtx) -> CaseResult {
        crate::props::c02::HistoryFam.run(case, cx).map_err(|f| if f.oracle == "INFRA" { f } else { Fail::new("C20.continue", format!("C20.continue:{}", f.sig), f.detail) })
    }
}

/// The session-level oracle, shared with the fuzz targets.
pub fn check_session_bytes(server_role: bool, hostile: &[u8], frag: &PipeParams, own_scheme: Option<&str>) -> CaseResult {
    let mut out = Outcome::new();
    let hostile = hostile.to_vec();
    let frag = frag.clone();
    let own = own_scheme.map(|s| s.to_string());
    alloc_guard::reset();
    let (hframes, used) = rc::parse(&hostile);
    let aligned = used == hostile.len();
    let h2 = hostile.clone();
    let res: Result<(bool, bool), Fail> = run_virtual(async move {
        let hostile = h2;
        let p = crate::props::c01::bound_work(&frag, hostile.len());
        let (c2s, s2c) = if server_role { (p, PipeParams::default()) } else { (PipeParams::default(), p) };
        let mut l = link(c2s, s2c);
        let out_h = if server_role { l.s2c.clone() } else { l.c2s.clone() };
        let scheme_text = own.unwrap_or_else(|| anytls_rs::padding::DEFAULT_PADDING_SCHEME.to_string());
        let pad = padding(&scheme_text);
        let sess;
        let mut peer;
        let sibling: Arc<Stream>;
        let sib_id;
        if server_role {
            let (s, mut rx, _t) = server_session(&mut l, pad);
            sess = s;
            peer = ScriptPeer::client_side(&mut l);
            let md5 = format!("{:x}", md5::compute(scheme_text.as_bytes()));
            peer.send(&[RFrame::new(rc::SETTINGS, 0, format!("v=2\nclient=ref\npadding-md5={md5}").into_bytes()), RFrame::ctl(rc::SYN, SIBLING_PEER_ID)]).await.ok();
            sibling = match within(WATCHDOG, rx.recv()).await.flatten() {
                Some(s) => s,
                None => return Err(Fail::plain("C20.clean", "sibling stream did not surface")),
            };
            sib_id = SIBLING_PEER_ID;
            // keep the callback receiver alive and drained
            tokio::spawn(async move { while rx.recv().await.is_some() {} });
        } else {
            sess = client_session(&mut l, pad, None);
            within(WATCHDOG, sess.clone().start_client()).await;
            peer = ScriptPeer::server_side(&mut l);
            let (st, _rx) = match within(WATCHDOG, sess.open_stream()).await {
                Some(Ok(x)) => x,
                _ => return Err(Fail::plain("C20.clean", "sibling open failed")),
            };
            sess.disable_buffering();
            let _ = within(WATCHDOG, sess.write_data_frame(st.id(), Bytes::from_static(b"dest"))).await;
            sib_id = st.id();
            sibling = st;
        }
        // a blocked sibling reader
        let released = Arc::new(AtomicBool::new(false));
        let got: Arc<std::sync::Mutex<Vec<u8>>> = Default::default();
        {
            let (r2, g2, st) = (released.clone(), got.clone(), sibling.clone());
            tokio::spawn(async move {
                let reader = st.reader().clone();
                let mut b = vec![0u8; 4096];
                loop {
                    let mut g = reader.lock().await;
                    match g.read(&mut b).await {
                        Ok(0) | Err(_) => break,
                        Ok(n) => g2.lock().unwrap().extend_from_slice(&b[..n]),
                    }
                }
                r2.store(true, Ordering::SeqCst);
            });
        }
        settle(Duration::from_millis(10)).await;
        // the peer drains whatever the session answers (so that nothing blocks on a full pipe)
        let ScriptPeer { mut r, mut w, .. } = peer;
        let out_raw_before = out_h.raw_len();
        let drain = tokio::spawn(async move {
            use tokio::io::AsyncReadExt;
            let mut b = vec![0u8; 65536];
            loop {
                match r.read(&mut b).await {
                    Ok(0) | Err(_) => break,
                    Ok(_) => {}
                }
            }
        });
        // ---- the hostile bytes
        {
            use tokio::io::AsyncWriteExt;
            let _ = within(WATCHDOG, w.write_all(&hostile)).await;
        }
        // C20.spin: quiescence in virtual time (a spinning task never lets this sleep finish)
        settle(Duration::from_secs(2)).await;
        let addresses_sibling = rc::parse(&hostile).0.iter().any(|f| f.sid == sib_id);
        let closed = sess.is_closed();
        if closed {
            // C20.clean (closed branch): waiters released, later calls fail, nothing hangs
            settle(Duration::from_secs(3)).await;
            if !released.load(Ordering::SeqCst) {
                return Err(Fail::plain("C20.clean", "the session closed itself but the blocked sibling reader was not released"));
            }
            match within(WATCHDOG, sess.write_data_frame(sib_id, Bytes::from_static(b"late"))).await {
                None => return Err(Fail::plain("C20.wedge", "write on the closed session blocks forever")),
                Some(Ok(())) => return Err(Fail::plain("C20.clean", "write on the closed session reports success")),
                Some(Err(_)) => {}
            }
        } else {
            // C20.clean (alive branch): the write path still works and the wire still parses
            let data = keyed(sib_id, 9, 0, 3000);
            for chunk in data.chunks(1000) {
                match within(WATCHDOG, sess.write_data_frame(sib_id, Bytes::copy_from_slice(chunk))).await {
                    None => return Err(Fail::plain("C20.wedge", "a write on the still-open session blocks forever after the hostile input")),
                    Some(Err(e)) => {
                        if sess.is_closed() {
                            break;
                        }
                        return Err(Fail::plain("C20.clean", format!("a write on the still-open session fails after the hostile input: {e}")));
                    }
                    Some(Ok(())) => {}
                }
            }
            settle(Duration::from_millis(100)).await;
            if !sess.is_closed() {
                let raw = out_h.raw();
                let (frames, used) = rc::parse(&raw);
                ensure!(used == raw.len(), "C20.clean", "after the hostile input the session's outgoing bytes no longer parse as frames ({} of {} bytes)", used, raw.len());
                let sent: Vec<u8> = {
                    // only what was written after the hostile input
                    let (before_frames, _) = rc::parse(&raw[..out_raw_before.min(raw.len())]);
                    frames[before_frames.len().min(frames.len())..].iter().filter(|f| f.cmd == rc::PSH && f.sid == sib_id).flat_map(|f| f.data.iter().copied()).collect()
                };
                ensure!(sent == data, "C20.clean", "sibling data written after the hostile input reached the wire altered: {} of {} bytes", sent.len(), data.len());
                // incoming direction, when the peer's byte stream is still on a frame boundary
                if aligned && !addresses_sibling {
                    use tokio::io::AsyncWriteExt;
                    let before = got.lock().unwrap().len();
                    let probe = keyed(sib_id, 8, 0, 700);
                    let _ = w.write_all(&rc::encode(&RFrame::new(rc::PSH, sib_id, probe.clone()))).await;
                    settle(Duration::from_millis(200)).await;
                    let g = got.lock().unwrap()[before..].to_vec();
                    if !sess.is_closed() {
                        ensure!(g == probe, "C20.clean", "after the hostile input the sibling stream no longer delivers incoming data exactly: {} of {} bytes", g.len(), probe.len());
                        ensure!(!released.load(Ordering::SeqCst), "C20.clean", "the sibling stream was ended by input that never addressed it");
                    }
                }
            }
        }
        drain.abort();
        Ok((closed, aligned))
    });
    if alloc_guard::max_request() > alloc_guard::LIMIT {
        return Err(Fail::plain("C20.alloc", format!("a single allocation request of {} bytes while handling {} hostile bytes", alloc_guard::max_request(), hostile.len())));
    }
    let (closed, aligned) = res?;
    let kinds: std::collections::BTreeSet<u8> = hframes.iter().map(|f| rc::effective_cmd(f.cmd)).collect();
    out.nt(kinds.len() >= 2);
    out.class_if(closed, "session-closed-itself");
    out.class_if(!closed, "session-survived");
    out.class_if(aligned, "frame-aligned");
    out.class_if(!aligned, "ends-inside-frame");
    out.class_if(hframes.iter().any(|f| f.cmd == rc::UPDATE_PADDING), "pushed-scheme");
    out.class_if(hframes.iter().any(|f| f.cmd == rc::ALERT), "alert");
    out.class_if(hframes.iter().any(|f| f.cmd == rc::SETTINGS || f.cmd == rc::SERVER_SETTINGS), "settings");
    Ok(out)
}

fn payload_strategy() -> BoxedStrategy<Payload> {
    prop_oneof![
        3 => Just(Payload::Empty),
        3 => proptest::collection::vec(any::<u8>(), 1..40).prop_map(Payload::Bytes),
        2 => prop_oneof![Just(1usize), Just(100), Just(4000), Just(65535)].prop_map(Payload::Fill),
        3 => scheme(size_any(), 6).prop_map(Payload::Scheme),
        2 => prop_oneof![
            Just("v=2\npadding-md5=00000000000000000000000000000000".to_string()),
            Just("v=255".to_string()),
            Just("v=-1\n=\n==\nstop".to_string()),
            Just("stop=99999999999999999999".to_string()),
            Just("stop=3\n1=1-99999999999999999999999\n2=c,c,c".to_string()),
            Just("v=2\n".repeat(500)),
            "[ -~\\n=]{0,80}",
        ]
        .prop_map(Payload::Text),
    ]
    .boxed()
}

impl Family for SessFam {
    type Case = SessCase;
    fn name(&self) -> &'static str {
        "session_bytes"
    }
    fn strategy(&self, _tier: Tier) -> BoxedStrategy<SessCase> {
        let cmd = prop_oneof![10 => 0u8..=10, 1 => any::<u8>()];
        let frame = (cmd, 0u8..5, payload_strategy());
        let mutation = prop_oneof![
            3 => (any::<u16>(), any::<u8>()).prop_map(|(p, b)| Mutation::BitFlip(p, b)),
            1 => any::<u16>().prop_map(Mutation::Truncate),
            1 => (any::<u16>(), any::<u16>()).prop_map(|(p, n)| Mutation::Duplicate(p, n)),
            1 => (any::<u8>(), any::<u8>()).prop_map(|(a, b)| Mutation::SwapFrames(a, b)),
            2 => (any::<u8>(), prop_oneof![Just(0u16), Just(1), Just(65535), any::<u16>()]).prop_map(|(i, v)| Mutation::Length(i, v)),
            1 => (any::<u16>(), proptest::collection::vec(any::<u8>(), 1..16)).prop_map(|(p, r)| Mutation::InsertRandom(p, r)),
        ];
        (
            any::<bool>(),
            proptest::collection::vec(frame, 0..10),
            proptest::collection::vec(mutation, 0..4),
            prop_oneof![3 => Just(Vec::new()), 1 => proptest::collection::vec(any::<u8>(), 1..64)],
            crate::props::c01::pipe_params(),
            proptest::option::weighted(0.2, scheme(size_any(), 6)),
        )
            .prop_map(|(server_role, frames, mutations, raw_tail, frag, own_scheme)| SessCase { server_role, frames, mutations, raw_tail, frag, own_scheme })
            .boxed()
    }
    fn fixed_cases(&self, _tier: Tier) -> Vec<SessCase> {
        // every command x role with empty / small / scheme payloads, unmutated
        let mut v = Vec::new();
        for server_role in [true, false] {
            for cmd in 0u8..=11 {
                for p in [Payload::Empty, Payload::Bytes(vec![1, 2, 3]), Payload::Text("stop=2\n1=2147483648-4294967295\n0=70000-70000".into())] {
                    v.push(SessCase { server_role, frames: vec![(cmd, 1, p.clone()), (cmd, 0, p)], mutations: vec![], raw_tail: vec![], frag: PipeParams::default(), own_scheme: None });
                }
            }
        }
        v
    }
    fn case_budget_s(&self) -> u64 {
        40
    }
    fn stuck_oracle(&self) -> Option<&'static str> {
        Some("C20.spin")
    }
    fn run(&self, case: &SessCase, _cx: &CaseCtx) -> CaseResult {
        let hostile = build_hostile(&case.frames, &case.mutations, &case.raw_tail);
        let own = case.own_scheme.as_ref().map(|s| s.text());
        check_session_bytes(case.server_role, &hostile, &case.frag, own.as_deref())
    }
}

// ------------------------------------------------------------------------------------------
// family `parsers`

#[derive(Clone, Debug, Serialize, Deserialize)]
pub struct ParseCase {
    /// 0 = destination parser, 1 = UoT request parser, 2 = UoT packet reader
    pub which: u8,
    pub bytes: Vec<u8>,
    pub cuts: Vec<u16>,
}

pub struct ParseFam;

pub fn check_parser(which: u8, bytes: &[u8], cuts: &[usize]) -> CaseResult {
    let mut out = Outcome::new();
    let mut bytes = bytes.to_vec();
    if which % 3 == 1 && bytes.len() >= 2 && bytes[1] == 3 {
        // keep the UoT request parser away from name resolution
        bytes[1] = 5;
    }
    let b2 = bytes.clone();
    let cuts = cuts.to_vec();
    alloc_guard::reset();
    #[derive(Debug)]
    enum R {
        Dest(Result<(String, u16), String>),
        Uot(Result<std::net::SocketAddr, String>),
        Pkt(Result<Vec<u8>, String>),
    }
    let res: Result<(R, Vec<u8>), Fail> = run_virtual(async move {
        let bytes = b2;
        let (tx, rx) = tokio::sync::mpsc::unbounded_channel::<Bytes>();
        let (wtx, _wrx) = tokio::sync::mpsc::unbounded_channel::<(u32, Bytes)>();
        let (st, _s) = Stream::new(3, StreamReader::new(3, rx), wtx);
        let st = Arc::new(st);
        let mut from = 0usize;
        let mut pts = cuts.clone();
        pts.push(bytes.len());
        for p in pts {
            if p > from && p <= bytes.len() {
                let _ = tx.send(Bytes::copy_from_slice(&bytes[from..p]));
                from = p;
            }
        }
        drop(tx); // EOF behind the input
        let r = match which % 3 {
            0 => within(WATCHDOG, anytls_rs::server::handler::verif_read_socks_addr(st.clone())).await.map(|r| R::Dest(r.map_err(|e| e.to_string()))),
            1 => {
                let reader = st.reader().clone();
                let mut g = reader.lock().await;
                within(WATCHDOG, anytls_rs::server::udp_proxy::verif_read_initial_request(&mut g)).await.map(|r| R::Uot(r.map_err(|e| e.to_string())))
            }
            _ => {
                let reader = st.reader().clone();
                let mut g = reader.lock().await;
                within(WATCHDOG, anytls_rs::server::udp_proxy::verif_read_udp_packet(&mut g)).await.map(|r| R::Pkt(r.map_err(|e| e.to_string())))
            }
        };
        let Some(r) = r else {
            return Err(Fail::plain("C20.wedge", format!("parser #{} did not return on {} bytes followed by end-of-stream", which % 3, bytes.len())));
        };
        // what is left in the stream afterwards
        let mut rest = Vec::new();
        let reader = st.reader().clone();
        let mut g = reader.lock().await;
        let mut b = vec![0u8; 4096];
        while let Some(Ok(n)) = within(WATCHDOG, g.read(&mut b)).await {
            if n == 0 {
                break;
            }
            rest.extend_from_slice(&b[..n]);
        }
        Ok((r, rest))
    });
    if alloc_guard::max_request() > alloc_guard::LIMIT {
        return Err(Fail::plain("C20.alloc", format!("parser #{} asked for {} bytes in one allocation", which % 3, alloc_guard::max_request())));
    }
    let (r, rest) = res?;
    // differential where the input is valid
    match (&r, which % 3) {
        (R::Dest(got), 0) => {
            if let Some((h, p, used)) = crate::props::c07::ref_decode(&bytes) {
                if !h.is_empty() {
                    match got {
                        Ok((gh, gp)) => {
                            ensure!(crate::props::c07::same_dest(gh, &h) && *gp == p, "C20.clean", "valid destination {:?}:{p} parsed as {:?}:{gp}", h, gh);
                            ensure!(rest == bytes[used..], "C20.clean", "destination parser consumed {} bytes, the destination is {used} bytes long", bytes.len() - rest.len());
                        }
                        Err(e) => return Err(Fail::plain("C20.clean", format!("valid destination {:?}:{p} refused: {e}", h))),
                    }
                }
            } else if let Ok((gh, gp)) = got {
                // accepted something the reference cannot decode: it must at least not be empty garbage
                ensure!(!gh.is_empty(), "C20.clean", "garbled destination accepted as an empty host, port {gp}");
            }
        }
        (R::Pkt(got), 2) => {
            if bytes.len() >= 2 {
                let l = u16::from_be_bytes([bytes[0], bytes[1]]) as usize;
                if bytes.len() >= 2 + l {
                    match got {
                        Ok(p) => ensure!(*p == bytes[2..2 + l] && rest == bytes[2 + l..], "C20.clean", "UoT packet of {l} bytes read as {} bytes", p.len()),
                        Err(e) => return Err(Fail::plain("C20.clean", format!("complete UoT packet of {l} bytes refused: {e}"))),
                    }
                } else {
                    ensure!(got.is_err(), "C20.clean", "truncated UoT packet accepted");
                }
            }
        }
        _ => {}
    }
    let accepted = matches!(&r, R::Dest(Ok(_)) | R::Uot(Ok(_)) | R::Pkt(Ok(_)));
    out.nt(bytes.len() > 1);
    out.class_if(accepted, "accepted");
    out.class_if(!accepted, "rejected");
    Ok(out)
}

impl Family for ParseFam {
    type Case = ParseCase;
    fn name(&self) -> &'static str {
        "parsers"
    }
    fn strategy(&self, _tier: Tier) -> BoxedStrategy<ParseCase> {
        let bytes = prop_oneof![
            3 => proptest::collection::vec(any::<u8>(), 0..80),
            // biased towards valid heads: [1|3|4|0..], isConnect=1, small lengths
            3 => (prop_oneof![Just(1u8), Just(3), Just(4), Just(0), any::<u8>()], proptest::collection::vec(prop_oneof![Just(0u8), Just(1), Just(3), Just(4), 0u8..20, any::<u8>()], 0..80)).prop_map(|(h, mut v)| {
                v.insert(0, h);
                v
            }),
            1 => proptest::collection::vec(any::<u8>(), 250..300),
        ];
        (0u8..3, bytes, proptest::collection::vec(any::<u16>(), 0..5)).prop_map(|(which, bytes, cuts)| ParseCase { which, bytes, cuts }).boxed()
    }
    fn stuck_oracle(&self) -> Option<&'static str> {
        Some("C20.spin")
    }
    fn case_budget_s(&self) -> u64 {
        40
    }
    fn run(&self, case: &ParseCase, _cx: &CaseCtx) -> CaseResult {
        let mut cuts: Vec<usize> = case.cuts.iter().map(|c| idx(*c, case.bytes.len() + 1)).collect();
        cuts.sort_unstable();
        cuts.dedup();
        check_parser(case.which, &case.bytes, &cuts)
    }
}

// ------------------------------------------------------------------------------------------
// family `http_head` (pure): hostile header blocks into the HTTP front-end's private parser

#[derive(Clone, Debug, Serialize, Deserialize)]
pub struct HeadCase {
    /// a well-formed request to start from, or None for `raw`
    pub base: Option<crate::reference::http::ReqGen>,
    /// index into a table of hostile request lines / host values (used when `base` is None)
    pub template: u8,
    pub raw: Vec<u8>,
    /// (position, byte) overwrites
    pub flips: Vec<(u16, u8)>,
    /// (position, which) insertions of multi-byte / control sequences
    pub inserts: Vec<(u16, u8)>,
    pub truncate: Option<u16>,
}

pub struct HeadFam;

const HOSTILE_HEADS: &[&str] = &[
    "GET http:// HTTP/1.1\r\n\r\n",
    "GET http://:80/ HTTP/1.1\r\n\r\n",
    "GET http://[::1/ HTTP/1.1\r\n\r\n",
    "GET http://]:/ HTTP/1.1\r\n\r\n",
    "GET http://h:99999/ HTTP/1.1\r\n\r\n",
    "GET http://h:/ HTTP/1.1\r\n\r\n",
    "GET / HTTP/1.1\r\nHost:\r\n\r\n",
    "GET / HTTP/1.1\r\nHost: :\r\n\r\n",
    "GET / HTTP/1.1\r\nHost: [\r\n\r\n",
    "GET / HTTP/1.1\r\nHost: ]:80\r\n\r\n",
    "GET / HTTP/1.1\r\nHost: a:b:c\r\n\r\n",
    "GET / HTTP/1.1\r\nhos\u{e9}: x\r\n\r\n",
    "GET / HTTP/1.1\r\nHos\u{540d}: x\r\n\r\n",
    "GET / HTTP/1.1\r\n\u{540d}\u{540d}: x\r\nHost: h\r\n\r\n",
    "CONNECT  HTTP/1.1\r\n\r\n",
    "CONNECT : HTTP/1.1\r\n\r\n",
    "CONNECT [::1]:443 HTTP/1.1\r\n\r\n",
    "CONNECT h:443\r\n\r\n",
    "CONNECT\r\n\r\n",
    "\r\n\r\n",
    " \r\n\r\n",
    "GET\r\n\r\n",
    "GET  \r\n\r\n",
    "\u{e9} \u{e9} \u{e9}\r\n\r\n",
    "GET https://\u{540d}.example/\u{e9}?\u{fc} HTTP/1.1\r\n\r\n",
    "GET h HTTP/1.1\r\nHost: h\r\n\r\n",
    "GET ://h/ HTTP/1.1\r\nHost: h\r\n\r\n",
    "GET http://h HTTP/1.1\r\nHost\r\n:\r\n\r\n",
    "OPTIONS * HTTP/1.1\r\nHost: h:0\r\n\r\n",
    "GET / HTTP/1.1\nHost: h\n\n\r\n\r\n",
];

const INSERTS: &[&str] = &["\u{e9}", "\u{540d}", "\u{1f600}", "\r\n", "\r", "\n", "\0", ":", "[", "]", "://", " ", "\t", "%", "@", "/", "?"];

pub fn head_bytes(case: &HeadCase) -> Vec<u8> {
    let mut b: Vec<u8> = match &case.base {
        Some(req) => {
            let built = req.build();
            let mut v = built.header.into_bytes();
            v.extend_from_slice(&req.body);
            v
        }
        None if !case.raw.is_empty() => case.raw.clone(),
        None => HOSTILE_HEADS[idx(case.template as u16 * 256, HOSTILE_HEADS.len())].as_bytes().to_vec(),
    };
    for (pos, which) in &case.inserts {
        let at = idx(*pos, b.len() + 1);
        let ins = INSERTS[(*which as usize) % INSERTS.len()].as_bytes();
        b.splice(at..at, ins.iter().copied());
    }
    for (pos, v) in &case.flips {
        if !b.is_empty() {
            let at = idx(*pos, b.len());
            b[at] = *v;
        }
    }
    if let Some(t) = case.truncate {
        let at = idx(t, b.len() + 1);
        b.truncate(at);
    }
    b
}

/// What the listener does with the bytes it has read, minus the sockets: find the end of the
/// header block, require UTF-8, parse and rewrite. Shared with the fuzz target.
pub fn check_http_head(bytes: &[u8]) -> CaseResult {
    let mut out = Outcome::new();
    alloc_guard::reset();
    let end = anytls_rs::client::http_proxy::verif_find_header_end(bytes);
    let want = bytes.windows(4).position(|w| w == b"\r\n\r\n").map(|p| p + 4);
    ensure!(end == want, "C20.clean", "end of the header block found at {:?}, the first CRLFCRLF ends at {:?}", end, want);
    // the listener hands over exactly the header block; also try the whole input as a block
    let mut accepted = false;
    let mut utf8 = false;
    for (head, body) in [(&bytes[..end.unwrap_or(bytes.len())], &bytes[end.unwrap_or(bytes.len())..]), (bytes, &bytes[bytes.len()..])] {
        if let Ok(text) = std::str::from_utf8(head) {
            utf8 = true;
            match anytls_rs::client::http_proxy::verif_parse_and_rewrite(text, body.to_vec()) {
                Ok(o) => {
                    accepted = true;
                    ensure!(o.body == body, "C20.clean", "the bytes behind the header block were altered");
                }
                Err(_) => {}
            }
        }
    }
    if alloc_guard::max_request() > alloc_guard::LIMIT {
        return Err(Fail::plain("C20.alloc", format!("the HTTP head parser asked for {} bytes in one allocation", alloc_guard::max_request())));
    }
    out.nt(bytes.len() > 4);
    out.class_if(accepted, "accepted");
    out.class_if(!accepted, "rejected");
    out.class_if(!utf8, "not-utf8");
    out.class_if(bytes.iter().any(|c| *c >= 0x80) && utf8, "multi-byte-text");
    Ok(out)
}

impl Family for HeadFam {
    type Case = HeadCase;
    fn name(&self) -> &'static str {
        "http_head"
    }
    fn fixed_cases(&self, _tier: Tier) -> Vec<HeadCase> {
        let mut v = Vec::new();
        for t in 0..HOSTILE_HEADS.len() {
            // the template itself, and a multi-byte character inserted at every position of it
            let template = ((t * 65536 / HOSTILE_HEADS.len() + 65536 / HOSTILE_HEADS.len() / 2) / 256) as u8;
            v.push(HeadCase { base: None, template, raw: vec![], flips: vec![], inserts: vec![], truncate: None });
            let len = HOSTILE_HEADS[t].len();
            for pos in 0..=len {
                let mut p = ((pos << 16) / (len + 1)) as u16;
                while idx(p, len + 1) < pos {
                    p += 1;
                }
                v.push(HeadCase { base: None, template, raw: vec![], flips: vec![], inserts: vec![(p, (pos % 3) as u8)], truncate: None });
            }
        }
        v
    }
    fn strategy(&self, _tier: Tier) -> BoxedStrategy<HeadCase> {
        (
            proptest::option::weighted(0.5, c17::req_strategy(false)),
            any::<u8>(),
            prop_oneof![3 => Just(Vec::new()), 1 => proptest::collection::vec(any::<u8>(), 1..120)],
            proptest::collection::vec((any::<u16>(), prop_oneof![Just(b':'), Just(b'['), Just(b']'), Just(b' '), Just(b'/'), Just(0xC3u8), Just(0xA9u8), Just(b'\r'), Just(b'\n'), any::<u8>()]), 0..4),
            proptest::collection::vec((any::<u16>(), any::<u8>()), 0..4),
            proptest::option::weighted(0.25, any::<u16>()),
        )
            .prop_map(|(base, template, raw, flips, inserts, truncate)| HeadCase { base, template, raw, flips, inserts, truncate })
            .boxed()
    }
    fn run(&self, case: &HeadCase, _cx: &CaseCtx) -> CaseResult {
        check_http_head(&head_bytes(case))
    }
}

// ------------------------------------------------------------------------------------------
// family `http_listener` (Lab-S)

use crate::lab_sock::world::*;
use crate::lab_sock::*;
use crate::props::c17;
use crate::reference::http::ReqGen;

#[derive(Clone, Debug, Serialize, Deserialize)]
pub struct HttpCase {
    pub base: Option<ReqGen>,
    pub raw: Vec<u8>,
    pub flips: Vec<(u16, u8)>,
    pub truncate: Option<u16>,
    pub cuts: Vec<u16>,
}

pub struct HttpFam;

async fn http_get_through(front: std::net::SocketAddr, target: std::net::SocketAddr) -> Result<(), String> {
    use tokio::io::{AsyncReadExt, AsyncWriteExt};
    let mut s = tokio::net::TcpStream::connect(front).await.map_err(|e| e.to_string())?;
    let req = format!("CONNECT {target} HTTP/1.1\r\nHost: {target}\r\n\r\n");
    s.write_all(req.as_bytes()).await.map_err(|e| e.to_string())?;
    let mut head = vec![0u8; 39];
    tokio::time::timeout(Duration::from_secs(10), s.read_exact(&mut head)).await.map_err(|_| "no reply".to_string())?.map_err(|e| e.to_string())?;
    if !head.starts_with(b"HTTP/1.1 200") {
        return Err(format!("reply {:?}", String::from_utf8_lossy(&head)));
    }
    s.write_all(b"hello-http").await.map_err(|e| e.to_string())?;
    let mut b = [0u8; 10];
    tokio::time::timeout(Duration::from_secs(10), s.read_exact(&mut b)).await.map_err(|_| "no echo".to_string())?.map_err(|e| e.to_string())?;
    if &b != b"hello-http" {
        return Err("echo differs".into());
    }
    Ok(())
}

impl Family for HttpFam {
    type Case = HttpCase;
    fn name(&self) -> &'static str {
        "http_listener"
    }
    fn strategy(&self, _tier: Tier) -> BoxedStrategy<HttpCase> {
        (
            proptest::option::weighted(0.7, c17::req_strategy(false)),
            proptest::collection::vec(any::<u8>(), 0..120),
            proptest::collection::vec((any::<u16>(), any::<u8>()), 0..4),
            proptest::option::weighted(0.3, any::<u16>()),
            proptest::collection::vec(any::<u16>(), 0..4),
        )
            .prop_map(|(base, raw, flips, truncate, cuts)| HttpCase { base, raw, flips, truncate, cuts })
            .boxed()
    }
    fn case_budget_s(&self) -> u64 {
        90
    }
    fn run(&self, case: &HttpCase, _cx: &CaseCtx) -> CaseResult {
        let mut out = Outcome::new();
        let c = case.clone();
        let r = with_world(|w| {
            w.rt.block_on(async {
                use tokio::io::{AsyncReadExt, AsyncWriteExt};
                let case = c;
                let mut bytes = match &case.base {
                    Some(req) => {
                        // confine the destination: every generated request names a harness-owned target
                        let mut req = req.clone();
                        let t = w.echo_a.addr;
                        req.host = crate::reference::http::HostSpec::V4(match t.ip() {
                            std::net::IpAddr::V4(v4) => v4.octets(),
                            _ => [127, 0, 0, 1],
                        });
                        req.port = Some(t.port());
                        let mut b = req.build().header.into_bytes();
                        b.extend_from_slice(&req.body);
                        b
                    }
                    None => case.raw.clone(),
                };
                // confinement: the text of the harness-owned destination is never mutated, so the
                // proxy cannot be made to resolve or dial anything else
                let ip_text = w.echo_a.addr.ip().to_string();
                let port_text = w.echo_a.addr.port().to_string();
                let protected = |i: usize, bytes: &[u8]| -> bool {
                    for t in [ip_text.as_bytes(), port_text.as_bytes()] {
                        let lo = i.saturating_sub(t.len() + 1);
                        let hi = (i + t.len() + 1).min(bytes.len());
                        if bytes[lo..hi].windows(t.len()).any(|w| w == t) {
                            return true;
                        }
                    }
                    false
                };
                for (p, b) in &case.flips {
                    if !bytes.is_empty() {
                        let i = idx(*p, bytes.len());
                        if case.base.is_none() || !protected(i, &bytes) {
                            bytes[i] ^= 1 << (b % 8);
                        }
                    }
                }
                if let Some(t) = case.truncate {
                    bytes.truncate(idx(t, bytes.len() + 1));
                }
                // neighbour
                http_get_through(w.http, w.echo_b.addr).await.map_err(|e| Fail::plain("C20.others", format!("neighbour request fails before the hostile conversation: {e}")))?;
                let mut s = tokio::net::TcpStream::connect(w.http).await.map_err(|e| infra(format!("connect to the HTTP listener: {e}")))?;
                let _ = s.set_nodelay(true);
                let mut pts: Vec<usize> = case.cuts.iter().map(|c| idx(*c, bytes.len() + 1)).collect();
                pts.sort_unstable();
                pts.dedup();
                pts.push(bytes.len());
                let mut from = 0usize;
                for p in pts {
                    if p > from {
                        if s.write_all(&bytes[from..p]).await.is_err() {
                            break;
                        }
                        from = p;
                        tokio::time::sleep(Duration::from_millis(2)).await;
                    }
                }
                // we are done sending: half-close and expect the listener to finish with us
                let _ = s.shutdown().await;
                let mut sink = vec![0u8; 65536];
                // (whether the connection ends after our half-close is C08's business; only observed here)
                // An unterminated header block followed by end-of-stream leaves the connection's task nothing
                // to wait for: it must let go of the connection (a task that keeps polling the dead socket
                // spins). Otherwise the outcome is only observed.
                let unterminated = !bytes.windows(4).any(|w| w == b"\r\n\r\n");
                let deadline = tokio::time::Instant::now() + Duration::from_millis(if unterminated { 10_000 } else { 300 });
                let mut ended = false;
                loop {
                    match tokio::time::timeout_at(deadline, s.read(&mut sink)).await {
                        Ok(Ok(0)) | Ok(Err(_)) => {
                            ended = true;
                            break;
                        }
                        Ok(Ok(_)) => {}
                        Err(_) => break,
                    }
                }
                drop(s);
                ensure!(
                    ended || !unterminated,
                    "C20.spin",
                    "the application sent {} bytes of an unterminated header block and finished sending; 10 s later the listener had neither answered nor closed the connection",
                    bytes.len()
                );
                // C20.others: the listener still serves
                http_get_through(w.http, w.echo_a.addr).await.map_err(|e| Fail::plain("C20.others", format!("a fresh valid request fails after the hostile conversation: {e}")))?;
                Ok(ended)
            })
        });
        let ended = match r {
            Ok(e) => e,
            Err(f) => {
                reset_world();
                return Err(f);
            }
        };
        out.nt(case.base.is_some() && (!case.flips.is_empty() || case.truncate.is_some()));
        out.class_if(case.base.is_some(), "mutated-valid-request");
        out.class_if(case.base.is_none(), "raw-bytes");
        out.class_if(ended, "connection-ended");
        out.class_if(!ended, "connection-still-open");
        out.class_if(case.truncate.is_some() && ended, "truncated-then-eof-closed");
        Ok(out)
    }
}

// ------------------------------------------------------------------------------------------
// family `server_tunnel` (Lab-S): hostile frame sequences from a reference client over TLS against
// the real server with its default handler; destinations are confined to harness-owned targets

use crate::lab_sock::refpeer::{RefClient, ref_preamble};

#[derive(Clone, Debug, Serialize, Deserialize)]
pub enum TOp {
    Syn(u8),
    /// first data of a stream: a destination from the safe set (0 echo, 1 refusing port, 2 `localhost`, 3 invalid address type, 4 truncated destination)
    Dest(u8, u8),
    Psh(u8, usize),
    Fin(u8),
    SynAck(u8),
    Heart,
    Settings(String),
    Alert,
    Waste(usize),
    UpdatePadding,
    ServerSettings,
}

#[derive(Clone, Debug, Serialize, Deserialize)]
pub struct ServerTunnelCase {
    pub ops: Vec<TOp>,
    pub raw_tail: Vec<u8>,
}

pub struct ServerTunnelFam;

impl Family for ServerTunnelFam {
    type Case = ServerTunnelCase;
    fn name(&self) -> &'static str {
        "server_tunnel"
    }
    fn strategy(&self, _tier: Tier) -> BoxedStrategy<ServerTunnelCase> {
        let id = 0u8..4;
        let op = prop_oneof![
            4 => id.clone().prop_map(TOp::Syn),
            4 => (id.clone(), 0u8..5).prop_map(|(i, d)| TOp::Dest(i, d)),
            4 => (id.clone(), prop_oneof![Just(0usize), Just(1), Just(100), Just(9000), Just(65535)]).prop_map(|(i, n)| TOp::Psh(i, n)),
            2 => id.clone().prop_map(TOp::Fin),
            1 => id.prop_map(TOp::SynAck),
            1 => Just(TOp::Heart),
            1 => prop_oneof![Just("v=2".to_string()), Just("v=1".to_string()), Just("padding-md5=x\nv=255".to_string()), "[ -~\\n]{0,40}"].prop_map(TOp::Settings),
            1 => Just(TOp::Alert),
            1 => prop_oneof![Just(0usize), Just(30), Just(65535)].prop_map(TOp::Waste),
            1 => Just(TOp::UpdatePadding),
            1 => Just(TOp::ServerSettings),
        ];
        (proptest::collection::vec(op, 1..16), prop_oneof![4 => Just(Vec::new()), 1 => proptest::collection::vec(any::<u8>(), 1..40)]).prop_map(|(ops, raw_tail)| ServerTunnelCase { ops, raw_tail }).boxed()
    }
    fn case_budget_s(&self) -> u64 {
        120
    }
    fn run(&self, case: &ServerTunnelCase, _cx: &CaseCtx) -> CaseResult {
        let mut out = Outcome::new();
        let c = case.clone();
        let panics_before = PANIC_COUNT.load(std::sync::atomic::Ordering::SeqCst);
        let r: Result<(bool, bool), Fail> = with_world(|w| {
            w.rt.block_on(async {
                let case = c;
                let mut cl = RefClient::connect(w.server).await?;
                let _ = cl.send_raw(&ref_preamble(PASSWORD, 7)).await;
                // a sibling stream on the hostile connection, opened and verified first
                const SIB: u32 = 0x0051_B11A;
                let md5 = format!("{:x}", md5::compute(anytls_rs::padding::DEFAULT_PADDING_SCHEME.as_bytes()));
                let _ = cl
                    .send(&[
                        RFrame::new(rc::SETTINGS, 0, format!("v=2\nclient=ref\npadding-md5={md5}").into_bytes()),
                        RFrame::ctl(rc::SYN, SIB),
                        RFrame::new(rc::PSH, SIB, Dest::of(w.echo_b.addr).encode()),
                        RFrame::new(rc::PSH, SIB, b"sibling-1".to_vec()),
                    ])
                    .await;
                let echoed = cl.wait_for(10_000, |f| f.cmd == rc::PSH && f.sid == SIB).await;
                if echoed.map(|f| f.data) != Some(b"sibling-1".to_vec()) {
                    return Err(infra("the sibling stream of the hostile connection could not be established"));
                }
                // the hostile part
                let ids = [1u32, 2, 3, 0xFFFF_FFFF];
                let mut frames: Vec<RFrame> = Vec::new();
                let mut dest_sent = [false; 4];
                let mut alert = false;
                for op in &case.ops {
                    match op {
                        TOp::Syn(i) => {
                            frames.push(RFrame::ctl(rc::SYN, ids[*i as usize % 4]));
                            dest_sent[*i as usize % 4] = false;
                        }
                        TOp::Dest(i, d) => {
                            let k = *i as usize % 4;
                            let bytes = match d % 5 {
                                0 => Dest::of(w.echo_a.addr).encode(),
                                1 => Dest::of(w.closed_port).encode(),
                                2 => Dest::Name("localhost".into(), w.echo_local.addr.port()).encode(),
                                3 => vec![5, 1, 2, 3],
                                _ => Dest::of(w.echo_a.addr).encode()[..3].to_vec(),
                            };
                            frames.push(RFrame::new(rc::PSH, ids[k], bytes));
                            dest_sent[k] = true;
                        }
                        TOp::Psh(i, n) => {
                            let k = *i as usize % 4;
                            // payload is only sent behind a destination: otherwise it would BE the destination
                            if dest_sent[k] {
                                frames.push(RFrame::new(rc::PSH, ids[k], keyed(k as u32, 3, 0, *n)));
                            }
                        }
                        TOp::Fin(i) => frames.push(RFrame::ctl(rc::FIN, ids[*i as usize % 4])),
                        TOp::SynAck(i) => frames.push(RFrame::ctl(rc::SYNACK, ids[*i as usize % 4])),
                        TOp::Heart => frames.push(RFrame::ctl(rc::HEART_REQ, 0)),
                        TOp::Settings(t) => frames.push(RFrame::new(rc::SETTINGS, 0, t.clone().into_bytes())),
                        TOp::Alert => {
                            frames.push(RFrame::new(rc::ALERT, 0, b"x".to_vec()));
                            alert = true;
                        }
                        TOp::Waste(n) => frames.push(RFrame::new(rc::WASTE, 0, vec![0; *n])),
                        TOp::UpdatePadding => frames.push(RFrame::new(rc::UPDATE_PADDING, 0, b"stop=1".to_vec())),
                        TOp::ServerSettings => frames.push(RFrame::new(rc::SERVER_SETTINGS, 0, b"v=9".to_vec())),
                    }
                }
                let _ = cl.send(&frames).await;
                if !case.raw_tail.is_empty() {
                    let _ = cl.send_raw(&case.raw_tail).await;
                }
                let _ = cl.drain(150).await;
                let aligned = case.raw_tail.is_empty();
                let mut sibling_checked = false;
                if !cl.eof && aligned && !alert {
                    // C20.clean: the sibling on the same session still transfers exactly
                    let seen_before = cl.seen.len();
                    let _ = cl.send(&[RFrame::new(rc::PSH, SIB, b"sibling-2".to_vec())]).await;
                    let got = cl.wait_for(10_000, |f| f.cmd == rc::PSH && f.sid == SIB && f.data == b"sibling-2").await;
                    if got.is_none() && !cl.eof {
                        return Err(Fail::plain(
                            "C20.clean",
                            format!("after {} hostile frames (none addressed to it) the sibling stream of the same session no longer echoes, and the session is not closed either ({} frames received meanwhile)", frames.len(), cl.seen.len() - seen_before),
                        ));
                    }
                    sibling_checked = got.is_some();
                }
                // C20.others: another session through the same server is unaffected
                match socks5_connect(w.socks, &Dest::of(w.echo_a.addr)).await {
                    Ok(mut s) => {
                        use tokio::io::{AsyncReadExt, AsyncWriteExt};
                        s.write_all(b"other-session").await.map_err(|e| Fail::plain("C20.others", format!("neighbour session: {e}")))?;
                        let mut b = [0u8; 13];
                        let ok = tokio::time::timeout(Duration::from_secs(10), s.read_exact(&mut b)).await;
                        if !matches!(ok, Ok(Ok(_))) || &b != b"other-session" {
                            return Err(Fail::plain("C20.others", "another session through the same server stopped working after the hostile connection"));
                        }
                    }
                    Err(e) => return Err(Fail::plain("C20.others", format!("a fresh request through the same server fails after the hostile connection (reply {:?})", e))),
                }
                Ok((sibling_checked, cl.eof))
            })
        });
        let (sib, closed) = match r {
            Ok(x) => x,
            Err(f) => {
                reset_world();
                return Err(f);
            }
        };
        let panics = PANIC_COUNT.load(std::sync::atomic::Ordering::SeqCst) - panics_before;
        if panics > 0 {
            let msg = LAST_PANIC.lock().map(|l| l.clone()).unwrap_or_default();
            return Err(Fail::new("C20.panic", "C20.panic:task", format!("{panics} task panic(s) in the process while the hostile connection was served: {msg}")));
        }
        out.nt(case.ops.len() >= 3);
        out.class_if(sib, "sibling-still-served");
        out.class_if(closed, "server-closed-the-session");
        out.class_if(case.ops.iter().any(|o| matches!(o, TOp::Dest(_, 1))), "refusing-destination");
        out.class_if(case.ops.iter().any(|o| matches!(o, TOp::Fin(_))), "fin");
        Ok(out)
    }
}
