//! C05 — early client packets are shaped as the padding scheme prescribes.

use crate::engine::*;
use crate::gens::scheme::*;
use crate::lab_mem::pipe::PipeParams;
use crate::lab_mem::*;
use crate::props::c04::{self, Op};
use crate::reference::codec::{self as rc, RFrame};
use crate::reference::scheme::{self as rs, RefScheme};
use crate::ensure;
use anytls_rs::protocol::{Command, Frame};
use bytes::Bytes;
use proptest::prelude::*;
use serde::{Deserialize, Serialize};
use sha2::{Digest, Sha256};

pub fn property() -> Property {
    Property {
        id: "C05",
        level: "exploration",
        rule: "family `shape`: generated satisfiable schemes (sizes <= 65528, otherwise free: stop, missing/duplicate lines, check marks, reversed ranges, junk parts) and single-writer call sequences with payload sizes placed around the scheme's range bounds; every packet's logged write lengths must be explained by the nondeterministic reference acceptor for line k (k = 1, 2, ... in wire order), unpadded single writes from `stop` on. Family `auth`: send_authentication into a recorder, preamble = 32 hash bytes + u16 L from line 0's first range + exactly L bytes. Family `server`: a real server session never pads. Family `order`: 2-3 concurrent writers with forced pre-emptions, schemes with pairwise distinct fixed sizes, the k-th packet on the wire follows line k. Non-trivial = a packet with k < stop whose line has >= 1 range, or a packet straddling a check mark. Distinct = distinct serialized case. The shape family's call sequences also contain 'the peer sends a keep-alive request': the session's answer is a packet shaped by its line like any other. The glue family now also runs against servers with the built-in scheme, with the default used before or not, and every packet of every session is judged by the line of the scheme that is in force for it (the session's own scheme before a push, the pushed one afterwards).",
        assumptions: vec![
            "reference scheme reader and acceptor (harness/src/reference/scheme.rs, DESIGN.md Appendix A.1)",
            "a packet = the transport writes logged during one API call (single writer)",
            "tokio paused clock / current-thread scheduler",
        ],
        families: vec![
            (Box::new(ShapeFam), 200_000, 2_000_000),
            (Box::new(AuthFam), 100_000, 1_500_000),
            (Box::new(ServerFam), 10_000, 200_000),
            (Box::new(OrderFam), 75_000, 1_500_000),
            (Box::new(GlueFam), 60, 1_500),
        ],
    }
}

#[derive(Clone, Debug, Serialize, Deserialize)]
pub enum LenSel {
    Abs(usize),
    /// (pick among the scheme's range bounds, delta): payload such that frame bytes = bound + delta
    Near(u16, i8),
}

#[derive(Clone, Debug, Serialize, Deserialize)]
pub enum SOp {
    Open,
    Unbuffer,
    Data(u16, LenSel),
    Heart,
    PeerHeart,
}

#[derive(Clone, Debug, Serialize, Deserialize)]
pub struct ShapeCase {
    pub scheme: SchemeGen,
    pub ops: Vec<SOp>,
    pub draw_seed: u64,
}

pub struct ShapeFam;

fn resolve(ops: &[SOp], scheme: &SchemeGen) -> Vec<Op> {
    let mut bounds: Vec<u64> = Vec::new();
    for (_, parts) in &scheme.lines {
        for p in parts {
            if let PartGen::Range(a, b) = p {
                bounds.push(*a);
                bounds.push(*b);
            }
        }
    }
    ops.iter()
        .map(|o| match o {
            SOp::Open => Op::Open,
            SOp::Unbuffer => Op::Unbuffer,
            SOp::Heart => Op::Heart,
            SOp::PeerHeart => Op::PeerHeart,
            // one call = one frame = one packet: payloads above 65535 are split into several packets by
            // the session (that is C01/C04's business), so C05 stays at or below one frame
            SOp::Data(i, LenSel::Abs(n)) => Op::Data(*i, (*n).min(65535)),
            SOp::Data(i, LenSel::Near(pick, d)) => {
                let base = if bounds.is_empty() { 64 } else { bounds[idx(*pick, bounds.len())] } as i64;
                let n = (base + *d as i64 - 7).clamp(0, 65535);
                Op::Data(*i, n as usize)
            }
        })
        .collect()
}

pub fn check_shapes(text: &str, run: &c04::WireRun, out: &mut Outcome) -> Result<(), Fail> {
    let s = RefScheme::parse(text.as_bytes()).expect("generated scheme parses");
    let mut k = 0u32;
    for c in &run.calls {
        if c.buffered_only {
            ensure!(c.writes.is_empty(), "C05.shape", "{} wrote to the transport while buffering", c.op);
            continue;
        }
        k += 1;
        let parts = s.parts(k);
        let has_range = parts.iter().any(|p| matches!(p, rs::Part::Range(..)));
        if k < s.stop && has_range {
            out.nt(true);
            out.class("padded-packet");
        }
        if k < s.stop && parts.iter().any(|p| matches!(p, rs::Part::Check)) {
            out.class("line-with-check");
        }
        out.class_if(k >= s.stop, "packet>=stop");
        if let Err(why) = rs::accept_packet(&s, k, c.pending, &c.writes) {
            let oracle = if k >= s.stop || parts.is_empty() { "C05.stop" } else { "C05.shape" };
            return Err(Fail::plain(
                oracle,
                format!("{why}; call {} with {} pending payload bytes, scheme {:?}", c.op, c.pending, text),
            ));
        }
    }
    Ok(())
}

impl Family for ShapeFam {
    type Case = ShapeCase;
    fn name(&self) -> &'static str {
        "shape"
    }
    fn strategy(&self, _tier: Tier) -> BoxedStrategy<ShapeCase> {
        let len = prop_oneof![
            3 => weighted_sizes(vec![(3, 0..=40), (3, 41..=1300), (1, 16370..=16390), (2, 65480..=65535)]).prop_map(LenSel::Abs),
            4 => (any::<u16>(), -12i8..=12).prop_map(|(p, d)| LenSel::Near(p, d)),
        ];
        let op = prop_oneof![
            2 => Just(SOp::Open),
            2 => Just(SOp::Unbuffer),
            6 => (any::<u16>(), len).prop_map(|(i, l)| SOp::Data(i, l)),
            1 => Just(SOp::Heart),
            1 => Just(SOp::PeerHeart),
        ];
        (scheme(size_satisfiable(), 8), proptest::collection::vec(op, 0..12), any::<u64>())
            .prop_map(|(scheme, ops, draw_seed)| ShapeCase { scheme, ops, draw_seed })
            .boxed()
    }
    fn fixed_cases(&self, _tier: Tier) -> Vec<ShapeCase> {
        // the built-in default scheme with the call pattern of real callers
        let def = SchemeGen {
            stop: 8,
            lines: vec![
                (0, vec![PartGen::Range(30, 30)]),
                (1, vec![PartGen::Range(100, 400)]),
                (2, vec![PartGen::Range(400, 500), PartGen::Check, PartGen::Range(500, 1000), PartGen::Check, PartGen::Range(500, 1000), PartGen::Check, PartGen::Range(500, 1000), PartGen::Check, PartGen::Range(500, 1000)]),
                (3, vec![PartGen::Range(9, 9), PartGen::Range(500, 1000)]),
                (4, vec![PartGen::Range(500, 1000)]),
                (5, vec![PartGen::Range(500, 1000)]),
                (6, vec![PartGen::Range(500, 1000)]),
                (7, vec![PartGen::Range(500, 1000)]),
            ],
            crlf: false,
            junk_line: false,
        };
        let mut v = Vec::new();
        for (seed, lens) in [(1u64, vec![10usize, 100, 2000, 0, 5000, 700, 30, 30, 30, 30]), (2, vec![3000, 3000, 3000, 3000, 9, 9, 9, 9, 9, 9]), (3, vec![1, 1, 1, 1, 1, 1, 1, 1, 1, 1])] {
            let mut ops = vec![SOp::Open, SOp::Unbuffer];
            for l in lens {
                ops.push(SOp::Data(0, LenSel::Abs(l)));
            }
            v.push(ShapeCase { scheme: def.clone(), ops, draw_seed: seed });
        }
        v
    }
    fn run(&self, case: &ShapeCase, _cx: &CaseCtx) -> CaseResult {
        let mut out = Outcome::new();
        let text = case.scheme.text();
        let ops = resolve(&case.ops, &case.scheme);
        let mut scratch = Outcome::new();
        let run = c04::drive(&text, &ops, case.draw_seed, &mut scratch)?;
        check_shapes(&text, &run, &mut out)?;
        Ok(out)
    }
}

// ------------------------------------------------------------------------------------------
// family `auth`

#[derive(Clone, Debug, Serialize, Deserialize)]
pub struct AuthCase {
    pub scheme: SchemeGen,
    pub password: String,
    pub draw_seed: u64,
}

pub struct AuthFam;

impl Family for AuthFam {
    type Case = AuthCase;
    fn name(&self) -> &'static str {
        "auth"
    }
    fn strategy(&self, _tier: Tier) -> BoxedStrategy<AuthCase> {
        (scheme(size_satisfiable(), 4), "[ -~]{0,24}", any::<u64>())
            .prop_map(|(scheme, password, draw_seed)| AuthCase { scheme, password, draw_seed })
            .boxed()
    }
    fn run(&self, case: &AuthCase, _cx: &CaseCtx) -> CaseResult {
        let mut out = Outcome::new();
        let text = case.scheme.text();
        let s = RefScheme::parse(text.as_bytes()).expect("generated scheme parses");
        let (lo, hi) = rs::preamble_padding_range(&s);
        let pw = case.password.clone();
        let seed = case.draw_seed;
        let t2 = text.clone();
        let raw = run_virtual(async move {
            install_draw(seed);
            let mut l = link(PipeParams::default(), PipeParams::default());
            let pad = padding(&t2);
            let mut w = l.c_w.take().unwrap();
            let hash = anytls_rs::hash_password(&pw);
            let r = within(WATCHDOG, anytls_rs::send_authentication(&mut w, &hash, &pad)).await;
            (r.map(|r| r.map_err(|e| e.to_string())), l.c2s.raw())
        });
        let (r, raw) = raw;
        ensure!(matches!(r, Some(Ok(()))), "C05.auth", "send_authentication did not succeed: {:?}", r);
        let expect_hash: [u8; 32] = Sha256::digest(case.password.as_bytes()).into();
        ensure!(raw.len() >= 34, "C05.auth", "preamble is only {} bytes", raw.len());
        ensure!(raw[..32] == expect_hash, "C05.auth", "preamble does not start with SHA-256(password)");
        let l = u16::from_be_bytes([raw[32], raw[33]]) as u64;
        ensure!(
            lo <= l && l <= hi,
            "C05.auth",
            "declared padding length {l} is not in line 0's first range {lo}-{hi} (scheme {:?})",
            text
        );
        ensure!(
            raw.len() as u64 == 34 + l,
            "C05.auth",
            "preamble declares {l} padding bytes but carries {} (scheme {:?})",
            raw.len() - 34,
            text
        );
        out.nt(hi > 0);
        out.class_if(hi > 0, "padded-preamble");
        out.class_if(hi == 0, "no-preamble-padding");
        out.class_if(lo != hi, "ranged");
        Ok(out)
    }
}

// ------------------------------------------------------------------------------------------
// family `server`: a server session never pads

#[derive(Clone, Debug, Serialize, Deserialize)]
pub struct ServerCase {
    pub scheme: SchemeGen,
    pub lens: Vec<usize>,
}

pub struct ServerFam;

impl Family for ServerFam {
    type Case = ServerCase;
    fn name(&self) -> &'static str {
        "server"
    }
    fn strategy(&self, _tier: Tier) -> BoxedStrategy<ServerCase> {
        (scheme(size_satisfiable(), 8), proptest::collection::vec(weighted_sizes(vec![(3, 0..=40), (3, 41..=3000), (1, 65530..=70000)]), 1..8))
            .prop_map(|(scheme, lens)| ServerCase { scheme, lens })
            .boxed()
    }
    fn run(&self, case: &ServerCase, _cx: &CaseCtx) -> CaseResult {
        let mut out = Outcome::new();
        let text = case.scheme.text();
        let lens = case.lens.clone();
        let t2 = text.clone();
        let res: Result<(), Fail> = run_virtual(async move {
            let mut l = link(PipeParams::default(), PipeParams::default());
            let (srv, mut rx, _tasks) = server_session(&mut l, padding(&t2));
            let mut peer = ScriptPeer::client_side(&mut l);
            // a client that announces the same scheme (no push) and opens one stream
            let md5 = format!("{:x}", md5::compute(t2.as_bytes()));
            let settings = format!("v=2\nclient=ref\npadding-md5={md5}");
            peer.send(&[RFrame::new(rc::SETTINGS, 0, settings.into_bytes()), RFrame::ctl(rc::SYN, 1)]).await.ok();
            let st = within(WATCHDOG, rx.recv()).await.flatten();
            let Some(st) = st else {
                return Err(Fail::plain("C05.stop", "server session did not surface the opened stream"));
            };
            settle(tokio::time::Duration::from_millis(10)).await;
            let h = l.s2c.clone();
            for (i, n) in lens.iter().enumerate() {
                let before = h.writes().len();
                let data = keyed(1, 1, i as u64 * 1_000_003, *n);
                let want: usize = rc::psh_frames(1, &data).iter().map(|f| f.wire_len()).sum();
                let r = within(WATCHDOG, srv.write_data_frame(st.id(), Bytes::from(data))).await;
                ensure!(matches!(r, Some(Ok(()))), "C05.stop", "server write_data_frame failed or hung");
                let w: Vec<usize> = h.writes()[before..].iter().map(|w| w.1).collect();
                let frames_expected = rc::psh_frames(1, &vec![0u8; *n]).len();
                ensure!(
                    w.len() == frames_expected && w.iter().sum::<usize>() == want,
                    "C05.stop",
                    "server-side write of {n} payload bytes produced writes {:?} (expected {frames_expected} unpadded write(s) totalling {want}); scheme {:?}",
                    w,
                    t2
                );
            }
            let r = within(WATCHDOG, srv.write_control_frame(Frame::control(Command::HeartRequest, 0))).await;
            ensure!(matches!(r, Some(Ok(()))), "C05.stop", "server write_control_frame failed or hung");
            let (frames, used) = rc::parse(&h.raw());
            ensure!(used == h.raw_len(), "C05.stop", "server wire does not parse");
            ensure!(
                frames.iter().all(|f| f.cmd != rc::WASTE),
                "C05.stop",
                "the server side emitted a padding frame (scheme {:?})",
                t2
            );
            let _ = st;
            Ok(())
        });
        res?;
        out.nt(true);
        out.class("server-writes");
        Ok(out)
    }
}

// ------------------------------------------------------------------------------------------
// family `order`: concurrent writers, the k-th packet on the wire follows line k

use crate::props::c01::SchemeSel;
use crate::props::c11::{self, TOp, TaskPlan, WritersCase};

#[derive(Clone, Debug, Serialize, Deserialize)]
pub struct OrderCase {
    pub n_lines: u8,
    pub tasks: Vec<TaskPlan>,
    pub yields: Vec<u8>,
}

pub struct OrderFam;

fn order_size(k: u32) -> usize {
    2000 + 500 * k as usize
}

impl Family for OrderFam {
    type Case = OrderCase;
    fn name(&self) -> &'static str {
        "order"
    }
    fn strategy(&self, _tier: Tier) -> BoxedStrategy<OrderCase> {
        let op = prop_oneof![4 => (1usize..300).prop_map(TOp::Frame), 2 => (1usize..300).prop_map(TOp::Send), 1 => Just(TOp::Heart)];
        let task = (proptest::bool::weighted(0.85), proptest::collection::vec(op, 1..4), 0u8..4)
            .prop_map(|(opens, ops, start_yields)| TaskPlan { opens, ops, start_yields });
        (3u8..12, proptest::collection::vec(task, 2..=3), c11::yields_strategy())
            .prop_map(|(n_lines, tasks, yields)| OrderCase { n_lines, tasks, yields })
            .boxed()
    }
    fn run(&self, case: &OrderCase, _cx: &CaseCtx) -> CaseResult {
        let mut out = Outcome::new();
        let n = case.n_lines as u32;
        let mut lines = Vec::new();
        for k in 1..=n {
            lines.push((k, vec![PartGen::Range(order_size(k) as u64, order_size(k) as u64)]));
        }
        let sg = SchemeGen { stop: n + 1, lines, crlf: false, junk_line: false };
        let wc = WritersCase {
            scheme: SchemeSel::Gen(sg),
            tasks: case.tasks.clone(),
            c2s: PipeParams::default(),
            yields: case.yields.clone(),
            draw_seed: 1,
            stall: None,
            monitor: None,
            open_barrier: false,
        };
        let run = c11::run_concurrent(&wc)?;
        c11::check_wire(&run)?;
        let lens: Vec<usize> = run.writes.iter().map(|w| w.1).collect();
        let padded = lens.len().min(n as usize);
        for (i, len) in lens.iter().take(padded).enumerate() {
            let k = i as u32 + 1;
            ensure!(
                *len == order_size(k),
                "C05.order",
                "packet #{k} on the wire is {len} bytes long, line {k} prescribes exactly {} (write lengths in wire order: {:?})",
                order_size(k),
                &lens[..lens.len().min(14)]
            );
        }
        for len in lens.iter().skip(n as usize) {
            ensure!(
                *len < 2000,
                "C05.stop",
                "a packet beyond stop={} was padded: write of {len} bytes (write lengths: {:?})",
                n + 1,
                &lens[..lens.len().min(20)]
            );
        }
        let pre = run.sched.yields_taken > 0;
        out.nt(pre && padded >= 2);
        out.class_if(pre, "forced-preemption");
        out.class_if(lens.len() > n as usize, "ran-past-stop");
        Ok(out)
    }
}

// ------------------------------------------------------------------------------------------
// family `glue` (Lab-S, child process): what the real Client puts on the wire for a new session
// is consistent - preamble padding and first packet follow the scheme the session announces

use crate::props::c19::{self, PushCase, ServerScheme};

pub struct GlueFam;

impl Family for GlueFam {
    type Case = PushCase;
    fn name(&self) -> &'static str {
        "glue"
    }
    fn strategy(&self, _tier: Tier) -> BoxedStrategy<PushCase> {
        let ss = prop_oneof![5 => (0u8..4).prop_map(ServerScheme::Fam), 1 => Just(ServerScheme::Builtin)];
        (any::<bool>(), 0u8..4, proptest::collection::vec((ss, 1u8..3), 1..=3))
            .prop_map(|(default_used, client_scheme, sessions)| PushCase { default_used, client_scheme, sessions })
            .boxed()
    }
    fn fixed_cases(&self, _tier: Tier) -> Vec<PushCase> {
        // a client with a scheme of its own against a server that runs the built-in one
        vec![PushCase { default_used: false, client_scheme: 2, sessions: vec![(ServerScheme::Builtin, 3), (ServerScheme::Builtin, 2)] }, PushCase { default_used: true, client_scheme: 1, sessions: vec![(ServerScheme::Builtin, 3)] }]
    }
    fn case_budget_s(&self) -> u64 {
        200
    }
    fn run(&self, case: &PushCase, _cx: &CaseCtx) -> CaseResult {
        let mut out = Outcome::new();
        let child = c19::run_child(case)?;
        // every packet below stop is shaped by the line of the scheme that is in force for it - the
        // session's own scheme before a push, the pushed one afterwards (the judgement C19 makes)
        if let Err(f) = c19::judge(case, &child, _cx) {
            return Err(Fail::new("C05.shape", format!("C05.shape:{}", f.sig), f.detail));
        }
        for (si, obs) in child.conns.iter().enumerate() {
            if !obs.auth_ok {
                continue;
            }
            // the scheme this session announces
            let Some(j) = (0u8..8).find(|j| obs.md5.as_deref() == Some(c19::fam_md5(*j).as_str())) else { continue };
            let pp = obs.preamble_padding.unwrap_or(usize::MAX);
            ensure!(
                pp == 20 + j as usize,
                "C05.auth",
                "session {si} announces scheme Fam({j}) (line 0 = {}) but its authentication preamble carries {pp} padding bytes (history {:?})",
                20 + j as usize,
                case.sessions
            );
            let pk = c19::split_packets(&obs.frames);
            if let Some((total, padded, _)) = pk.first() {
                ensure!(
                    *padded && *total == c19::fam_line_size(j, 1),
                    "C05.shape",
                    "session {si} announces scheme Fam({j}) but its first packet is {total} bytes, line 1 prescribes {}",
                    c19::fam_line_size(j, 1)
                );
            }
        }
        out.nt(case.sessions.len() >= 2);
        out.class_if(case.sessions.len() >= 2, "sessions>=2");
        out.class_if(case.sessions.iter().any(|s| s.0 != ServerScheme::Fam(case.client_scheme)), "push-involved");
        Ok(out)
    }
}
