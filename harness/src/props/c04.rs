//! C04 — padding is invisible to the payload and keeps the wire well-formed.

use crate::engine::*;
use crate::gens::scheme::*;
use crate::lab_mem::pipe::PipeParams;
use crate::lab_mem::*;
use crate::reference::codec::{self as rc, RFrame};
use crate::{alloc_guard, ensure};
use anytls_rs::protocol::{Command, Frame};
use bytes::Bytes;
use proptest::prelude::*;
use serde::{Deserialize, Serialize};

pub fn property() -> Property {
    Property {
        id: "C04",
        level: "exploration",
        rule: "a generated padding scheme (any stop, missing/duplicated lines, ranges of one, reversed ranges, check marks, junk parts, sizes 1 .. 2^63-1) and a generated single-task sequence of real API calls (start_client, open_stream, disable_buffering, write_data_frame with 0 .. 3 frames' worth of payload, heartbeat frames) on a real client session over a recording in-memory transport; after every call the recorded bytes must parse under the reference codec with no leftover and, with command-0 frames erased, equal the reference encoding of what was submitted. Non-trivial = the case emitted >= 1 padding frame, or a write boundary fell inside a frame, or a line with a size > 65535 was reached, or a check mark was reached with payload remaining. Distinct = distinct serialized case. Call sequences also contain 'the peer sends a keep-alive request' (the answer is a packet like any other); one case in four runs over a transport whose k-th write call accepts at most 7, 8, 256 or 64..5000 bytes (short writes). A further op starts a data write while the peer's keep-alive request is being answered by the receive task; three cases in ten run over a transport that holds at most 256 / 1024 / 4096 bytes in flight with a draining peer, so writes wait in the transport and the two writers interleave. Answers to keep-alive requests are counted (where they land between the caller's frames is not fixed), everything else is compared position by position. One case in six runs over a writer that hands nothing to the transport before flush (or shutdown): a packet the session never flushed is not on the wire when the call has returned.",
        assumptions: vec![
            "reference codec and reference scheme reader (harness/src/reference)",
            "tokio paused clock / current-thread scheduler; in-memory pipe of the harness",
        ],
        families: vec![(Box::new(WireFam), 200_000, 1_000_000)],
    }
}

#[derive(Clone, Debug, Serialize, Deserialize)]
pub enum Op {
    Open,
    Unbuffer,
    /// (index into the opened streams, payload length)
    Data(u16, usize),
    Heart,
    /// the peer sends a keep-alive request: the session's answer is a packet like any other
    PeerHeart,
    /// the peer's keep-alive request arrives while this data write (stream index, length) is under
    /// way: the answer is written by the receive task, a second writer inside the session
    DataDuringPeerHeart(u16, usize),
}

#[derive(Clone, Debug, Serialize, Deserialize)]
pub struct WireCase {
    pub scheme: SchemeGen,
    pub ops: Vec<Op>,
    pub draw_seed: u64,
    /// the transport's k-th write call accepts at most this many bytes (empty: everything)
    #[serde(default)]
    pub write_sizes: Vec<usize>,
    /// Some(c): at most c bytes in flight, a peer task drains them - writes wait in the transport
    #[serde(default)]
    pub capacity: Option<usize>,
    /// the session writes into a layer that holds everything back until it is flushed
    #[serde(default)]
    pub hold_until_flush: bool,
}

pub struct WireFam;

pub fn ops_strategy(max_ops: usize) -> BoxedStrategy<Vec<Op>> {
    let len = weighted_sizes(vec![
        (3, 0..=40),
        (4, 41..=1500),
        (2, 1501..=20000),
        (1, 65528..=65540),
        (1, 65541..=200_000),
    ]);
    let op = prop_oneof![
        2 => Just(Op::Open),
        2 => Just(Op::Unbuffer),
        6 => (any::<u16>(), len).prop_map(|(i, l)| Op::Data(i, l)),
        1 => Just(Op::Heart),
        1 => Just(Op::PeerHeart),
        1 => (any::<u16>(), prop_oneof![Just(600usize), Just(3000), 1usize..5000]).prop_map(|(i, l)| Op::DataDuringPeerHeart(i, l)),
    ];
    proptest::collection::vec(op, 0..max_ops).boxed()
}

/// What one executed call put on the wire.
pub struct CallRec {
    pub op: String,
    /// bytes of non-padding frames this call put on the wire (= reference encoding of what was pending)
    pub pending: usize,
    /// write lengths logged during the call
    pub writes: Vec<usize>,
    pub buffered_only: bool,
}

pub struct WireRun {
    pub calls: Vec<CallRec>,
    pub raw: Vec<u8>,
    pub expected: Vec<RFrame>,
}

/// Drive a real client session through `ops`; checks C04's oracles and returns the record for C05.
pub fn drive(scheme_text: &str, ops: &[Op], draw_seed: u64, out: &mut Outcome) -> Result<WireRun, Fail> {
    drive_on(scheme_text, ops, draw_seed, &[], out)
}

/// As `drive`, over a transport whose k-th write call accepts at most `write_sizes[k % len]` bytes
/// (empty: everything): short writes, as a socket under back-pressure produces them.
pub fn drive_on(scheme_text: &str, ops: &[Op], draw_seed: u64, write_sizes: &[usize], out: &mut Outcome) -> Result<WireRun, Fail> {
    drive_full(scheme_text, ops, draw_seed, write_sizes, None, out)
}

/// As `drive_on`; with `capacity` the transport holds at most that many bytes in flight and a peer
/// task drains it, so every larger write waits in the transport and other tasks of the session run.
pub fn drive_full(scheme_text: &str, ops: &[Op], draw_seed: u64, write_sizes: &[usize], capacity: Option<usize>, out: &mut Outcome) -> Result<WireRun, Fail> {
    drive_held(scheme_text, ops, draw_seed, write_sizes, capacity, false, out)
}

/// As `drive_full`; with `hold` the session writes into a layer that passes nothing on until it is
/// flushed (a `BufWriter`, TLS in front of a socket that would block): a packet that is written but
/// not flushed is not on the wire.
pub fn drive_held(scheme_text: &str, ops: &[Op], draw_seed: u64, write_sizes: &[usize], capacity: Option<usize>, hold: bool, out: &mut Outcome) -> Result<WireRun, Fail> {
    let write_sizes = write_sizes.to_vec();
    let scheme_text = scheme_text.to_string();
    let ops = ops.to_vec();
    alloc_guard::reset();
    let res = run_virtual(async move {
        install_draw(draw_seed);
        let mut l = link(PipeParams { capacity: capacity.unwrap_or(16 << 20), write_sizes, ..Default::default() }, PipeParams::default());
        if capacity.is_some() {
            let mut sr = l.s_r.take().unwrap();
            tokio::spawn(async move {
                use tokio::io::AsyncReadExt;
                let mut b = vec![0u8; 4096];
                while matches!(sr.read(&mut b).await, Ok(n) if n > 0) {}
            });
        }
        let pad = padding(&scheme_text);
        let md5 = format!("{:x}", md5::compute(scheme_text.as_bytes()));
        let sess = if hold {
            std::sync::Arc::new(anytls_rs::session::Session::new_client(l.c_r.take().unwrap(), crate::lab_mem::pipe::HoldUntilFlush::new(l.c_w.take().unwrap()), pad, None))
        } else {
            client_session(&mut l, pad, None)
        };
        let h = l.c2s.clone();
        let mut peer_w = l.s_w.take().unwrap();
        let mut expected: Vec<RFrame> = Vec::new();
        let mut flushed = 0usize; // how many expected frames must already be on the wire
        let mut buffering = true;
        let mut calls: Vec<CallRec> = Vec::new();
        let mut streams: Vec<u32> = Vec::new();
        let mut nonwaste_before = 0usize;

        // start_client buffers the settings frame
        let r = within(WATCHDOG, sess.clone().start_client()).await;
        match r {
            None => return Err(Fail::new("C04.nofail", "C04.nofail:hang:start_client", "start_client did not return within one virtual hour")),
            Some(Err(e)) => return Err(Fail::new("C04.nofail", "C04.nofail:err:start_client", format!("start_client failed: {e}"))),
            Some(Ok(())) => {}
        }
        expected.push(RFrame::new(rc::SETTINGS, 0, Vec::new())); // payload compared as a map
        let mut all_ops = ops.clone();
        // make sure everything is flushed at the end
        all_ops.push(Op::Unbuffer);
        all_ops.push(Op::Heart);
        for op in &all_ops {
            let log_before = h.writes().len();
            let exp_before = expected.len();
            let name;
            let r: Option<anytls_rs::Result<()>> = match op {
                Op::Open => {
                    name = "open_stream".to_string();
                    let r = within(WATCHDOG, sess.open_stream()).await;
                    match r {
                        Some(Ok((st, _rx))) => {
                            expected.push(RFrame::ctl(rc::SYN, st.id()));
                            streams.push(st.id());
                            Some(Ok(()))
                        }
                        Some(Err(e)) => Some(Err(e)),
                        None => None,
                    }
                }
                Op::Unbuffer => {
                    name = "disable_buffering".to_string();
                    sess.disable_buffering();
                    buffering = false;
                    Some(Ok(()))
                }
                Op::Data(i, len) => {
                    if streams.is_empty() {
                        continue;
                    }
                    let sid = streams[idx(*i, streams.len())];
                    name = format!("write_data_frame({sid},{len})");
                    let data = keyed(sid, 0, calls.len() as u64 * 1_000_003, *len);
                    expected.extend(rc::psh_frames(sid, &data));
                    within(WATCHDOG, sess.write_data_frame(sid, Bytes::from(data))).await
                }
                Op::PeerHeart => {
                    use tokio::io::AsyncWriteExt;
                    name = "answer to the peer's HeartRequest".to_string();
                    expected.push(RFrame::ctl(rc::HEART_RESP, 0));
                    if peer_w.write_all(&rc::encode(&RFrame::ctl(rc::HEART_REQ, 0))).await.is_err() {
                        return Err(Fail::new("C04.nofail", "C04.nofail:err:peer-heart", "the session closed its receiving side"));
                    }
                    // the receive task reads the request and answers
                    settle(tokio::time::Duration::from_millis(20)).await;
                    Some(Ok(()))
                }
                Op::DataDuringPeerHeart(i, len) => {
                    use tokio::io::AsyncWriteExt;
                    if streams.is_empty() {
                        continue;
                    }
                    let sid = streams[idx(*i, streams.len())];
                    name = format!("write_data_frame({sid},{len}) while the peer's HeartRequest is being answered");
                    if peer_w.write_all(&rc::encode(&RFrame::ctl(rc::HEART_REQ, 0))).await.is_err() {
                        return Err(Fail::new("C04.nofail", "C04.nofail:err:peer-heart", "the session closed its receiving side"));
                    }
                    let data = keyed(sid, 0, calls.len() as u64 * 1_000_003, *len);
                    expected.extend(rc::psh_frames(sid, &data));
                    expected.push(RFrame::ctl(rc::HEART_RESP, 0));
                    let r = within(WATCHDOG, sess.write_data_frame(sid, Bytes::from(data))).await;
                    settle(tokio::time::Duration::from_millis(20)).await;
                    r
                }
                Op::Heart => {
                    name = "write_control_frame(HeartRequest)".to_string();
                    expected.push(RFrame::ctl(rc::HEART_REQ, 0));
                    within(WATCHDOG, sess.write_control_frame(Frame::control(Command::HeartRequest, 0))).await
                }
            };
            match r {
                None => {
                    return Err(Fail::new(
                        "C04.nofail",
                        format!("C04.nofail:hang:{}", name.split('(').next().unwrap()),
                        format!("{name} did not return within one virtual hour (scheme {:?})", scheme_text),
                    ));
                }
                Some(Err(e)) => {
                    return Err(Fail::new(
                        "C04.nofail",
                        format!("C04.nofail:err:{}", name.split('(').next().unwrap()),
                        format!("{name} failed: {e} (scheme {:?})", scheme_text),
                    ));
                }
                Some(Ok(())) => {}
            }
            if alloc_guard::max_request() > alloc_guard::LIMIT {
                return Err(Fail::new(
                    "C04.nofail",
                    "C04.nofail:alloc",
                    format!("{name} made a single allocation request of {} bytes (scheme {:?})", alloc_guard::max_request(), scheme_text),
                ));
            }
            let was_write_call = !matches!(op, Op::Unbuffer);
            if !buffering && was_write_call {
                flushed = expected.len();
            }
            let writes: Vec<usize> = h.writes()[log_before..].iter().map(|w| w.1).collect();
            let _ = exp_before;
            calls.push(CallRec { op: name.clone(), pending: 0, writes, buffered_only: buffering || !was_write_call });

            // ---- oracles on the wire so far
            let raw = h.raw();
            let (frames, used) = rc::parse(&raw);
            ensure!(
                used == raw.len(),
                "C04.parse",
                "after {name} the client->server bytes do not parse into complete frames: {} bytes, {} left over after {} frames (scheme {:?})",
                raw.len(),
                raw.len() - used,
                frames.len(),
                scheme_text
            );
            let mut kept_all: Vec<&RFrame> = Vec::new();
            for f in &frames {
                if f.cmd == rc::WASTE {
                    ensure!(f.sid == 0, "C04.waste", "padding frame with stream id {} after {name}", f.sid);
                } else {
                    kept_all.push(f);
                }
            }
            // answers to the peer's keep-alive requests are written by the receive task: where they land
            // between the frames of the calling task is not fixed - they are counted, the rest is compared
            // position by position
            let is_answer = |f: &RFrame| f.cmd == rc::HEART_RESP && f.sid == 0;
            let answers_wire = kept_all.iter().filter(|f| is_answer(f)).count();
            let answers_due = expected[..flushed].iter().filter(|f| is_answer(f)).count();
            ensure!(
                answers_wire == answers_due,
                "C04.erase",
                "after {name}: {} answers to keep-alive requests on the wire, {} requests had been sent and must have been answered (scheme {:?})",
                answers_wire,
                answers_due,
                scheme_text
            );
            let kept: Vec<&RFrame> = kept_all.iter().copied().filter(|f| !is_answer(f)).collect();
            let expected_fixed: Vec<&RFrame> = expected.iter().filter(|f| !is_answer(f)).collect();
            let flushed_fixed = flushed - answers_due;
            ensure!(
                kept.len() == flushed_fixed,
                "C04.erase",
                "after {name}: {} non-padding frames on the wire, {} were submitted and must have been sent (scheme {:?})",
                kept.len(),
                flushed_fixed,
                scheme_text
            );
            for (i, (g, e)) in kept.iter().zip(expected_fixed.iter()).enumerate() {
                if e.cmd == rc::SETTINGS {
                    let m = parse_settings(&g.data);
                    ensure!(
                        g.cmd == rc::SETTINGS && g.sid == 0 && m.get("v").map(|s| s.as_str()) == Some("2") && m.get("padding-md5") == Some(&md5),
                        "C04.erase",
                        "frame #{i} should be the settings frame announcing v=2 and padding-md5={md5}; got cmd={} sid={} {:?}",
                        g.cmd,
                        g.sid,
                        m
                    );
                } else {
                    ensure!(
                        *g == *e,
                        "C04.erase",
                        "after {name}: frame #{i} on the wire is cmd={} sid={} len={}, submitted was cmd={} sid={} len={} (payload equal: {}) (scheme {:?})",
                        g.cmd,
                        g.sid,
                        g.data.len(),
                        e.cmd,
                        e.sid,
                        e.data.len(),
                        g.data == e.data,
                        scheme_text
                    );
                }
            }
            let nonwaste: usize = kept_all.iter().map(|f| f.wire_len()).sum();
            calls.last_mut().unwrap().pending = nonwaste - nonwaste_before;
            nonwaste_before = nonwaste;
        }
        Ok(WireRun { calls, raw: h.raw(), expected })
    });
    let run = res?;
    // classification
    let (frames, _) = rc::parse(&run.raw);
    let waste = frames.iter().filter(|f| f.cmd == rc::WASTE).count();
    out.class_if(waste > 0, "emitted-padding");
    out.nt(waste > 0);
    Ok(run)
}

impl Family for WireFam {
    type Case = WireCase;
    fn name(&self) -> &'static str {
        "wire"
    }
    fn strategy(&self, _tier: Tier) -> BoxedStrategy<WireCase> {
        let short = prop_oneof![
            3 => Just(Vec::new()),
            1 => proptest::collection::vec(prop_oneof![Just(7usize), Just(8), Just(256), 64usize..5000], 1..5),
        ];
        let cap = proptest::option::weighted(0.3, prop_oneof![Just(256usize), Just(1024), Just(4096)]);
        (scheme(size_any(), 8), ops_strategy(12), any::<u64>(), short, cap, proptest::bool::weighted(0.25))
            .prop_map(|(scheme, ops, draw_seed, write_sizes, capacity, hold_until_flush)| WireCase { scheme, ops, draw_seed, write_sizes, capacity, hold_until_flush })
            .boxed()
    }
    fn run(&self, case: &WireCase, _cx: &CaseCtx) -> CaseResult {
        let mut out = Outcome::new();
        let text = case.scheme.text();
        let run = drive_held(&text, &case.ops, case.draw_seed, &case.write_sizes, case.capacity, case.hold_until_flush, &mut out)?;
        out.class_if(case.hold_until_flush, "writes-held-until-flushed");
        out.class_if(case.capacity.is_some() && case.ops.iter().any(|o| matches!(o, Op::DataDuringPeerHeart(..))), "second-writer-during-a-back-pressured-write");
        out.class_if(!case.write_sizes.is_empty(), "transport-takes-short-writes");
        // classes that need the scheme
        if let Some(s) = crate::reference::scheme::RefScheme::parse(text.as_bytes()) {
            let mut pkt = 0u32;
            for c in &run.calls {
                if c.buffered_only {
                    continue;
                }
                pkt += 1;
                if pkt < s.stop {
                    let big = s.max_size(pkt) > 65535;
                    out.class_if(big, "size>65535-reached");
                    out.nt(big);
                    out.class_if(c.writes.len() > 1, "packet-split-over-writes");
                    out.nt(c.writes.len() > 1);
                }
            }
        }
        Ok(out)
    }
}
