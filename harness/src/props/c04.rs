//! C04 — padding is invisible to the payload and keeps the wire well-formed.

use crate::engine::*;
use crate::gens::scheme::*;
use crate::lab_mem::pipe::PipeParams;
use crate::lab_mem::*;
use crate::reference::codec::{self as rc, RFrame};
use crate::{alloc_guard, ensure};
use anytls_rs::protocol::{Command, Frame};
use bytes::Bytes;
use proptest::prelude::*;
use serde::{Deserialize, Serialize};

pub fn property() -> Property {
    Property {
        id: "C04",
        level: "exploration",
        rule: "a generated padding scheme (any stop, missing/duplicated lines, ranges of one, reversed ranges, check marks, junk parts, sizes 1 .. 2^63-1) and a generated single-task sequence of real API calls (start_client, open_stream, disable_buffering, write_data_frame with 0 .. 3 frames' worth of payload, heartbeat frames) on a real client session over a recording in-memory transport; after every call the recorded bytes must parse under the reference codec with no leftover and, with command-0 frames erased, equal the reference encoding of what was submitted. Non-trivial = the case emitted >= 1 padding frame, or a write boundary fell inside a frame, or a line with a size > 65535 was reached, or a check mark was reached with payload remaining. Distinct = distinct serialized case. Call sequences also contain 'the peer sends a keep-alive request' (the answer is a packet like any other); one case in four runs over a transport whose k-th write call accepts at most 7, 8, 256 or 64..5000 bytes (short writes). A further op starts a data write while the peer's keep-alive request is being answered by the receive task; three cases in ten run over a transport that holds at most 256 / 1024 / 4096 bytes in flight with a draining peer, so writes wait in the transport and the two writers interleave. Answers to keep-alive requests are counted (where they land between the caller's frames is not fixed), everything else is compared position by position. One case in six runs over a writer that hands nothing to the transport before flush (or shutdown): a packet the session never flushed is not on the wire when the call has returned. Family `after_error`: the same kind of history over a transport one of whose writes (at a generated offset of the fault-free wire) or flushes fails once with TimedOut / WouldBlock / Interrupted / BrokenPipe and which works again afterwards; if the session puts anything on the transport after that error, the error must have fallen on a frame boundary, the wire must parse completely, and every non-padding frame must be one that was submitted, in order. Non-trivial there = the failed write fell inside a frame.",
        assumptions: vec![
            "reference codec and reference scheme reader (harness/src/reference)",
            "tokio paused clock / current-thread scheduler; in-memory pipe of the harness",
        ],
        families: vec![(Box::new(WireFam), 200_000, 1_000_000), (Box::new(AfterErrorFam), 30_000, 600_000)],
    }
}

#[derive(Clone, Debug, Serialize, Deserialize)]
pub enum Op {
    Open,
    Unbuffer,
    /// (index into the opened streams, payload length)
    Data(u16, usize),
    Heart,
    /// the peer sends a keep-alive request: the session's answer is a packet like any other
    PeerHeart,
    /// the peer's keep-alive request arrives while this data write (stream index, length) is under
    /// way: the answer is written by the receive task, a second writer inside the session
    DataDuringPeerHeart(u16, usize),
}

#[derive(Clone, Debug, Serialize, Deserialize)]
pub struct WireCase {
    pub scheme: SchemeGen,
    pub ops: Vec<Op>,
    pub draw_seed: u64,
    /// the transport's k-th write call accepts at most this many bytes (empty: everything)
    #[serde(default)]
    pub write_sizes: Vec<usize>,
    /// Some(c): at most c bytes in flight, a peer task drains them - writes wait in the transport
    #[serde(default)]
    pub capacity: Option<usize>,
    /// the session writes into a layer that holds everything back until it is flushed
    #[serde(default)]
    pub hold_until_flush: bool,
}

pub struct WireFam;

pub fn ops_strategy(max_ops: usize) -> BoxedStrategy<Vec<Op>> {
    let len = weighted_sizes(vec![
        (3, 0..=40),
        (4, 41..=1500),
        (2, 1501..=20000),
        (1, 65528..=65540),
        (1, 65541..=200_000),
    ]);
    let op = prop_oneof![
        2 => Just(Op::Open),
        2 => Just(Op::Unbuffer),
        6 => (any::<u16>(), len).prop_map(|(i, l)| Op::Data(i, l)),
        1 => Just(Op::Heart),
        1 => Just(Op::PeerHeart),
        1 => (any::<u16>(), prop_oneof![Just(600usize), Just(3000), 1usize..5000]).prop_map(|(i, l)| Op::DataDuringPeerHeart(i, l)),
    ];
    proptest::collection::vec(op, 0..max_ops).boxed()
}

/// What one executed call put on the wire.
pub struct CallRec {
    pub op: String,
    /// bytes of non-padding frames this call put on the wire (= reference encoding of what was pending)
    pub pending: usize,
    /// write lengths logged during the call
    pub writes: Vec<usize>,
    pub buffered_only: bool,
}

pub struct WireRun {
    pub calls: Vec<CallRec>,
    pub raw: Vec<u8>,
    pub expected: Vec<RFrame>,
}

/// Drive a real client session through `ops`; checks C04's oracles and returns the record for C05.
pub fn drive(scheme_text: &str, ops: &[Op], draw_seed: u64, out: &mut Outcome) -> Result<WireRun, Fail> {
    drive_on(scheme_text, ops, draw_seed, &[], out)
}

/// As `drive`, over a transport whose k-th write call accepts at most `write_sizes[k % len]` bytes
/// (empty: everything): short writes, as a socket under back-pressure produces them.
pub fn drive_on(scheme_text: &str, ops: &[Op], draw_seed: u64, write_sizes: &[usize], out: &mut Outcome) -> Result<WireRun, Fail> {
    drive_full(scheme_text, ops, draw_seed, write_sizes, None, out)
}

/// As `drive_on`; with `capacity` the transport holds at most that many bytes in flight and a peer
/// task drains it, so every larger write waits in the transport and other tasks of the session run.
pub fn drive_full(scheme_text: &str, ops: &[Op], draw_seed: u64, write_sizes: &[usize], capacity: Option<usize>, out: &mut Outcome) -> Result<WireRun, Fail> {
    drive_held(scheme_text, ops, draw_seed, write_sizes, capacity, false, out)
}

/// As `drive_full`; with `hold` the session writes into a layer that passes nothing on until it is
/// flushed (a `BufWriter`, TLS in front of a socket that would block): a packet that is written but
/// not flushed is not on the wire.
pub fn drive_held(scheme_text: &str, ops: &[Op], draw_seed: u64, write_sizes: &[usize], capacity: Option<usize>, hold: bool, out: &mut Outcome) -> Result<WireRun, Fail> {
    let write_sizes = write_sizes.to_vec();
    let scheme_text = scheme_text.to_string();
    let ops = ops.to_vec();
    alloc_guard::reset();
    let res = run_virtual(async move {
        install_draw(draw_seed);
        let mut l = link(PipeParams { capacity: capacity.unwrap_or(16 << 20), write_sizes, ..Default::default() }, PipeParams::default());
        if capacity.is_some() {
            let mut sr = l.s_r.take().unwrap();
            tokio::spawn(async move {
                use tokio::io::AsyncReadExt;
                let mut b = vec![0u8; 4096];
                while matches!(sr.read(&mut b).await, Ok(n) if n > 0) {}
            });
        }
        let pad = padding(&scheme_text);
        let md5 = format!("{:x}", md5::compute(scheme_text.as_bytes()));
        let sess = if hold {
            std::sync::Arc::new(anytls_rs::session::Session::new_client(l.c_r.take().unwrap(), crate::lab_mem::pipe::HoldUntilFlush::new(l.c_w.take().unwrap()), pad, None))
        } else {
            client_session(&mut l, pad, None)
        };
        let h = l.c2s.clone();
        let mut peer_w = l.s_w.take().unwrap();
        let mut expected: Vec<RFrame> = Vec::new();
        let mut flushed = 0usize; // how many expected frames must already be on the wire
        let mut buffering = true;
        let mut calls: Vec<CallRec> = Vec::new();
        let mut streams: Vec<u32> = Vec::new();
        let mut nonwaste_before = 0usize;

        // start_client buffers the settings frame
        let r = within(WATCHDOG, sess.clone().start_client()).await;
        match r {
            None => return Err(Fail::new("C04.nofail", "C04.nofail:hang:start_client", "start_client did not return within one virtual hour")),
            Some(Err(e)) => return Err(Fail::new("C04.nofail", "C04.nofail:err:start_client", format!("start_client failed: {e}"))),
            Some(Ok(())) => {}
        }
        expected.push(RFrame::new(rc::SETTINGS, 0, Vec::new())); // payload compared as a map
        let mut all_ops = ops.clone();
        // make sure everything is flushed at the end
        all_ops.push(Op::Unbuffer);
        all_ops.push(Op::Heart);
        for op in &all_ops {
            let log_before = h.writes().len();
            let exp_before = expected.len();
            let name;
            let r: Option<anytls_rs::Result<()>> = match op {
                Op::Open => {
                    name = "open_stream".to_string();
                    let r = within(WATCHDOG, sess.open_stream()).await;
                    match r {
                        Some(Ok((st, _rx))) => {
                            expected.push(RFrame::ctl(rc::SYN, st.id()));
                            streams.push(st.id());
                            Some(Ok(()))
                        }
                        Some(Err(e)) => Some(Err(e)),
                        None => None,
                    }
                }
                Op::Unbuffer => {
                    name = "disable_buffering".to_string();
                    sess.disable_buffering();
                    buffering = false;
                    Some(Ok(()))
                }
                Op::Data(i, len) => {
                    if streams.is_empty() {
                        continue;
                    }
                    let sid = streams[idx(*i, streams.len())];
                    name = format!("write_data_frame({sid},{len})");
                    let data = keyed(sid, 0, calls.len() as u64 * 1_000_003, *len);
                    expected.extend(rc::psh_frames(sid, &data));
                    within(WATCHDOG, sess.write_data_frame(sid, Bytes::from(data))).await
                }
                Op::PeerHeart => {
                    use tokio::io::AsyncWriteExt;
                    name = "answer to the peer's HeartRequest".to_string();
                    expected.push(RFrame::ctl(rc::HEART_RESP, 0));
                    if peer_w.write_all(&rc::encode(&RFrame::ctl(rc::HEART_REQ, 0))).await.is_err() {
                        return Err(Fail::new("C04.nofail", "C04.nofail:err:peer-heart", "the session closed its receiving side"));
                    }
                    // the receive task reads the request and answers
                    settle(tokio::time::Duration::from_millis(20)).await;
                    Some(Ok(()))
                }
                Op::DataDuringPeerHeart(i, len) => {
                    use tokio::io::AsyncWriteExt;
                    if streams.is_empty() {
                        continue;
                    }
                    let sid = streams[idx(*i, streams.len())];
                    name = format!("write_data_frame({sid},{len}) while the peer's HeartRequest is being answered");
                    if peer_w.write_all(&rc::encode(&RFrame::ctl(rc::HEART_REQ, 0))).await.is_err() {
                        return Err(Fail::new("C04.nofail", "C04.nofail:err:peer-heart", "the session closed its receiving side"));
                    }
                    let data = keyed(sid, 0, calls.len() as u64 * 1_000_003, *len);
                    expected.extend(rc::psh_frames(sid, &data));
                    expected.push(RFrame::ctl(rc::HEART_RESP, 0));
                    let r = within(WATCHDOG, sess.write_data_frame(sid, Bytes::from(data))).await;
                    settle(tokio::time::Duration::from_millis(20)).await;
                    r
                }
                Op::Heart => {
                    name = "write_control_frame(HeartRequest)".to_string();
                    expected.push(RFrame::ctl(rc::HEART_REQ, 0));
                    within(WATCHDOG, sess.write_control_frame(Frame::control(Command::HeartRequest, 0))).await
                }
            };
            match r {
                None => {
                    return Err(Fail::new(
                        "C04.nofail",
                        format!("C04.nofail:hang:{}", name.split('(').next().unwrap()),
                        format!("{name} did not return within one virtual hour (scheme {:?})", scheme_text),
                    ));
                }
                Some(Err(e)) => {
                    return Err(Fail::new(
                        "C04.nofail",
                        format!("C04.nofail:err:{}", name.split('(').next().unwrap()),
                        format!("{name} failed: {e} (scheme {:?})", scheme_text),
                    ));
                }
                Some(Ok(())) => {}
            }
            if alloc_guard::max_request() > alloc_guard::LIMIT {
                return Err(Fail::new(
                    "C04.nofail",
                    "C04.nofail:alloc",
                    format!("{name} made a single allocation request of {} bytes (scheme {:?})", alloc_guard::max_request(), scheme_text),
                ));
            }
            let was_write_call = !matches!(op, Op::Unbuffer);
            if !buffering && was_write_call {
                flushed = expected.len();
            }
            let writes: Vec<usize> = h.writes()[log_before..].iter().map(|w| w.1).collect();
            let _ = exp_before;
            calls.push(CallRec { op: name.clone(), pending: 0, writes, buffered_only: buffering || !was_write_call });

            // ---- oracles on the wire so far
            let raw = h.raw();
            let (frames, used) = rc::parse(&raw);
            ensure!(
                used == raw.len(),
                "C04.parse",
                "after {name} the client->server bytes do not parse into complete frames: {} bytes, {} left over after {} frames (scheme {:?})",
                raw.len(),
                raw.len() - used,
                frames.len(),
                scheme_text
            );
            let mut kept_all: Vec<&RFrame> = Vec::new();
            for f in &frames {
                if f.cmd == rc::WASTE {
                    ensure!(f.sid == 0, "C04.waste", "padding frame with stream id {} after {name}", f.sid);
                } else {
                    kept_all.push(f);
                }
            }
            // answers to the peer's keep-alive requests are written by the receive task: where they land
            // between the frames of the calling task is not fixed - they are counted, the rest is compared
            // position by position
            let is_answer = |f: &RFrame| f.cmd == rc::HEART_RESP && f.sid == 0;
            let answers_wire = kept_all.iter().filter(|f| is_answer(f)).count();
            let answers_due = expected[..flushed].iter().filter(|f| is_answer(f)).count();
            ensure!(
                answers_wire == answers_due,
                "C04.erase",
                "after {name}: {} answers to keep-alive requests on the wire, {} requests had been sent and must have been answered (scheme {:?})",
                answers_wire,
                answers_due,
                scheme_text
            );
            let kept: Vec<&RFrame> = kept_all.iter().copied().filter(|f| !is_answer(f)).collect();
            let expected_fixed: Vec<&RFrame> = expected.iter().filter(|f| !is_answer(f)).collect();
            let flushed_fixed = flushed - answers_due;
            ensure!(
                kept.len() == flushed_fixed,
                "C04.erase",
                "after {name}: {} non-padding frames on the wire, {} were submitted and must have been sent (scheme {:?})",
                kept.len(),
                flushed_fixed,
                scheme_text
            );
            for (i, (g, e)) in kept.iter().zip(expected_fixed.iter()).enumerate() {
                if e.cmd == rc::SETTINGS {
                    let m = parse_settings(&g.data);
                    ensure!(
                        g.cmd == rc::SETTINGS && g.sid == 0 && m.get("v").map(|s| s.as_str()) == Some("2") && m.get("padding-md5") == Some(&md5),
                        "C04.erase",
                        "frame #{i} should be the settings frame announcing v=2 and padding-md5={md5}; got cmd={} sid={} {:?}",
                        g.cmd,
                        g.sid,
                        m
                    );
                } else {
                    ensure!(
                        *g == *e,
                        "C04.erase",
                        "after {name}: frame #{i} on the wire is cmd={} sid={} len={}, submitted was cmd={} sid={} len={} (payload equal: {}) (scheme {:?})",
                        g.cmd,
                        g.sid,
                        g.data.len(),
                        e.cmd,
                        e.sid,
                        e.data.len(),
                        g.data == e.data,
                        scheme_text
                    );
                }
            }
            let nonwaste: usize = kept_all.iter().map(|f| f.wire_len()).sum();
            calls.last_mut().unwrap().pending = nonwaste - nonwaste_before;
            nonwaste_before = nonwaste;
        }
        Ok(WireRun { calls, raw: h.raw(), expected })
    });
    let run = res?;
    // classification
    let (frames, _) = rc::parse(&run.raw);
    let waste = frames.iter().filter(|f| f.cmd == rc::WASTE).count();
    out.class_if(waste > 0, "emitted-padding");
    out.nt(waste > 0);
    Ok(run)
}

impl Family for WireFam {
    type Case = WireCase;
    fn name(&self) -> &'static str {
        "wire"
    }
    fn strategy(&self, _tier: Tier) -> BoxedStrategy<WireCase> {
        let short = prop_oneof![
            3 => Just(Vec::new()),
            1 => proptest::collection::vec(prop_oneof![Just(7usize), Just(8), Just(256), 64usize..5000], 1..5),
        ];
        let cap = proptest::option::weighted(0.3, prop_oneof![Just(256usize), Just(1024), Just(4096)]);
        (scheme(size_any(), 8), ops_strategy(12), any::<u64>(), short, cap, proptest::bool::weighted(0.25))
            .prop_map(|(scheme, ops, draw_seed, write_sizes, capacity, hold_until_flush)| WireCase { scheme, ops, draw_seed, write_sizes, capacity, hold_until_flush })
            .boxed()
    }
    fn run(&self, case: &WireCase, _cx: &CaseCtx) -> CaseResult {
        let mut out = Outcome::new();
        let text = case.scheme.text();
        let run = drive_held(&text, &case.ops, case.draw_seed, &case.write_sizes, case.capacity, case.hold_until_flush, &mut out)?;
        out.class_if(case.hold_until_flush, "writes-held-until-flushed");
        out.class_if(case.capacity.is_some() && case.ops.iter().any(|o| matches!(o, Op::DataDuringPeerHeart(..))), "second-writer-during-a-back-pressured-write");
        out.class_if(!case.write_sizes.is_empty(), "transport-takes-short-writes");
        // classes that need the scheme
        if let Some(s) = crate::reference::scheme::RefScheme::parse(text.as_bytes()) {
            let mut pkt = 0u32;
            for c in &run.calls {
                if c.buffered_only {
                    continue;
                }
                pkt += 1;
                if pkt < s.stop {
                    let big = s.max_size(pkt) > 65535;
                    out.class_if(big, "size>65535-reached");
                    out.nt(big);
                    out.class_if(c.writes.len() > 1, "packet-split-over-writes");
                    out.nt(c.writes.len() > 1);
                }
            }
        }
        Ok(out)
    }
}

// ------------------------------------------------------------------------------------------
// family `after_error`: a write or flush of the transport fails once (and the transport works again
// afterwards - a write-timeout wrapper, a layer that reports a transient condition as an error).
// Whatever the session does about it, it must not go on writing behind a frame the failed write cut
// short: the bytes on the transport must still parse as complete frames, and every frame that is not
// padding must be one the session was asked to send.

#[derive(Clone, Debug, Serialize, Deserialize)]
pub struct AfterErrorCase {
    pub scheme: SchemeGen,
    pub ops: Vec<Op>,
    pub draw_seed: u64,
    /// where the one failing write falls, as a fraction of the fault-free wire
    pub err_at: u16,
    /// Some(k): the k-th flush fails instead
    pub flush_k: Option<u8>,
    /// 0 timed out, 1 would block, 2 interrupted, 3 broken pipe
    pub kind: u8,
}

pub struct AfterErrorFam;

impl Family for AfterErrorFam {
    type Case = AfterErrorCase;
    fn name(&self) -> &'static str {
        "after_error"
    }
    fn strategy(&self, _tier: Tier) -> BoxedStrategy<AfterErrorCase> {
        // schemes that pad (several records per packet) and the built-in one, short payloads first
        let small_ops = {
            let op = prop_oneof![
                2 => Just(Op::Open),
                1 => Just(Op::Unbuffer),
                6 => (any::<u16>(), prop_oneof![3 => 0usize..=300, 2 => 301usize..=3000, 1 => 3001usize..=70_000]).prop_map(|(i, l)| Op::Data(i, l)),
                1 => Just(Op::Heart),
                1 => Just(Op::PeerHeart),
            ];
            proptest::collection::vec(op, 1..10).prop_map(|mut v| {
                v.insert(0, Op::Open);
                v.insert(1, Op::Unbuffer);
                v
            })
        };
        (prop_oneof![1 => Just(None), 2 => scheme(size_any(), 8).prop_map(Some)], small_ops, any::<u64>(), any::<u16>(), proptest::option::weighted(0.15, 0u8..8), 0u8..4)
            .prop_map(|(scheme, ops, draw_seed, err_at, flush_k, kind)| AfterErrorCase { scheme: scheme.unwrap_or_else(SchemeGen::builtin), ops, draw_seed, err_at, flush_k, kind })
            .boxed()
    }
    fn run(&self, case: &AfterErrorCase, _cx: &CaseCtx) -> CaseResult {
        use crate::lab_mem::pipe::{ErrKind, Fault};
        let mut out = Outcome::new();
        let text = case.scheme.text();
        // 1. the same history without a fault: how long the wire gets (the padding draws are seeded)
        let mut scratch = Outcome::new();
        let clean = drive(&text, &case.ops, case.draw_seed, &mut scratch)?;
        let total = clean.raw.len();
        let at = idx(case.err_at, total.max(1));
        let kind = [ErrKind::TimedOut, ErrKind::WouldBlock, ErrKind::Interrupted, ErrKind::BrokenPipe][case.kind as usize % 4].clone();
        let c = case.clone();
        let scheme_text = text.clone();
        let expected_all = clean.expected.clone();
        let (raw, offsets) = run_virtual(async move {
            install_draw(c.draw_seed);
            let mut l = link(PipeParams { capacity: 16 << 20, ..Default::default() }, PipeParams::default());
            let h = l.c2s.clone();
            h.set_write_err_kind(kind);
            match c.flush_k {
                Some(k) => h.arm(Fault::FlushErr { k: k as usize }),
                None => h.arm(Fault::WriteErrOnce { at }),
            }
            let sess = client_session(&mut l, padding(&scheme_text), None);
            let mut peer_w = l.s_w.take().unwrap();
            let _ = within(WATCHDOG, sess.clone().start_client()).await;
            let mut streams: Vec<u32> = Vec::new();
            let mut calls = 0u64;
            let mut all_ops = c.ops.clone();
            all_ops.push(Op::Unbuffer);
            all_ops.push(Op::Heart);
            // the same calls with the same payloads as in the clean run; failures are the session's business
            for op in &all_ops {
                match op {
                    Op::Open => {
                        if let Some(Ok((st, _rx))) = within(WATCHDOG, sess.open_stream()).await {
                            streams.push(st.id());
                        } else {
                            // keep the numbering of the clean run
                            streams.push(u32::MAX);
                        }
                        calls += 1;
                    }
                    Op::Unbuffer => {
                        sess.disable_buffering();
                        calls += 1;
                    }
                    Op::Data(i, len) | Op::DataDuringPeerHeart(i, len) => {
                        if streams.is_empty() {
                            continue;
                        }
                        let sid = streams[idx(*i, streams.len())];
                        if sid != u32::MAX {
                            let data = keyed(sid, 0, calls * 1_000_003, *len);
                            let _ = within(WATCHDOG, sess.write_data_frame(sid, Bytes::from(data))).await;
                        }
                        calls += 1;
                    }
                    Op::PeerHeart => {
                        use tokio::io::AsyncWriteExt;
                        let _ = peer_w.write_all(&rc::encode(&RFrame::ctl(rc::HEART_REQ, 0))).await;
                        settle(tokio::time::Duration::from_millis(20)).await;
                        calls += 1;
                    }
                    Op::Heart => {
                        let _ = within(WATCHDOG, sess.write_control_frame(Frame::control(Command::HeartRequest, 0))).await;
                        calls += 1;
                    }
                }
            }
            settle(tokio::time::Duration::from_millis(50)).await;
            (h.raw(), h.fault_offsets())
        });
        let Some(&e) = offsets.first() else {
            out.class("error-not-reached");
            return Ok(out);
        };
        let kind_name = ["TimedOut", "WouldBlock", "Interrupted", "BrokenPipe"][case.kind as usize % 4];
        let what = if case.flush_k.is_some() { "flush" } else { "write" };
        let (_, used_before) = rc::parse(&raw[..e.min(raw.len())]);
        let cut_inside = used_before != e.min(raw.len());
        let went_on = raw.len() > e;
        if went_on {
            ensure!(
                !cut_inside,
                "C04.after-error",
                "a {what} of the transport failed once ({kind_name}) after {e} bytes, {} bytes into a frame, and the session went on to put {} more bytes behind the incomplete frame: the wire no longer parses as frames (scheme {:?})",
                e - used_before,
                raw.len() - e,
                text
            );
            let (frames, used) = rc::parse(&raw);
            ensure!(used == raw.len(), "C04.after-error", "after a {what} that failed once ({kind_name}) at byte {e} the session went on and left {} bytes that are no complete frame at the end of the wire (scheme {:?})", raw.len() - used, text);
            // whatever it still sent is something it was asked to send, in order (answers may float)
            let is_answer = |f: &RFrame| f.cmd == rc::HEART_RESP && f.sid == 0;
            let want: Vec<&RFrame> = expected_all.iter().filter(|f| !is_answer(f)).collect();
            let mut wi = 0usize;
            for f in frames.iter().filter(|f| f.cmd != rc::WASTE && !is_answer(f)) {
                if f.cmd == rc::SETTINGS {
                    continue;
                }
                while wi < want.len() && want[wi] != f {
                    wi += 1;
                }
                ensure!(wi < want.len(), "C04.after-error", "after a {what} that failed once ({kind_name}) at byte {e} the wire carries a frame cmd={} sid={} len={} that was not submitted (or not in this order) (scheme {:?})", f.cmd, f.sid, f.data.len(), text);
                wi += 1;
            }
        }
        out.nt(cut_inside);
        out.class_if(cut_inside, "failed-write-inside-a-frame");
        out.class_if(!cut_inside, "failed-write-or-flush-on-a-frame-boundary");
        out.class_if(went_on, "session-went-on-writing-after-the-error");
        out.class_if(case.flush_k.is_some(), "flush-failed");
        out.class(match case.kind % 4 { 0 => "kind:TimedOut", 1 => "kind:WouldBlock", 2 => "kind:Interrupted", _ => "kind:BrokenPipe" });
        Ok(out)
    }
}
