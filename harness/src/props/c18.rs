//! C18 — certificate hot-reload is all-or-nothing (fault enumeration over on-disk states).

use crate::engine::*;
use crate::ensure;
use crate::lab_mem::*;
use anytls_rs::util::{CertReloader, CertReloaderConfig, CertificateInfo};
use proptest::prelude::*;
use serde::{Deserialize, Serialize};
use std::sync::{Arc, Mutex, OnceLock};
use tokio::io::{AsyncReadExt, AsyncWriteExt, DuplexStream};
use tokio_rustls::rustls;
use tokio_rustls::rustls::pki_types::{CertificateDer, ServerName, UnixTime};

pub fn property() -> Property {
    Property {
        id: "C18",
        level: "fault_enumeration",
        rule: "a pool of valid (certificate, key) pairs from rcgen (ECDSA P-256 and Ed25519, distinct SANs) plus an expired certificate with its key; histories over a temp directory: WriteCert(x) / WriteKey(y) with x, y in {pool member, truncation prefix of a member, empty, garbage, PEM of the wrong kind, deleted}, Reload, Handshake (in-memory TLS handshake against get_acceptor() and against a snapshot taken the way server.rs takes it, the leaf certificate is captured by the client), PingOld (a TLS connection opened before any reload still carries data); two-file updates are two separate writes with a Reload possible in between. Fixed cases enumerate every truncation prefix of a certificate file and of a key file (quick: one of each in steps, thorough: two of each, every byte). Model = last pair for which a reload succeeded. Non-trivial = a failed reload followed by a handshake, or a reload between the two writes of an update. Distinct = distinct serialized case. Pool members 5 and 6 are chains (a leaf signed by a CA of its own; the certificate file is leaf + CA certificate): every truncation prefix of such a file is enumerated as well - a cut between the complete first block and the properly begun second block, or inside the last line of a block, may load or not; any other cut must fail the reload. Member 7 is member 0 renewed: the same key and the same serial number, another certificate (names, validity) - a reload to it must be served by every later handshake like any other. One client configuration is kept for the whole history (it stores TLS sessions, as a real client's connector does) and handshakes again after every reload next to fresh clients; the certificate a connection is bound to is read from the connection itself, so a resumed session counts as what it is. Three histories in ten (and one fixed case) use configured paths that are symbolic links into a directory of generations: every write creates a new generation file and re-points the link by rename. Two generated cases in five write their files with one preserved old modification time (cp -p, rsync -t) or with modification times that decrease from write to write (a roll-back): what a reload does depends on what the files hold, not on their times.",
        assumptions: vec![
            "rustls/rcgen/tokio-rustls as trusted dependencies; handshakes over tokio::io::duplex",
            "a prefix that ends inside the final PEM line may load or not; serve/info must agree with the result",
            "the notify watcher/debounce trigger is not driven; reload requests are exercised directly",
        ],
        families: vec![(Box::new(ReloadFam), 10_000, 400_000), (Box::new(ListenerFam), 200, 6_000)],
    }
}

struct Member {
    cert_pem: String,
    key_pem: String,
    der: Vec<u8>,
    serial: String,
    expired: bool,
    /// members with the same key_id share one key (a certificate renewed for its old key)
    key_id: usize,
}

fn members() -> &'static Vec<Member> {
    static M: OnceLock<Vec<Member>> = OnceLock::new();
    M.get_or_init(|| {
        let mut v = Vec::new();
        for i in 0..5 {
            let alg = if i % 2 == 0 { &rcgen::PKCS_ECDSA_P256_SHA256 } else { &rcgen::PKCS_ED25519 };
            let key = rcgen::KeyPair::generate_for(alg).expect("keygen");
            let mut params = rcgen::CertificateParams::new(vec![format!("member{i}.test"), "localhost".to_string()]).expect("params");
            params.serial_number = Some(rcgen::SerialNumber::from(vec![0x10 + i as u8, 0x22, 0x33, 0x44, i as u8 + 1]));
            let expired = i == 4;
            if expired {
                params.not_before = rcgen::date_time_ymd(2019, 1, 1);
                params.not_after = rcgen::date_time_ymd(2020, 1, 1);
            }
            let cert = params.self_signed(&key).expect("self sign");
            let cert_pem = cert.pem();
            let serial = CertificateInfo::from_pem_bytes(cert_pem.as_bytes()).expect("analyze").serial_number;
            v.push(Member { cert_pem, key_pem: key.serialize_pem(), der: cert.der().to_vec(), serial, expired, key_id: i });
        }
        // members 5 and 6: a leaf signed by a CA of its own, the certificate file is the chain
        // (leaf first, then the CA certificate) the way "fullchain" files are written
        for i in 5..7 {
            let ca_key = rcgen::KeyPair::generate_for(&rcgen::PKCS_ECDSA_P256_SHA256).expect("keygen");
            let mut ca_params = rcgen::CertificateParams::new(Vec::<String>::new()).expect("params");
            ca_params.is_ca = rcgen::IsCa::Ca(rcgen::BasicConstraints::Unconstrained);
            ca_params.distinguished_name.push(rcgen::DnType::CommonName, format!("verif test CA {i}"));
            ca_params.serial_number = Some(rcgen::SerialNumber::from(vec![0x70 + i as u8, 1, 2, 3]));
            let ca_cert = ca_params.self_signed(&ca_key).expect("ca self sign");
            let issuer = rcgen::Issuer::from_params(&ca_params, &ca_key);
            let alg = if i % 2 == 0 { &rcgen::PKCS_ECDSA_P256_SHA256 } else { &rcgen::PKCS_ED25519 };
            let key = rcgen::KeyPair::generate_for(alg).expect("keygen");
            let mut params = rcgen::CertificateParams::new(vec![format!("member{i}.test"), "localhost".to_string()]).expect("params");
            params.serial_number = Some(rcgen::SerialNumber::from(vec![0x10 + i as u8, 0x22, 0x33, 0x44, i as u8 + 1]));
            let leaf = params.signed_by(&key, &issuer).expect("sign leaf");
            let serial = CertificateInfo::from_pem_bytes(leaf.pem().as_bytes()).expect("analyze").serial_number;
            let cert_pem = format!("{}{}", leaf.pem(), ca_cert.pem());
            v.push(Member { cert_pem, key_pem: key.serialize_pem(), der: leaf.der().to_vec(), serial, expired: false, key_id: i });
        }
        // member 7: member 0 renewed - the same key and the same serial number (serials derived from the
        // key, fixed serials of self-signed set-ups), another certificate (names, validity)
        {
            let key = rcgen::KeyPair::from_pem(&v[0].key_pem).expect("reload key 0");
            let mut params = rcgen::CertificateParams::new(vec!["renewed0.test".to_string(), "localhost".to_string()]).expect("params");
            params.serial_number = Some(rcgen::SerialNumber::from(vec![0x10, 0x22, 0x33, 0x44, 1]));
            params.not_before = rcgen::date_time_ymd(2024, 6, 1);
            params.not_after = rcgen::date_time_ymd(2099, 6, 1);
            let cert = params.self_signed(&key).expect("self sign");
            let cert_pem = cert.pem();
            let serial = CertificateInfo::from_pem_bytes(cert_pem.as_bytes()).expect("analyze").serial_number;
            assert_eq!(serial, v[0].serial, "member 7 must carry member 0's serial number");
            assert_ne!(cert.der().to_vec(), v[0].der);
            let key_pem = v[0].key_pem.clone();
            v.push(Member { cert_pem, key_pem, der: cert.der().to_vec(), serial, expired: false, key_id: 0 });
        }
        v
    })
}

#[derive(Clone, Debug, Serialize, Deserialize, PartialEq)]
pub enum FileState {
    Member(u8),
    /// (member, monotone index into the PEM text length)
    Trunc(u8, u16),
    Empty,
    Garbage,
    WrongKind(u8),
    Deleted,
}

#[derive(Clone, Debug, Serialize, Deserialize)]
pub enum ROp {
    WriteCert(FileState),
    WriteKey(FileState),
    Reload,
    Handshake,
    PingOld,
}

#[derive(Clone, Debug, Serialize, Deserialize)]
pub struct ReloadCase {
    pub initial: u8,
    pub ops: Vec<ROp>,
    /// the configured paths are symbolic links into a directory of generations; an update writes a
    /// new generation and re-points the link (the certbot `live/` -> `archive/` layout)
    #[serde(default)]
    pub symlinked: bool,
    /// modification times of the files that are written: 0 = whatever the clock says, 1 = always the
    /// same old instant (a restore with preserved times: `cp -p`, `rsync -t`), 2 = every write one hour
    /// older than the one before (a roll-back to an earlier pair). What a reload does depends on what the
    /// files hold, not on their times.
    #[serde(default)]
    pub mtime_mode: u8,
}

fn set_mtime(path: &std::path::Path, mode: u8, writes: &mut u64) {
    *writes += 1;
    let base = std::time::UNIX_EPOCH + std::time::Duration::from_secs(1_000_000_000);
    let t = match mode {
        1 => base,
        2 => base - std::time::Duration::from_secs(3600 * *writes),
        _ => return,
    };
    if let Ok(f) = std::fs::File::options().write(true).open(path) {
        let _ = f.set_modified(t);
    }
}

pub struct ReloadFam;

#[derive(Debug)]
struct Capture(Arc<Mutex<Option<Vec<u8>>>>);

impl rustls::client::danger::ServerCertVerifier for Capture {
    fn verify_server_cert(
        &self,
        end_entity: &CertificateDer<'_>,
        _i: &[CertificateDer<'_>],
        _n: &ServerName<'_>,
        _o: &[u8],
        _now: UnixTime,
    ) -> Result<rustls::client::danger::ServerCertVerified, rustls::Error> {
        *self.0.lock().unwrap() = Some(end_entity.as_ref().to_vec());
        Ok(rustls::client::danger::ServerCertVerified::assertion())
    }
    fn verify_tls12_signature(&self, m: &[u8], c: &CertificateDer<'_>, d: &rustls::DigitallySignedStruct) -> Result<rustls::client::danger::HandshakeSignatureValid, rustls::Error> {
        // real signature check: proves that the key in use is the partner of the presented certificate
        rustls::crypto::verify_tls12_signature(m, c, d, &provider().signature_verification_algorithms)
    }
    fn verify_tls13_signature(&self, m: &[u8], c: &CertificateDer<'_>, d: &rustls::DigitallySignedStruct) -> Result<rustls::client::danger::HandshakeSignatureValid, rustls::Error> {
        rustls::crypto::verify_tls13_signature(m, c, d, &provider().signature_verification_algorithms)
    }
    fn supported_verify_schemes(&self) -> Vec<rustls::SignatureScheme> {
        provider().signature_verification_algorithms.supported_schemes()
    }
}

fn provider() -> Arc<rustls::crypto::CryptoProvider> {
    rustls::crypto::CryptoProvider::get_default().cloned().unwrap_or_else(|| {
        // same selection rustls makes for ClientConfig::builder()
        let cfg = anytls_rs::util::tls::create_client_config().expect("client config");
        cfg.crypto_provider().clone()
    })
}

struct Conn {
    c: tokio_rustls::client::TlsStream<DuplexStream>,
    s: tokio_rustls::server::TlsStream<DuplexStream>,
}

/// A client configuration that verifies the handshake signature against the presented certificate
/// and remembers TLS sessions: reused for every handshake of a case, as a real client keeps one
/// connector for all its connections (so that a handshake after a reload may try to *resume*).
fn client_config() -> Result<Arc<rustls::ClientConfig>, String> {
    let cfg = rustls::ClientConfig::builder_with_provider(provider())
        .with_safe_default_protocol_versions()
        .map_err(|e| e.to_string())?
        .dangerous()
        .with_custom_certificate_verifier(Arc::new(Capture(Arc::new(Mutex::new(None)))))
        .with_no_client_auth();
    Ok(Arc::new(cfg))
}

async fn handshake_with(acceptor: Arc<tokio_rustls::TlsAcceptor>, cfg: Arc<rustls::ClientConfig>) -> Result<(Vec<u8>, Conn), String> {
    let connector = tokio_rustls::TlsConnector::from(cfg);
    let (a, b) = tokio::io::duplex(1 << 16);
    let name = ServerName::try_from("localhost").unwrap();
    let (c, s) = tokio::join!(connector.connect(name, a), acceptor.accept(b));
    let c = c.map_err(|e| format!("client side: {e}"))?;
    let s = s.map_err(|e| format!("server side: {e}"))?;
    // the certificate this connection is bound to, as the client sees it (also for a resumed session)
    let der = c.get_ref().1.peer_certificates().and_then(|v| v.first()).map(|c| c.as_ref().to_vec()).ok_or("no certificate seen")?;
    Ok((der, Conn { c, s }))
}

async fn handshake(acceptor: Arc<tokio_rustls::TlsAcceptor>) -> Result<(Vec<u8>, Conn), String> {
    handshake_with(acceptor, client_config()?).await
}

async fn ping(conn: &mut Conn, tag: u8) -> Result<(), String> {
    conn.c.write_all(&[tag, 1, 2, 3]).await.map_err(|e| e.to_string())?;
    conn.c.flush().await.map_err(|e| e.to_string())?;
    let mut b = [0u8; 4];
    conn.s.read_exact(&mut b).await.map_err(|e| e.to_string())?;
    if b != [tag, 1, 2, 3] {
        return Err("payload changed".into());
    }
    conn.s.write_all(&[tag, 9]).await.map_err(|e| e.to_string())?;
    conn.s.flush().await.map_err(|e| e.to_string())?;
    let mut b = [0u8; 2];
    conn.c.read_exact(&mut b).await.map_err(|e| e.to_string())?;
    if b != [tag, 9] {
        return Err("payload changed".into());
    }
    Ok(())
}

/// What a reload must do given the two files: Ok(member) / Err / Either(member).
#[derive(Debug, PartialEq)]
enum Want {
    Ok(usize),
    Err,
    Either(usize),
}

fn classify(cert: &FileState, key: &FileState) -> Want {
    let ms = members();
    let side = |f: &FileState, is_cert: bool| -> (Option<usize>, bool, bool) {
        // (member, complete, either-zone)
        match f {
            FileState::Member(i) => (Some(*i as usize % ms.len()), true, false),
            FileState::Trunc(i, n) => {
                let i = *i as usize % ms.len();
                let text = if is_cert { &ms[i].cert_pem } else { &ms[i].key_pem };
                let k = idx(*n, text.len() + 1);
                let end_line = text.rfind("-----END").unwrap();
                // a chain file: a cut after the complete first block and before the second block has
                // properly begun leaves a valid leaf-only file (possibly with junk behind it); inside the
                // last line of either block the file may load or not; anywhere else it is truncated
                const BEGIN: &str = "-----BEGIN CERTIFICATE-----";
                const END: &str = "-----END CERTIFICATE-----";
                let second_begin = text.match_indices(BEGIN).nth(1).map(|m| m.0);
                let first_end_line = text.find("-----END").unwrap();
                if k == text.len() {
                    (Some(i), true, false)
                } else if k > end_line {
                    (Some(i), false, true)
                } else if is_cert && second_begin.is_some() && k > first_end_line && k <= second_begin.unwrap() + BEGIN.len() {
                    let _ = END;
                    (Some(i), false, true)
                } else {
                    (None, false, false)
                }
            }
            _ => (None, false, false),
        }
    };
    let (ci, cc, ce) = side(cert, true);
    let (ki, kc, ke) = side(key, false);
    match (ci, ki) {
        (Some(a), Some(b)) if ms[a].key_id == ms[b].key_id && !ms[a].expired => {
            if cc && kc {
                Want::Ok(a)
            } else if (cc || ce) && (kc || ke) {
                Want::Either(a)
            } else {
                Want::Err
            }
        }
        _ => Want::Err,
    }
}

/// As `write_state`, for a path that is a symbolic link: the content goes into a new file of the
/// `archive` directory next to it and the link is re-pointed (atomically, by rename).
fn write_state_linked(link: &std::path::Path, f: &FileState, is_cert: bool, generation: &mut u32) {
    let dir = link.parent().unwrap();
    let archive = dir.join("archive");
    let _ = std::fs::create_dir_all(&archive);
    if *f == FileState::Deleted {
        let _ = std::fs::remove_file(link);
        return;
    }
    *generation += 1;
    let real = archive.join(format!("{}{}.pem", if is_cert { "cert" } else { "key" }, generation));
    write_state(&real, f, is_cert);
    let tmp = dir.join(format!(".tmp-link-{}", generation));
    let _ = std::fs::remove_file(&tmp);
    let _ = std::os::unix::fs::symlink(&real, &tmp);
    let _ = std::fs::rename(&tmp, link);
}

fn write_state(path: &std::path::Path, f: &FileState, is_cert: bool) {
    let ms = members();
    let _ = match f {
        FileState::Member(i) => std::fs::write(path, if is_cert { &ms[*i as usize % ms.len()].cert_pem } else { &ms[*i as usize % ms.len()].key_pem }),
        FileState::Trunc(i, n) => {
            let text = if is_cert { &ms[*i as usize % ms.len()].cert_pem } else { &ms[*i as usize % ms.len()].key_pem };
            let k = idx(*n, text.len() + 1);
            std::fs::write(path, &text.as_bytes()[..k])
        }
        FileState::Empty => std::fs::write(path, b""),
        FileState::Garbage => std::fs::write(path, b"-----BEGIN CERTIFICATE-----\nnot base64 at all !!!\n-----END CERTIFICATE-----\n\x00\x01garbage"),
        FileState::WrongKind(i) => std::fs::write(path, if is_cert { &ms[*i as usize % ms.len()].key_pem } else { &ms[*i as usize % ms.len()].cert_pem }),
        FileState::Deleted => {
            let _ = std::fs::remove_file(path);
            Ok(())
        }
    };
}

fn state_strategy() -> BoxedStrategy<FileState> {
    prop_oneof![
        6 => (0u8..8).prop_map(FileState::Member),
        3 => (prop_oneof![0u8..4, 5u8..7], any::<u16>()).prop_map(|(i, n)| FileState::Trunc(i, n)),
        1 => (prop_oneof![0u8..4, 5u8..7], 64000u16..=65535).prop_map(|(i, n)| FileState::Trunc(i, n)),
        1 => Just(FileState::Empty),
        1 => Just(FileState::Garbage),
        1 => (0u8..4).prop_map(FileState::WrongKind),
        1 => Just(FileState::Deleted),
    ]
    .boxed()
}

impl Family for ReloadFam {
    type Case = ReloadCase;
    fn name(&self) -> &'static str {
        "reload"
    }
    fn strategy(&self, _tier: Tier) -> BoxedStrategy<ReloadCase> {
        let op = prop_oneof![
            3 => state_strategy().prop_map(ROp::WriteCert),
            3 => state_strategy().prop_map(ROp::WriteKey),
            4 => Just(ROp::Reload),
            3 => Just(ROp::Handshake),
            1 => Just(ROp::PingOld),
        ];
        (0u8..4, proptest::collection::vec(op, 1..16), proptest::bool::weighted(0.3), prop_oneof![3 => Just(0u8), 1 => Just(1u8), 1 => Just(2u8)]).prop_map(|(initial, ops, symlinked, mtime_mode)| ReloadCase { initial, ops, symlinked, mtime_mode }).boxed()
    }
    fn fixed_cases(&self, tier: Tier) -> Vec<ReloadCase> {
        let ms = members();
        let mut v = Vec::new();
        // (member 5: a chain file - leaf + CA certificate)
        let which: &[usize] = if tier == Tier::Thorough { &[1, 2, 5, 6] } else { &[1, 5] };
        for &i in which {
            for is_cert in [true, false] {
                let len = if is_cert { ms[i].cert_pem.len() } else { ms[i].key_pem.len() };
                let step = if tier == Tier::Thorough { 1 } else { 7 };
                let mut n = 0usize;
                while n <= len {
                    let mut t = ((n << 16) / (len + 1)) as u16;
                    while idx(t, len + 1) < n {
                        t += 1;
                    }
                    let st = FileState::Trunc(i as u8, t);
                    // a two-file update from member 0 to member i whose one file is only written up to n
                    let ops = if is_cert {
                        vec![ROp::WriteKey(FileState::Member(i as u8)), ROp::WriteCert(st), ROp::Reload, ROp::Handshake, ROp::PingOld]
                    } else {
                        vec![ROp::WriteCert(FileState::Member(i as u8)), ROp::WriteKey(st), ROp::Reload, ROp::Handshake, ROp::PingOld]
                    };
                    v.push(ReloadCase { initial: 0, ops, symlinked: false, mtime_mode: 0 });
                    n += step;
                }
            }
        }
        // updates published by re-pointing symbolic links
        v.push(ReloadCase { initial: 0, ops: vec![ROp::WriteKey(FileState::Member(1)), ROp::WriteCert(FileState::Member(1)), ROp::Reload, ROp::Handshake, ROp::WriteKey(FileState::Member(2)), ROp::WriteCert(FileState::Member(2)), ROp::Reload, ROp::Handshake, ROp::PingOld], symlinked: true, mtime_mode: 0 });
        // a renewal that keeps key and serial number: only the certificate file changes, there and back
        v.push(ReloadCase { initial: 0, ops: vec![ROp::WriteCert(FileState::Member(7)), ROp::Reload, ROp::Handshake, ROp::Handshake, ROp::WriteCert(FileState::Member(0)), ROp::Reload, ROp::Handshake, ROp::PingOld], symlinked: false, mtime_mode: 0 });
        // reload landing between the two writes of an update, both orders
        for (a, b) in [(0u8, 1u8), (1, 2), (2, 3), (3, 0)] {
            v.push(ReloadCase { initial: a, ops: vec![ROp::WriteCert(FileState::Member(b)), ROp::Reload, ROp::Handshake, ROp::WriteKey(FileState::Member(b)), ROp::Reload, ROp::Handshake, ROp::PingOld], symlinked: false, mtime_mode: 0 });
            v.push(ReloadCase { initial: a, ops: vec![ROp::WriteKey(FileState::Member(b)), ROp::Reload, ROp::Handshake, ROp::WriteCert(FileState::Member(b)), ROp::Reload, ROp::Handshake, ROp::PingOld], symlinked: false, mtime_mode: 0 });
            v.push(ReloadCase { initial: a, ops: vec![ROp::WriteCert(FileState::Member(4)), ROp::WriteKey(FileState::Member(4)), ROp::Reload, ROp::Handshake], symlinked: false, mtime_mode: 0 });
        }
        v
    }
    fn run(&self, case: &ReloadCase, _cx: &CaseCtx) -> CaseResult {
        let mut out = Outcome::new();
        let ms = members();
        let c = case.clone();
        let res: Result<(bool, bool), Fail> = run_virtual(async move {
            let case = c;
            let dir = tempfile::tempdir().map_err(|e| Fail::plain("C18.infra", format!("tempdir: {e}")))?;
            let cert_path = dir.path().join("cert.pem");
            let key_path = dir.path().join("key.pem");
            let init = case.initial as usize % 4;
            let mut cert_state = FileState::Member(init as u8);
            let mut key_state = FileState::Member(init as u8);
            let mut generation = 0u32;
            let linked = case.symlinked;
            let mtime_mode = case.mtime_mode;
            let mut n_writes = 0u64;
            let mut put = |path: &std::path::Path, f: &FileState, is_cert: bool, generation: &mut u32| {
                if linked {
                    write_state_linked(path, f, is_cert, generation)
                } else {
                    write_state(path, f, is_cert)
                }
                set_mtime(path, mtime_mode, &mut n_writes);
            };
            put(&cert_path, &cert_state, true, &mut generation);
            put(&key_path, &key_state, false, &mut generation);
            let cfg = CertReloaderConfig { cert_path: cert_path.clone(), key_path: key_path.clone(), watch_enabled: false, debounce_ms: 0, check_expiry: true, expiry_warning_days: 30 };
            let rel = match CertReloader::new(cfg) {
                Ok(r) => r,
                Err(e) => return Err(Fail::plain("C18.result", format!("initial load of a valid pair failed: {e}"))),
            };
            let mut active = init;
            let mut count = 0u64;
            let mut last_reload = rel.get_last_reload();
            // one client for the whole history (it keeps TLS sessions for resumption), next to fresh ones
            let keeper = client_config().map_err(|e| Fail::plain("C18.infra", e))?;
            let (der0, mut old) = handshake_with(rel.get_acceptor(), keeper.clone()).await.map_err(|e| Fail::plain("C18.serve", format!("initial handshake failed: {e}")))?;
            // (data in both directions: the client has the server's session tickets now)
            ping(&mut old, 1).await.map_err(|e| Fail::plain("C18.serve", format!("initial connection cannot carry data: {e}")))?;
            ensure!(der0 == ms[active].der, "C18.serve", "initial handshake presented another certificate");
            let mut failed_reload_pending = false;
            let mut nt_failed_then_handshake = false;
            let mut nt_between = false;
            let mut cert_written = None;
            let mut key_written = None;
            for (step, op) in case.ops.iter().enumerate() {
                match op {
                    ROp::WriteCert(f) => {
                        put(&cert_path, f, true, &mut generation);
                        cert_state = f.clone();
                        cert_written = Some(step);
                    }
                    ROp::WriteKey(f) => {
                        put(&key_path, f, false, &mut generation);
                        key_state = f.clone();
                        key_written = Some(step);
                    }
                    ROp::Reload => {
                        let want = classify(&cert_state, &key_state);
                        if cert_written.is_some() != key_written.is_some() {
                            nt_between = true;
                        }
                        let r = rel.reload();
                        let tag = format!("step {step}: reload with cert file {:?} and key file {:?}", cert_state, key_state);
                        match (&want, &r) {
                            (Want::Ok(_), Err(e)) => return Err(Fail::plain("C18.result", format!("{tag} failed although the files hold a complete, matching, unexpired pair: {e}"))),
                            (Want::Err, Ok(())) => {
                                return Err(Fail::new(
                                    "C18.result",
                                    format!("C18.result:accepted:{}", reason(&cert_state, &key_state)),
                                    format!("{tag} succeeded although the files do not hold a valid pair ({})", reason(&cert_state, &key_state)),
                                ));
                            }
                            _ => {}
                        }
                        if r.is_ok() {
                            active = match want {
                                Want::Ok(i) | Want::Either(i) => i,
                                Want::Err => unreachable!(),
                            };
                            count += 1;
                            ensure!(rel.get_last_reload().is_some() && rel.get_last_reload() != last_reload || count > 1, "C18.info", "{tag}: last reload time not set after a successful reload");
                            last_reload = rel.get_last_reload();
                            failed_reload_pending = false;
                            cert_written = None;
                            key_written = None;
                        } else {
                            failed_reload_pending = true;
                            ensure!(rel.get_last_reload() == last_reload, "C18.info", "{tag}: failed, but the last-reload time changed");
                        }
                        // info and counters agree with the model after every reload attempt
                        ensure!(rel.get_reload_count() == count, "C18.info", "{tag}: reload count is {}, {} reloads succeeded", rel.get_reload_count(), count);
                        let info = rel.get_cert_info();
                        ensure!(
                            info.as_ref().map(|i| i.serial_number.clone()) == Some(ms[active].serial.clone()),
                            "C18.info",
                            "{tag} ({}): reported certificate serial {:?}, active certificate has {}",
                            if r.is_ok() { "succeeded" } else { "failed" },
                            info.map(|i| i.serial_number),
                            ms[active].serial
                        );
                    }
                    ROp::Handshake => {
                        if failed_reload_pending {
                            nt_failed_then_handshake = true;
                        }
                        // both ways of obtaining the acceptor
                        let snap = rel.get_acceptor_ref().read().unwrap().clone();
                        for (how, acc, cfg) in [
                            ("get_acceptor()", rel.get_acceptor(), client_config().map_err(|e| Fail::plain("C18.infra", e))?),
                            ("server-style snapshot", snap.clone(), client_config().map_err(|e| Fail::plain("C18.infra", e))?),
                            ("server-style snapshot, a client that connected before and keeps its TLS sessions", snap, keeper.clone()),
                        ] {
                            match handshake_with(acc, cfg).await {
                                Ok((der, mut conn)) => {
                                    ensure!(
                                        der == ms[active].der,
                                        "C18.serve",
                                        "step {step}: handshake via {how} presented {} instead of the active certificate member{active}",
                                        ms.iter().position(|m| m.der == der).map(|i| format!("member{i}")).unwrap_or("an unknown certificate".into())
                                    );
                                    ping(&mut conn, 7).await.map_err(|e| Fail::plain("C18.serve", format!("step {step}: fresh connection cannot carry data: {e}")))?;
                                }
                                Err(e) => {
                                    return Err(Fail::plain(
                                        "C18.serve",
                                        format!("step {step}: handshake via {how} failed ({e}); active pair is member{active}, files: cert {:?}, key {:?}", cert_state, key_state),
                                    ));
                                }
                            }
                        }
                    }
                    ROp::PingOld => {
                        ping(&mut old, step as u8).await.map_err(|e| Fail::plain("C18.old", format!("step {step}: the connection opened before any reload stopped working: {e}")))?;
                    }
                }
            }
            Ok((nt_failed_then_handshake, nt_between))
        });
        let (a, b) = res?;
        out.nt(a || b);
        out.class_if(a, "failed-reload-then-handshake");
        out.class_if(b, "reload-between-two-writes");
        out.class_if(case.ops.iter().any(|o| matches!(o, ROp::WriteCert(FileState::Trunc(..)) | ROp::WriteKey(FileState::Trunc(..)))), "truncated-file");
        out.class_if(case.ops.iter().any(|o| matches!(o, ROp::WriteCert(FileState::Member(4)))), "expired-cert");
        out.class_if(case.symlinked, "paths-are-symbolic-links");
        out.class_if(case.mtime_mode == 1, "files-written-with-one-preserved-old-mtime");
        out.class_if(case.mtime_mode == 2, "every-write-older-than-the-one-before");
        Ok(out)
    }
}

fn reason(cert: &FileState, key: &FileState) -> &'static str {
    let ms = members();
    match (cert, key) {
        (FileState::Member(a), FileState::Member(b)) if a != b => "key does not match the certificate",
        (FileState::Member(a), FileState::Member(_)) if ms[*a as usize % ms.len()].expired => "expired certificate",
        (FileState::Trunc(..), _) | (_, FileState::Trunc(..)) => "truncated file",
        (FileState::Deleted, _) | (_, FileState::Deleted) => "missing file",
        (FileState::WrongKind(_), _) | (_, FileState::WrongKind(_)) => "PEM of the wrong kind",
        _ => "empty or garbled file",
    }
}

// ------------------------------------------------------------------------------------------
// family `listener` (Lab-S): the real Server built with new_with_reloadable_tls serves, on every
// new connection, the certificate of the last successful reload (the accept path of server.rs)

use crate::lab_sock::{PASSWORD, free_port, infra, run_real, wait_listening, worker_ip};

#[derive(Clone, Debug, Serialize, Deserialize)]
pub struct ListenerCase {
    pub initial: u8,
    /// steps: (member to write, write both files?, garbage instead?)
    pub steps: Vec<(u8, bool, bool)>,
}

pub struct ListenerFam;

async fn tcp_leaf(addr: std::net::SocketAddr) -> Result<Vec<u8>, String> {
    let seen = Arc::new(Mutex::new(None));
    let cfg = rustls::ClientConfig::builder_with_provider(provider())
        .with_safe_default_protocol_versions()
        .map_err(|e| e.to_string())?
        .dangerous()
        .with_custom_certificate_verifier(Arc::new(Capture(seen.clone())))
        .with_no_client_auth();
    let connector = tokio_rustls::TlsConnector::from(Arc::new(cfg));
    let tcp = tokio::net::TcpStream::connect(addr).await.map_err(|e| e.to_string())?;
    let name = ServerName::try_from("localhost").unwrap();
    let _tls = connector.connect(name, tcp).await.map_err(|e| format!("handshake: {e}"))?;
    let der = seen.lock().unwrap().clone().ok_or("no certificate seen")?;
    Ok(der)
}

impl Family for ListenerFam {
    type Case = ListenerCase;
    fn name(&self) -> &'static str {
        "listener"
    }
    fn strategy(&self, _tier: Tier) -> BoxedStrategy<ListenerCase> {
        (0u8..4, proptest::collection::vec((0u8..4, proptest::bool::weighted(0.8), proptest::bool::weighted(0.2)), 1..5)).prop_map(|(initial, steps)| ListenerCase { initial, steps }).boxed()
    }
    fn case_budget_s(&self) -> u64 {
        90
    }
    fn run(&self, case: &ListenerCase, _cx: &CaseCtx) -> CaseResult {
        let mut out = Outcome::new();
        let ms = members();
        let c = case.clone();
        let r: Result<bool, Fail> = run_real(async move {
            let case = c;
            let dir = tempfile::tempdir().map_err(|e| infra(format!("tempdir: {e}")))?;
            let cert_path = dir.path().join("cert.pem");
            let key_path = dir.path().join("key.pem");
            let mut active = case.initial as usize % 4;
            write_state(&cert_path, &FileState::Member(active as u8), true);
            write_state(&key_path, &FileState::Member(active as u8), false);
            let cfg = CertReloaderConfig { cert_path: cert_path.clone(), key_path: key_path.clone(), watch_enabled: false, debounce_ms: 0, check_expiry: true, expiry_warning_days: 30 };
            let rel = CertReloader::new(cfg).map_err(|e| Fail::plain("C18.result", format!("initial load failed: {e}")))?;
            let ip = std::net::IpAddr::V4(worker_ip());
            let addr = std::net::SocketAddr::new(ip, free_port(ip)?);
            let server = anytls_rs::server::Server::new_with_reloadable_tls(PASSWORD, rel.get_acceptor_ref(), default_padding(), None);
            let a = addr.to_string();
            tokio::spawn(async move {
                let _ = server.listen(&a).await;
            });
            wait_listening(addr).await?;
            let der = tcp_leaf(addr).await.map_err(|e| Fail::plain("C18.serve", format!("initial connection: {e}")))?;
            ensure!(der == ms[active].der, "C18.serve", "the listener presented another certificate than the initial pair");
            let mut failed_seen = false;
            for (si, (m, both, garbage)) in case.steps.iter().enumerate() {
                let m = *m as usize % 4;
                if *garbage {
                    write_state(&cert_path, &FileState::Garbage, true);
                } else {
                    write_state(&cert_path, &FileState::Member(m as u8), true);
                    if *both {
                        write_state(&key_path, &FileState::Member(m as u8), false);
                    }
                }
                let r = rel.reload();
                // what is on disk now
                let key_member = if *both && !*garbage { m } else { usize::MAX };
                let _ = key_member;
                if r.is_ok() {
                    active = m;
                } else {
                    failed_seen = true;
                }
                let der = tcp_leaf(addr).await.map_err(|e| Fail::plain("C18.serve", format!("step {si}: new connection after a {} reload fails: {e}", if r.is_ok() { "successful" } else { "failed" })))?;
                ensure!(
                    der == ms[active].der,
                    "C18.serve",
                    "step {si}: after a {} reload the listener presents {} on new connections, the active pair is member{active}",
                    if r.is_ok() { "successful" } else { "failed" },
                    ms.iter().position(|x| x.der == der).map(|i| format!("member{i}")).unwrap_or("an unknown certificate".into())
                );
            }
            Ok(failed_seen)
        });
        let failed = r?;
        out.nt(true);
        out.class_if(failed, "failed-reload-then-connection");
        Ok(out)
    }
}
