//! C07 — traffic goes to exactly the destination that was requested.

use crate::engine::*;
use crate::ensure;
use crate::lab_mem::pipe::PipeParams;
use crate::lab_mem::*;
use crate::lab_sock::dns::*;
use crate::lab_sock::world::*;
use crate::lab_sock::{Dest, TcpTarget, infra, socks5_connect, wait_until, worker_ip_n};
use crate::props::c01;
use crate::reference::codec::{self as rc, RFrame};
use anytls_rs::client::Client;
use proptest::prelude::*;
use serde::{Deserialize, Serialize};
use std::net::{IpAddr, Ipv4Addr, Ipv6Addr};
use std::sync::Arc;
use tokio::io::{AsyncReadExt, AsyncWriteExt};
use tokio::time::Duration;

pub fn property() -> Property {
    Property {
        id: "C07",
        level: "exploration",
        rule: "family `codec` (Lab-M): destinations (IPv4 octet classes; IPv6 ::, ::1, v4-mapped, full, zero runs; names of 1, 2, 63, 64, 253, 254, 255 bytes in LDH and UTF-8, names > 255 bytes which must be refused, names that look like addresses; ports 0, 1, 80, 255, 256, 443, 65535, random) through the real Client::create_proxy_stream on an in-memory session, a fragmenting pipe and the real server-side destination parser (H5), and reference-encoded destinations split across data frames at every position into the same parser; the client's bytes are also decoded by the reference. Family `resolve`: histories of resolve_host_with_cache(H, P) against a fake DNS (names with 1-3 loopback addresses, same host with other ports, other hosts, literal IPs, cache ageing within and beyond the TTL via H7). Family `dial` (Lab-S): request histories by name through the SOCKS5 front-end or the HTTP front-end (CONNECT, origin-form with Host and a URL of another listener in the query, absolute-form with '@other:port' in the path), real client and real server to listeners on distinct loopback addresses and ports. Non-trivial = one host requested with >= 2 ports inside the TTL, a name >= 254 bytes, an IPv6 destination, or a header split inside the address. Distinct = distinct serialized case. Family `tunnel` (shared with C15): UDP associations through the real client and server to a recording target on IPv4 / IPv6 loopback with a decoy socket and, in three cases of ten, a stray datagram from a third socket to the server's relay socket in mid-association - every datagram of the application must arrive at the requested target and nowhere else. Family `front` (Lab-S): 1-7 requests per case through the real SOCKS5 listener (ATYP 1/3/4), HTTP CONNECT, HTTP origin-form + Host and HTTP absolute-form, real client, TLS, to the reference server, which records the destination header of every stream, answers SYNACK and echoes; hosts: boundary and random IPv4/IPv6 (v4-mapped, link-local, all-ones), LDH names of 1, 2, 3, 63, 64, 127, 128, 129, 200, 253, 254, 255 and random lengths, digit-and-dot names; ports 1, 80, 255, 256, 443, 8080, 32767, 32768, 65280, 65535, random, or the scheme's default; delivery whole / byte at a time / generated cuts. Oracle: exactly one stream per request whose destination decodes (reference SOCKS address codec) to the requested host and port; bytes sent after the request come back unchanged. In the resolve family names move (the fake DNS, which answers with TTL 0 so that the resolver library caches nothing itself, changes its answer); the model keeps the age of each name's cache entry (ageing through the per-host hook) and the addresses the DNS gave when the entry was made: inside the 60 s lifetime an answer may come from the entry or from the current DNS data, beyond it only from the current data. One dial request in four names a port of the (possibly cached) host where nothing listens: it must be refused and no listener may be dialled in its place.",
        assumptions: vec![
            "reference SOCKS address codec in this module; fake DNS in harness/src/lab_sock/dns.rs installed through the crate's public set_custom_dns_servers",
            "H7 ages cache entries (the cache uses std::time::Instant)",
            "kernel loopback for the dial family",
        ],
        families: vec![(Box::new(CodecFam), 100_000, 2_000_000), (Box::new(ResolveFam), 3_000, 100_000), (Box::new(DialFam), 100, 2_000), (Box::new(crate::props::front::FrontFam), 300, 3_000), (Box::new(crate::props::c15::TunnelFam), 60, 1_500)],
    }
}

// ------------------------------------------------------------------------------------------
// reference SOCKS address codec

#[derive(Clone, Debug, Serialize, Deserialize, PartialEq)]
pub enum HostGen {
    V4([u8; 4]),
    V6([u16; 8]),
    /// (length in bytes, style): style 0 = LDH, 1 = UTF-8 (multi-byte), 2 = digits and dots
    Name(u16, u8),
    Literal(String),
}

pub fn host_text(h: &HostGen) -> String {
    match h {
        HostGen::V4(o) => Ipv4Addr::from(*o).to_string(),
        HostGen::V6(s) => Ipv6Addr::new(s[0], s[1], s[2], s[3], s[4], s[5], s[6], s[7]).to_string(),
        HostGen::Literal(s) => s.clone(),
        HostGen::Name(len, style) => {
            let len = *len as usize;
            let mut s = String::new();
            match style % 3 {
                0 => {
                    let alphabet = b"abcdefghijklmnopqrstuvwxyz0123456789-";
                    let mut i = 0usize;
                    while s.len() < len {
                        if i % 17 == 16 && s.len() + 1 < len {
                            s.push('.');
                        } else {
                            s.push(alphabet[(i * 7 + len) % 36] as char);
                        }
                        i += 1;
                    }
                }
                1 => {
                    let pieces = ["é", "名", "x", "ü", "-", "domän", "."];
                    let mut i = 0usize;
                    while s.len() < len {
                        let p = pieces[(i + len) % pieces.len()];
                        if s.len() + p.len() <= len {
                            s.push_str(p);
                        } else {
                            s.push('a');
                        }
                        i += 1;
                    }
                }
                _ => {
                    let mut i = 0usize;
                    while s.len() < len {
                        s.push(if i % 4 == 3 { '.' } else { (b'0' + ((i * 3 + len) % 10) as u8) as char });
                        i += 1;
                    }
                    // make sure it is not accidentally a valid IPv4 literal unless tiny
                    if s.parse::<Ipv4Addr>().is_ok() && len > 1 {
                        s.pop();
                        s.push('x');
                    }
                }
            }
            s
        }
    }
}

/// Reference encoding of a destination as a conforming client must send it.
pub fn ref_encode(host: &str, port: u16) -> Option<Vec<u8>> {
    let mut v = Vec::new();
    if let Ok(ip) = host.parse::<Ipv4Addr>() {
        v.push(1);
        v.extend_from_slice(&ip.octets());
    } else if let Ok(ip) = host.parse::<Ipv6Addr>() {
        v.push(4);
        v.extend_from_slice(&ip.octets());
    } else {
        if host.is_empty() || host.len() > 255 {
            return None;
        }
        v.push(3);
        v.push(host.len() as u8);
        v.extend_from_slice(host.as_bytes());
    }
    v.extend_from_slice(&port.to_be_bytes());
    Some(v)
}

pub fn ref_decode(b: &[u8]) -> Option<(String, u16, usize)> {
    let (host, n) = match *b.first()? {
        1 => (Ipv4Addr::new(*b.get(1)?, *b.get(2)?, *b.get(3)?, *b.get(4)?).to_string(), 5),
        4 => {
            let o: [u8; 16] = b.get(1..17)?.try_into().ok()?;
            (Ipv6Addr::from(o).to_string(), 17)
        }
        3 => {
            let l = *b.get(1)? as usize;
            (String::from_utf8(b.get(2..2 + l)?.to_vec()).ok()?, 2 + l)
        }
        _ => return None,
    };
    let p = u16::from_be_bytes([*b.get(n)?, *b.get(n + 1)?]);
    Some((host, p, n + 2))
}

pub fn same_dest(a: &str, b: &str) -> bool {
    a == b || matches!((a.parse::<IpAddr>(), b.parse::<IpAddr>()), (Ok(x), Ok(y)) if x == y)
}

// ------------------------------------------------------------------------------------------
// family `codec`

#[derive(Clone, Debug, Serialize, Deserialize)]
pub struct CodecCase {
    pub host: HostGen,
    pub port: u16,
    /// true: through the real client; false: reference-encoded bytes from a scripted peer
    pub via_client: bool,
    pub pipe: PipeParams,
    /// scripted path: where the destination bytes are cut into separate data frames
    pub frame_cuts: Vec<u16>,
    /// payload following the destination in the same frame
    pub trailer: usize,
}

pub struct CodecFam;

fn host_strategy() -> BoxedStrategy<HostGen> {
    prop_oneof![
        3 => prop_oneof![Just([0u8, 0, 0, 0]), Just([127u8, 0, 0, 1]), Just([255u8; 4]), Just([1u8, 2, 3, 4]), Just([10u8, 0, 255, 1]), any::<[u8; 4]>()].prop_map(HostGen::V4),
        3 => prop_oneof![
            Just([0u16; 8]),
            Just([0u16, 0, 0, 0, 0, 0, 0, 1]),
            Just([0u16, 0, 0, 0, 0, 0xffff, 0x0102, 0x0304]),
            Just([0x2001u16, 0xdb8, 0, 0, 1, 0, 0, 1]),
            Just([0xffffu16; 8]),
            any::<[u16; 8]>(),
        ]
        .prop_map(HostGen::V6),
        6 => (prop_oneof![Just(1u16), Just(2), Just(63), Just(64), Just(253), Just(254), Just(255), 3u16..253], 0u8..3).prop_map(|(l, s)| HostGen::Name(l, s)),
        2 => (prop_oneof![Just(256u16), Just(257), Just(300), Just(1000)], 0u8..2).prop_map(|(l, s)| HostGen::Name(l, s)),
        2 => prop_oneof![
            Just("localhost".to_string()),
            Just("01.2.3.4".to_string()),
            Just("1.2.3".to_string()),
            Just("1.2.3.4.".to_string()),
            Just("[::1]".to_string()),
            Just("::ffff:1.2.3.4".to_string()),
            Just("sp.v2.udp-over-tcp.arpa".to_string()),
            Just("example.com:80".to_string()),
            Just("0x7f.1".to_string()),
        ]
        .prop_map(HostGen::Literal),
    ]
    .boxed()
}

fn port_strategy() -> BoxedStrategy<u16> {
    prop_oneof![Just(0u16), Just(1), Just(80), Just(255), Just(256), Just(443), Just(65535), any::<u16>()].boxed()
}

impl Family for CodecFam {
    type Case = CodecCase;
    fn name(&self) -> &'static str {
        "codec"
    }
    fn strategy(&self, _tier: Tier) -> BoxedStrategy<CodecCase> {
        (host_strategy(), port_strategy(), any::<bool>(), c01::pipe_params(), proptest::collection::vec(any::<u16>(), 0..4), prop_oneof![Just(0usize), Just(5), Just(300)])
            .prop_map(|(host, port, via_client, pipe, frame_cuts, trailer)| CodecCase { host, port, via_client, pipe, frame_cuts, trailer })
            .boxed()
    }
    fn fixed_cases(&self, _tier: Tier) -> Vec<CodecCase> {
        // reference-encoded destination cut into two frames at every position
        let mut v = Vec::new();
        for host in [HostGen::V4([10, 1, 2, 3]), HostGen::V6([0x2001, 0xdb8, 0, 0, 0, 0, 0, 7]), HostGen::Name(20, 0)] {
            let len = ref_encode(&host_text(&host), 443).unwrap().len();
            for cut in 1..len {
                let mut t = ((cut << 16) / (len + 1)) as u16;
                while idx(t, len + 1) < cut {
                    t += 1;
                }
                v.push(CodecCase { host: host.clone(), port: 443, via_client: false, pipe: PipeParams::default(), frame_cuts: vec![t], trailer: 3 });
            }
        }
        v
    }
    fn run(&self, case: &CodecCase, _cx: &CaseCtx) -> CaseResult {
        let mut out = Outcome::new();
        let host = host_text(&case.host);
        let port = case.port;
        let c = case.clone();
        let h2 = host.clone();
        let res: Result<bool, Fail> = run_virtual(async move {
            let case = c;
            let host = h2;
            let p = c01::bound_work(&case.pipe, 2048);
            let mut l = link(p, PipeParams::default());
            let c2s = l.c2s.clone();
            let (server, mut rx, _t) = server_session(&mut l, default_padding());
            let encodable = ref_encode(&host, port);
            if case.via_client {
                let tls = Arc::new(tokio_rustls::TlsConnector::from(anytls_rs::util::tls::create_client_config().expect("tls")));
                let name = tokio_rustls::rustls::pki_types::ServerName::try_from("localhost").unwrap();
                let client = Arc::new(Client::new("pw", "127.0.0.1:1".to_string(), name, tls, default_padding()));
                client.stop_session_pool_cleanup().await;
                let pool = client.verif_session_pool();
                let sess = client_session(&mut l, default_padding(), None);
                sess.set_seq(pool.next_seq());
                within(WATCHDOG, sess.clone().start_client()).await;
                pool.add_idle_session(sess.clone()).await;
                let cl = client.clone();
                let hh = host.clone();
                let call = tokio::spawn(async move { cl.create_proxy_stream((hh, port)).await.map(|(s, _)| s.id()).map_err(|e| e.to_string()) });
                if encodable.is_none() {
                    // must be refused, never truncated
                    let r = within(WATCHDOG, call).await;
                    let r = match r {
                        Some(Ok(r)) => r,
                        _ => return Err(Fail::plain("C07.codec", "create_proxy_stream did not return for an unencodable host")),
                    };
                    ensure!(r.is_err(), "C07.codec", "a {}-byte host name cannot be encoded but the request succeeded", host.len());
                    settle(Duration::from_millis(10)).await;
                    // nothing that decodes as a destination may have been sent for it
                    let (frames, _) = rc::parse(&c2s.raw());
                    let psh: Vec<u8> = frames.iter().filter(|f| f.cmd == rc::PSH).flat_map(|f| f.data.iter().copied()).collect();
                    ensure!(ref_decode(&psh).is_none(), "C07.codec", "a truncated/altered destination was sent for an over-long host name: {:?}", ref_decode(&psh).map(|d| (d.0.len(), d.1)));
                    return Ok(false);
                }
                let Some(st) = within(WATCHDOG, rx.recv()).await.flatten() else {
                    return Err(Fail::plain("C07.codec", "the server never saw the stream"));
                };
                let sid = st.id();
                let got = within(WATCHDOG, anytls_rs::server::handler::verif_read_socks_addr(st)).await;
                let _ = server.write_control_frame(anytls_rs::protocol::Frame::control(anytls_rs::protocol::Command::SynAck, sid)).await;
                let (h, p) = match got {
                    Some(Ok(x)) => x,
                    Some(Err(e)) => return Err(Fail::plain("C07.codec", format!("the server could not decode the destination {:?}:{port} ({} bytes) sent by the client: {e}", host, host.len()))),
                    None => return Err(Fail::plain("C07.codec", "the server-side destination parser did not return")),
                };
                ensure!(
                    same_dest(&h, &host) && p == port,
                    "C07.codec",
                    "requested {:?}:{port}, the server decoded {:?}:{p}",
                    host,
                    h
                );
                let r = within(WATCHDOG, call).await;
                ensure!(matches!(r, Some(Ok(Ok(_)))), "C07.codec", "create_proxy_stream failed: {:?}", r);
                // the client's bytes under the reference decoder
                let (frames, _) = rc::parse(&c2s.raw());
                let psh: Vec<u8> = frames.iter().filter(|f| f.cmd == rc::PSH && f.sid == sid).flat_map(|f| f.data.iter().copied()).collect();
                match ref_decode(&psh) {
                    Some((rh, rp, used)) => {
                        ensure!(same_dest(&rh, &host) && rp == port && used == psh.len(), "C07.codec", "the reference decodes the client's destination bytes as {:?}:{rp} ({} of {} bytes), requested {:?}:{port}", rh, used, psh.len(), host);
                    }
                    None => return Err(Fail::plain("C07.codec", format!("the client's destination bytes do not decode under the reference: {:02x?}", &psh[..psh.len().min(24)]))),
                }
                Ok(true)
            } else {
                let Some(enc) = encodable else { return Ok(false) };
                let mut peer = ScriptPeer::client_side(&mut l);
                let md5 = format!("{:x}", md5::compute(anytls_rs::padding::DEFAULT_PADDING_SCHEME.as_bytes()));
                let mut frames = vec![RFrame::new(rc::SETTINGS, 0, format!("v=2\nclient=ref\npadding-md5={md5}").into_bytes()), RFrame::ctl(rc::SYN, 9)];
                let mut bytes = enc.clone();
                bytes.extend(keyed(9, 0, 0, case.trailer));
                let mut cuts: Vec<usize> = case.frame_cuts.iter().map(|c| idx(*c, enc.len() + 1)).filter(|c| *c > 0 && *c < enc.len()).collect();
                cuts.sort_unstable();
                cuts.dedup();
                cuts.push(bytes.len());
                let mut from = 0usize;
                for c in &cuts {
                    frames.push(RFrame::new(rc::PSH, 9, bytes[from..*c].to_vec()));
                    from = *c;
                }
                peer.send(&frames).await.ok();
                let Some(st) = within(WATCHDOG, rx.recv()).await.flatten() else {
                    return Err(Fail::plain("C07.codec", "the server never saw the stream"));
                };
                let st2 = st.clone();
                let got = within(WATCHDOG, anytls_rs::server::handler::verif_read_socks_addr(st)).await;
                let (h, p) = match got {
                    Some(Ok(x)) => x,
                    Some(Err(e)) => return Err(Fail::plain("C07.codec", format!("the server could not decode a reference-encoded destination {:?}:{port}: {e}", host))),
                    None => return Err(Fail::plain("C07.codec", "the server-side destination parser did not return")),
                };
                ensure!(same_dest(&h, &host) && p == port, "C07.codec", "reference-encoded {:?}:{port} (frames cut at {:?}) decoded as {:?}:{p}", host, cuts, h);
                // the payload behind the destination is still there, exactly
                let mut rest = vec![0u8; case.trailer];
                if case.trailer > 0 {
                    let reader = st2.reader().clone();
                    let mut g = reader.lock().await;
                    let r = within(WATCHDOG, g.read_exact(&mut rest)).await;
                    ensure!(matches!(r, Some(Ok(()))), "C07.codec", "payload behind the destination could not be read");
                    ensure!(rest == keyed(9, 0, 0, case.trailer), "C07.codec", "the destination parser consumed or altered payload bytes behind the destination");
                }
                Ok(cuts.len() > 1)
            }
        });
        let split = res?;
        let long = host.len() >= 254;
        let v6 = matches!(case.host, HostGen::V6(_));
        out.nt(long || v6 || split || case.pipe.min_fragment() < 7);
        out.class_if(long, "name>=254");
        out.class_if(host.len() > 255, "name>255-refused");
        out.class_if(v6, "ipv6");
        out.class_if(split, "dest-split-across-frames");
        out.class_if(case.via_client, "via-real-client");
        out.class_if(!case.via_client, "reference-encoded");
        Ok(out)
    }
}

// ------------------------------------------------------------------------------------------
// family `resolve`

#[derive(Clone, Debug, Serialize, Deserialize)]
pub enum ROp {
    /// resolve name #i with this port
    Resolve(u8, u16),
    /// resolve a literal IP
    Literal([u8; 4], u16),
    /// age every cache entry by this many seconds
    Age(u16),
    /// resolve name #i with all of these ports at the same time
    Burst(u8, Vec<u16>),
    /// name #i moves: from now on the DNS answers with other addresses
    Move(u8),
}

#[derive(Clone, Debug, Serialize, Deserialize)]
pub struct ResolveCase {
    /// number of addresses (1-3) of each of the case's names
    pub names: Vec<u8>,
    pub ops: Vec<ROp>,
}

pub struct ResolveFam;

impl Family for ResolveFam {
    type Case = ResolveCase;
    fn name(&self) -> &'static str {
        "resolve"
    }
    fn strategy(&self, _tier: Tier) -> BoxedStrategy<ResolveCase> {
        let op = prop_oneof![
            8 => (0u8..3, prop_oneof![Just(80u16), Just(443), Just(0), Just(65535), any::<u16>()]).prop_map(|(i, p)| ROp::Resolve(i, p)),
            1 => (any::<[u8; 4]>(), any::<u16>()).prop_map(|(a, p)| ROp::Literal(a, p)),
            // (no combination of these sums to exactly the 60 s lifetime)
            3 => prop_oneof![Just(7u16), Just(31), Just(58), Just(61), Just(120)].prop_map(ROp::Age),
            1 => (0u8..3).prop_map(ROp::Move),
            3 => (0u8..3, proptest::collection::vec(prop_oneof![Just(80u16), Just(443), Just(8080), any::<u16>()], 2..5)).prop_map(|(i, p)| ROp::Burst(i, p)),
        ];
        (proptest::collection::vec(1u8..=3, 1..=3), proptest::collection::vec(op, 2..14)).prop_map(|(names, ops)| ResolveCase { names, ops }).boxed()
    }
    fn run(&self, case: &ResolveCase, _cx: &CaseCtx) -> CaseResult {
        let mut out = Outcome::new();
        let d = dns()?;
        // case-unique names
        let mut names = Vec::new();
        let mut tables = Vec::new();
        for (i, n) in case.names.iter().enumerate() {
            let addrs: Vec<Ipv4Addr> = (0..*n).map(|k| Ipv4Addr::new(127, 77, (i as u8) * 10 + k, 1 + (names.len() as u8))).collect();
            names.push(fresh_name(d, addrs.clone()));
            tables.push(addrs);
        }
        let ops = case.ops.clone();
        let names2 = names.clone();
        let tables2 = tables.clone();
        let res: Result<(bool, bool), Fail> = d.rt.block_on(async move {
            let mut ports_seen: Vec<Vec<u16>> = vec![Vec::new(); names2.len()];
            let mut multi = false;
            // model of the cache: per name the age of its entry and the addresses the DNS gave when the
            // entry was made; `current` is what the DNS answers now. Within the 60 s lifetime a request may
            // be served from the entry, beyond it the name must be resolved again.
            let mut current: Vec<Vec<Ipv4Addr>> = tables2.clone();
            let mut entry: Vec<Option<(u64, Vec<Ipv4Addr>)>> = vec![None; names2.len()];
            let mut moves = 0u8;
            let mut moved_then_expired = false;
            fn allowed(entry: &Option<(u64, Vec<Ipv4Addr>)>, current: &[Ipv4Addr]) -> Vec<Ipv4Addr> {
                let mut v = current.to_vec();
                if let Some((age, snap)) = entry {
                    if *age < 60 {
                        v.extend(snap.iter().copied());
                    }
                }
                v
            }
            for op in &ops {
                match op {
                    ROp::Resolve(i, port) => {
                        let i = idx((*i as u16) << 8, names2.len()).min(names2.len() - 1);
                        let r = tokio::time::timeout(Duration::from_secs(20), anytls_rs::util::resolve_host_with_cache(&names2[i], *port)).await;
                        let a = match r {
                            Ok(Ok(a)) => a,
                            Ok(Err(e)) => return Err(infra(format!("fake DNS lookup of {} failed: {e}", names2[i]))),
                            Err(_) => return Err(infra("fake DNS lookup timed out")),
                        };
                        let may = allowed(&entry[i], &current[i]);
                        let ok_ip = matches!(a.ip(), IpAddr::V4(v4) if may.contains(&v4));
                        ensure!(
                            ok_ip && a.port() == *port,
                            "C07.resolve",
                            "resolve({}, {port}) returned {a}; the name maps to {:?}{} and port {port} was asked for (ports requested earlier for this name: {:?})",
                            names2[i],
                            current[i],
                            match &entry[i] {
                                Some((age, snap)) if *age < 60 && *snap != current[i] => format!(" (a {age} s old cache entry may still say {:?})", snap),
                                Some((age, snap)) if *snap != current[i] => format!(" (the cache entry with {:?} is {age} s old - beyond the cache lifetime, the name must be resolved again)", snap),
                                _ => String::new(),
                            },
                            ports_seen[i]
                        );
                        if matches!(&entry[i], Some((age, snap)) if *age >= 60 && *snap != current[i]) {
                            moved_then_expired = true;
                        }
                        if !matches!(&entry[i], Some((age, _)) if *age < 60) {
                            entry[i] = Some((0, current[i].clone()));
                        }
                        if !ports_seen[i].is_empty() && !ports_seen[i].contains(port) {
                            multi = true;
                        }
                        ports_seen[i].push(*port);
                    }
                    ROp::Burst(i, ports) => {
                        let i = idx((*i as u16) << 8, names2.len()).min(names2.len() - 1);
                        let mut hs = Vec::new();
                        for p in ports {
                            let name = names2[i].clone();
                            let p = *p;
                            hs.push(tokio::spawn(async move { (p, tokio::time::timeout(Duration::from_secs(20), anytls_rs::util::resolve_host_with_cache(&name, p)).await) }));
                        }
                        for h in hs {
                            let (port, r) = h.await.map_err(|e| infra(format!("resolver task: {e}")))?;
                            let a = match r {
                                Ok(Ok(a)) => a,
                                Ok(Err(e)) => return Err(infra(format!("fake DNS lookup of {} failed: {e}", names2[i]))),
                                Err(_) => return Err(infra("fake DNS lookup timed out")),
                            };
                            let may = allowed(&entry[i], &current[i]);
                            let ok_ip = matches!(a.ip(), IpAddr::V4(v4) if may.contains(&v4));
                            ensure!(
                                ok_ip && a.port() == port,
                                "C07.resolve",
                                "resolve({}, {port}) - one of {} simultaneous lookups with ports {:?} - returned {a}; the name maps to {:?} (cache entry: {:?})",
                                names2[i],
                                ports.len(),
                                ports,
                                current[i],
                                entry[i]
                            );
                            ports_seen[i].push(port);
                        }
                        if !matches!(&entry[i], Some((age, _)) if *age < 60) {
                            entry[i] = Some((0, current[i].clone()));
                        }
                        multi = true;
                    }
                    ROp::Literal(ip, port) => {
                        let h = Ipv4Addr::from(*ip).to_string();
                        let r = anytls_rs::util::resolve_host_with_cache(&h, *port).await;
                        ensure!(
                            matches!(&r, Ok(a) if a.ip() == IpAddr::V4(Ipv4Addr::from(*ip)) && a.port() == *port),
                            "C07.resolve",
                            "literal {h}:{port} resolved to {:?}",
                            r.map_err(|e| e.to_string())
                        );
                    }
                    ROp::Move(i) => {
                        let i = idx((*i as u16) << 8, names2.len()).min(names2.len() - 1);
                        moves += 1;
                        let n = current[i].len() as u8;
                        let addrs: Vec<Ipv4Addr> = (0..n).map(|k| Ipv4Addr::new(127, 78, moves.wrapping_mul(7).wrapping_add(k), 1 + i as u8)).collect();
                        d.table.lock().unwrap().insert(names2[i].clone(), addrs.clone());
                        current[i] = addrs;
                    }
                    ROp::Age(s) => {
                        // (only this case's names: the cache is process-wide and other workers' cases run side by side)
                        anytls_rs::util::dns_cache::verif_age_hosts(&names2, std::time::Duration::from_secs(*s as u64)).await;
                        for e in entry.iter_mut().flatten() {
                            e.0 += *s as u64;
                        }
                        for p in ports_seen.iter_mut() {
                            if *s > 60 {
                                p.clear();
                            }
                        }
                    }
                }
            }
            Ok((multi, moved_then_expired))
        });
        let (multi, moved_then_expired) = res?;
        out.class_if(moved_then_expired, "name-moved-and-entry-expired");
        out.nt(multi);
        out.class_if(multi, "same-host-other-port-in-ttl");
        out.class_if(case.ops.iter().any(|o| matches!(o, ROp::Age(s) if *s > 60)), "aged-beyond-ttl");
        out.class_if(case.names.iter().any(|n| *n > 1), "multi-address-name");
        Ok(out)
    }
}

// ------------------------------------------------------------------------------------------
// family `dial` (Lab-S)

#[derive(Clone, Debug, Serialize, Deserialize)]
pub struct DialCase {
    /// requests: (name index 0/1, listener index 0/1 on that name's address)
    pub reqs: Vec<(bool, bool)>,
    pub age_after: Option<(u8, u16)>,
    /// per request: 0 = SOCKS5, 1 = HTTP CONNECT, 2 = HTTP GET in origin-form (destination in the Host
    /// header, a URL of the *other* name in the query), 3 = HTTP GET in absolute-form
    #[serde(default)]
    pub via: Vec<u8>,
    /// per request: true = the request names a port of that host where nothing listens: it must be
    /// refused and nobody else may be dialled in its place
    #[serde(default)]
    pub closed: Vec<bool>,
}

pub struct DialFam;

impl Family for DialFam {
    type Case = DialCase;
    fn name(&self) -> &'static str {
        "dial"
    }
    fn strategy(&self, _tier: Tier) -> BoxedStrategy<DialCase> {
        (proptest::collection::vec((any::<bool>(), any::<bool>()), 2..7), proptest::option::of((0u8..6, prop_oneof![Just(30u16), Just(61)])), proptest::collection::vec(0u8..4, 7), proptest::collection::vec(proptest::bool::weighted(0.25), 7))
            .prop_map(|(reqs, age_after, via, closed)| DialCase { reqs, age_after, via, closed })
            .boxed()
    }
    fn fixed_cases(&self, _tier: Tier) -> Vec<DialCase> {
        // a listening port of the host first (it fills the cache), then a port of the same host where nothing listens
        vec![
            DialCase { reqs: vec![(false, false), (false, false), (false, true)], age_after: None, via: vec![0, 0, 0], closed: vec![false, true, false] },
            DialCase { reqs: vec![(true, true), (true, false), (false, false), (false, false)], age_after: None, via: vec![1, 0, 0, 0], closed: vec![false, true, false, true] },
        ]
    }
    fn case_budget_s(&self) -> u64 {
        90
    }
    fn run(&self, case: &DialCase, _cx: &CaseCtx) -> CaseResult {
        let mut out = Outcome::new();
        let d = dns()?;
        let ip_a = worker_ip_n(10);
        let ip_b = worker_ip_n(11);
        let name_a = fresh_name(d, vec![ip_a]);
        let name_b = fresh_name(d, vec![ip_b]);
        let case2 = case.clone();
        let r = with_world(|w| {
            w.rt.block_on(async {
                let case = case2;
                use crate::lab_sock::TargetMode;
                // two listeners per address: same host, two ports
                let t = [
                    [TcpTarget::start(IpAddr::V4(ip_a), TargetMode::Echo).await?, TcpTarget::start(IpAddr::V4(ip_a), TargetMode::Echo).await?],
                    [TcpTarget::start(IpAddr::V4(ip_b), TargetMode::Echo).await?, TcpTarget::start(IpAddr::V4(ip_b), TargetMode::Echo).await?],
                ];
                let mut multi = false;
                let closed_ports = [crate::lab_sock::free_port(IpAddr::V4(ip_a))?, crate::lab_sock::free_port(IpAddr::V4(ip_b))?];
                let mut seen: [Vec<bool>; 2] = [Vec::new(), Vec::new()];
                for (k, (nb, lb)) in case.reqs.iter().enumerate() {
                    let ni = *nb as usize;
                    let li = *lb as usize;
                    let name = if ni == 0 { &name_a } else { &name_b };
                    let target = &t[ni][li];
                    let before: Vec<usize> = t.iter().flatten().map(|x| x.n_conns()).collect();
                    let dest = Dest::Name(name.clone(), target.addr.port());
                    let via = case.via.get(k).copied().unwrap_or(0) % 4;
                    let other = if ni == 0 { &name_b } else { &name_a };
                    let other_port = t[1 - ni][li].addr.port();
                    let how = ["SOCKS5", "HTTP CONNECT", "HTTP GET (origin-form + Host)", "HTTP GET (absolute-form)"][via as usize];
                    if case.closed.get(k).copied().unwrap_or(false) {
                        let port = closed_ports[ni];
                        let r = tokio::time::timeout(Duration::from_secs(40), socks5_connect(w.socks, &Dest::Name(name.clone(), port))).await;
                        tokio::time::sleep(Duration::from_millis(50)).await;
                        let flat: Vec<&TcpTarget> = t.iter().flatten().collect();
                        for (i, x) in flat.iter().enumerate() {
                            ensure!(
                                x.n_conns() == before[i],
                                "C07.dial",
                                "request #{k} for {name}:{port}, where nothing listens, was dialled at {} instead (earlier requests: {:?})",
                                x.addr,
                                &case.reqs[..k]
                            );
                        }
                        ensure!(matches!(r, Ok(Err(_))), "C07.dial", "request #{k} for {name}:{port}, where nothing listens, was answered {}", if r.is_err() { "not at all" } else { "'succeeded'" });
                        continue;
                    }
                    let refused = |e: String| {
                        Fail::plain(
                            "C07.dial",
                            format!("request #{k} via {how} for {name}:{} failed ({e}) although a listener is bound there; earlier requests: {:?}", target.addr.port(), &case.reqs[..k]),
                        )
                    };
                    match via {
                        0 | 1 => {
                            let mut s = if via == 0 {
                                socks5_connect(w.socks, &dest).await.map_err(|e| refused(format!("reply {:?}", e)))?
                            } else {
                                crate::props::e2e::http_connect(w.http, &format!("{name}:{}", target.addr.port()), b"").await.map_err(refused)?.0
                            };
                            let msg = format!("req{k}");
                            s.write_all(msg.as_bytes()).await.map_err(|e| Fail::plain("C07.dial", format!("tunnel write: {e}")))?;
                            let mut b = vec![0u8; msg.len()];
                            let ok = tokio::time::timeout(Duration::from_secs(10), s.read_exact(&mut b)).await;
                            ensure!(matches!(ok, Ok(Ok(_))) && b == msg.as_bytes(), "C07.dial", "request #{k}: no echo through the tunnel");
                        }
                        _ => {
                            // the origin is an echo target: it sends the forwarded request back
                            let mut s = tokio::net::TcpStream::connect(w.http).await.map_err(|e| infra(format!("connect to the HTTP listener: {e}")))?;
                            let req = if via == 2 {
                                format!("GET /login?next=http://{other}:{other_port}/cb&k={k} HTTP/1.1\r\nHost: {name}:{}\r\nAccept: */*\r\n\r\n", target.addr.port())
                            } else {
                                format!("GET http://{name}:{}/p/@{other}:{other_port}?k={k} HTTP/1.1\r\nAccept: */*\r\n\r\n", target.addr.port())
                            };
                            s.write_all(req.as_bytes()).await.map_err(|e| Fail::plain("C07.dial", format!("write: {e}")))?;
                            let mut b = vec![0u8; 12];
                            let ok = tokio::time::timeout(Duration::from_secs(10), s.read_exact(&mut b)).await;
                            ensure!(matches!(ok, Ok(Ok(_))), "C07.dial", "request #{k} via {how} for {name}:{}: nothing came back from the origin", target.addr.port());
                            if b.starts_with(b"HTTP/1.1 502") {
                                return Err(refused("502".into()));
                            }
                        }
                    }
                    let flat: Vec<&TcpTarget> = t.iter().flatten().collect();
                    let want = ni * 2 + li;
                    wait_until(3000, || flat[want].n_conns() > before[want]).await;
                    for (i, x) in flat.iter().enumerate() {
                        let got = x.n_conns() - before[i];
                        if i == want {
                            ensure!(got == 1, "C07.dial", "request #{k} for {name}:{}: the requested listener accepted {got} connections", target.addr.port());
                        } else {
                            ensure!(
                                got == 0,
                                "C07.dial",
                                "request #{k} via {how} for {name}:{} was dialled at {} (earlier requests: {:?})",
                                target.addr.port(),
                                x.addr,
                                &case.reqs[..k]
                            );
                        }
                    }
                    if seen[ni].contains(&!*lb) {
                        multi = true;
                    }
                    seen[ni].push(*lb);
                    if let Some((at, secs)) = case.age_after {
                        if at as usize == k {
                            anytls_rs::util::dns_cache::verif_age_hosts(&[name_a.clone(), name_b.clone()], std::time::Duration::from_secs(secs as u64)).await;
                            if secs > 60 {
                                seen = [Vec::new(), Vec::new()];
                            }
                        }
                    }
                }
                Ok(multi)
            })
        });
        let multi = match r {
            Ok(m) => m,
            Err(f) => {
                reset_world();
                return Err(f);
            }
        };
        out.nt(multi);
        out.class_if(multi, "same-host-other-port-in-ttl");
        out.class_if(case.age_after.is_some(), "cache-aged");
        out.class_if((0..case.reqs.len()).any(|k| k > 0 && case.closed.get(k).copied().unwrap_or(false)), "closed-port-of-a-cached-host");
        let vias: Vec<u8> = (0..case.reqs.len()).map(|k| case.via.get(k).copied().unwrap_or(0) % 4).collect();
        out.class_if(vias.contains(&1), "via-http-connect");
        out.class_if(vias.contains(&2), "via-http-origin-form+url-in-query");
        out.class_if(vias.contains(&3), "via-http-absolute-form");
        Ok(out)
    }
}
