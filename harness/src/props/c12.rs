//! C12 — the session pool never hands out or destroys the wrong session.
//!
//! Family `pool` (Lab-M, model-based): histories of Add / Get / Kill / Advance / Cleanup on the
//! real SessionPool with in-memory sessions, judged by the validity predicate of DESIGN A.2.

use crate::engine::*;
use crate::ensure;
use crate::lab_mem::pipe::PipeParams;
use crate::lab_mem::*;
use anytls_rs::client::{SessionPool, SessionPoolConfig};
use anytls_rs::session::Session;
use proptest::prelude::*;
use serde::{Deserialize, Serialize};
use std::sync::Arc;
use tokio::time::{Duration, Instant};

pub fn property() -> Property {
    Property {
        id: "C12",
        level: "exploration",
        rule: "family `pool` (Lab-M, virtual time): pool configuration (check interval 1-120 s, idle timeout 1-300 s, min idle 0-3) and a history of Add (fresh in-memory client session), Get, Kill(i) (external close), Advance(dt) (dt around the interval and the timeout), Cleanup (public cleanup_expired); the harness steps the clock tick by tick and evaluates the validity predicate around every reaper tick: Get never returns a closed session and finds a live idle one if there is one; a tick closes only sessions idle longer than the timeout, never leaves fewer live idle sessions than min(min_idle, before), leaves at most min_idle expired ones, idle_count agrees with the model; nothing else ever closes a session. Non-trivial = a tick/cleanup with >= 1 expired entry while the map holds > min_idle entries, or a Get with a closed entry in the map. Distinct = distinct serialized case. The pool family also adds sessions whose transport takes 10 ms to shut down and runs cleanup_expired() concurrently with get_idle_session() at offsets of 0-40 ms: a session handed to the request must still be open when the cleanup has finished (C12.inuse), closed sessions must have been expired, idle_count stays within the model's bounds. Two cases in five give the idle timeout a fractional part (+10, +500 or +900 ms on top of the whole seconds): 'expired' is judged on the exact duration.",
        assumptions: vec![
            "tokio paused clock with auto-advance; ticks of the periodic reaper happen at creation + k * interval",
            "which survivor is kept is left open; an entry idle for exactly the timeout may go either way",
        ],
        families: vec![(Box::new(PoolFam), 100_000, 2_000_000), (Box::new(crate::props::e2e::InUseFam), 16, 200), (Box::new(BurstFam), 40, 2_000)],
    }
}

#[derive(Clone, Debug, Serialize, Deserialize)]
pub enum POp {
    Add,
    Get,
    Kill(u16),
    /// advance by this many units of 10 ms
    Advance(u32),
    Cleanup,
    /// a session whose transport takes 10 ms to shut down (close() waits for it)
    AddSlowClose,
    /// cleanup_expired() and, this many ms into it, a request asking for an idle session
    CleanupVsGet(u16),
}

#[derive(Clone, Debug, Serialize, Deserialize)]
pub struct PoolCase {
    pub interval_s: u64,
    pub timeout_s: u64,
    pub min_idle: usize,
    pub ops: Vec<POp>,
    /// added to the idle timeout: library users configure any Duration, not only whole seconds
    #[serde(default)]
    pub timeout_extra_ms: u64,
}

/// how long the transport of a slow-closing session takes to shut down
const SLOW_CLOSE_MS: u64 = 10;

pub struct PoolFam;

struct MSess {
    s: Arc<Session>,
    in_map: bool,
    idle_since: Instant,
    harness_closed: bool,
    reaped: bool,
    slow: bool,
    _link: Link,
}

impl Family for PoolFam {
    type Case = PoolCase;
    fn name(&self) -> &'static str {
        "pool"
    }
    fn strategy(&self, _tier: Tier) -> BoxedStrategy<PoolCase> {
        let secs_i = prop_oneof![Just(1u64), Just(2), Just(5), Just(30), Just(120), 1u64..=120];
        let secs_t = prop_oneof![Just(1u64), Just(2), Just(5), Just(10), Just(60), Just(300), 1u64..=300];
        (secs_i, secs_t, 0usize..=3)
            .prop_flat_map(|(i, t, m)| {
                let dt = prop_oneof![
                    2 => Just((i * 100) as u32),
                    1 => Just((i * 50) as u32),
                    2 => Just((t * 100) as u32),
                    1 => Just((t * 100 + 1) as u32),
                    1 => Just((t * 100).saturating_sub(1) as u32),
                    2 => 1u32..((t + i) * 120) as u32,
                ];
                let op = prop_oneof![
                    4 => Just(POp::Add),
                    2 => Just(POp::Get),
                    1 => any::<u16>().prop_map(POp::Kill),
                    4 => dt.prop_map(POp::Advance),
                    1 => Just(POp::Cleanup),
                    1 => Just(POp::AddSlowClose),
                    1 => prop_oneof![Just(0u16), Just(1), Just(5), Just(9), Just(11), Just(15), 0u16..40].prop_map(POp::CleanupVsGet),
                ];
                (proptest::collection::vec(op, 1..30), prop_oneof![3 => Just(0u64), 1 => Just(500u64), 1 => Just(900u64), 1 => Just(10u64)]).prop_map(move |(ops, timeout_extra_ms)| PoolCase { interval_s: i, timeout_s: t, min_idle: m, ops, timeout_extra_ms })
            })
            .boxed()
    }
    fn run(&self, case: &PoolCase, _cx: &CaseCtx) -> CaseResult {
        let mut out = Outcome::new();
        let c = case.clone();
        let res: Result<(bool, bool, bool), Fail> = run_virtual(async move {
            let case = c;
            let interval = Duration::from_secs(case.interval_s);
            let timeout = Duration::from_secs(case.timeout_s) + Duration::from_millis(case.timeout_extra_ms);
            let m = case.min_idle;
            let t_create = Instant::now();
            let pool = SessionPool::with_config(SessionPoolConfig { check_interval: interval, idle_timeout: timeout, min_idle_sessions: m });
            // let the reaper's immediate first tick happen on the empty map
            tokio::time::sleep(Duration::from_millis(1)).await;
            let mut model: Vec<MSess> = Vec::new();
            let mut next_tick = 1u64;
            let mut nt_tick = false;
            let mut nt_get = false;
            let mut nt_race = false;

            // the predicate around a tick (or an explicit cleanup) evaluated at time `t`
            async fn judge(pool: &SessionPool, model: &mut [MSess], t: Instant, timeout: Duration, m: usize, closed_before: &[bool], what: &str) -> Result<bool, Fail> {
                let mut before = Vec::new();
                for (i, ms) in model.iter().enumerate() {
                    if ms.in_map && !closed_before[i] {
                        before.push(i);
                    }
                }
                let age = |ms: &MSess| t.saturating_duration_since(ms.idle_since);
                let fresh: Vec<usize> = before.iter().copied().filter(|i| age(&model[*i]) < timeout).collect();
                let exp: Vec<usize> = before.iter().copied().filter(|i| age(&model[*i]) > timeout).collect();
                let killed: Vec<usize> = before.iter().copied().filter(|i| model[*i].s.is_closed()).collect();
                for k in &killed {
                    ensure!(
                        !fresh.contains(k),
                        "C12.onlyexpired",
                        "{what}: closed session #{k} which had been idle for only {:?} (timeout {:?})",
                        age(&model[*k]),
                        timeout
                    );
                }
                let survivors = before.len() - killed.len();
                ensure!(
                    survivors >= m.min(before.len()),
                    "C12.min",
                    "{what}: {} live idle sessions before, {} after, configured minimum {}",
                    before.len(),
                    survivors,
                    m
                );
                let exp_left = exp.iter().filter(|i| !killed.contains(i)).count();
                ensure!(
                    exp_left <= m,
                    "C12.surplus",
                    "{what}: {} sessions idle longer than the timeout {:?} were left in the pool, configured minimum {}",
                    exp_left,
                    timeout,
                    m
                );
                // entries of closed sessions and reaped sessions are gone from the map now
                for (i, ms) in model.iter_mut().enumerate() {
                    if ms.in_map && (closed_before[i] || ms.s.is_closed()) {
                        ms.in_map = false;
                        if !closed_before[i] {
                            ms.reaped = true;
                        }
                    }
                }
                let want = model.iter().filter(|ms| ms.in_map).count();
                let got = pool.idle_count().await;
                ensure!(got == want, "C12.count", "{what}: idle_count() = {got}, model holds {want} entries");
                Ok(!exp.is_empty() && before.len() > m)
            }

            for op in &case.ops {
                match op {
                    POp::Add => {
                        let mut l = link(PipeParams::default(), PipeParams::default());
                        let s = client_session(&mut l, default_padding(), None);
                        s.set_seq(pool.next_seq());
                        pool.add_idle_session(s.clone()).await;
                        model.push(MSess { s, in_map: true, idle_since: Instant::now(), harness_closed: false, reaped: false, slow: false, _link: l });
                    }
                    POp::AddSlowClose => {
                        let mut l = link(PipeParams::default(), PipeParams::default());
                        l.c2s.arm(crate::lab_mem::pipe::Fault::ShutdownDelay { ms: SLOW_CLOSE_MS });
                        let s = client_session(&mut l, default_padding(), None);
                        s.set_seq(pool.next_seq());
                        pool.add_idle_session(s.clone()).await;
                        model.push(MSess { s, in_map: true, idle_since: Instant::now(), harness_closed: false, reaped: false, slow: true, _link: l });
                    }
                    POp::CleanupVsGet(ms_in) => {
                        // this op lets virtual time pass (the delay, the slow closes): keep it clear of the
                        // reaper's next tick, which the model observes only from inside `Advance`
                        if (t_create + interval * next_tick as u32).saturating_duration_since(Instant::now()) < Duration::from_millis(900) {
                            continue;
                        }
                        let closed_before: Vec<bool> = model.iter().map(|ms| ms.s.is_closed()).collect();
                        let t = Instant::now();
                        let both = within(WATCHDOG, async {
                            tokio::join!(pool.cleanup_expired(), async {
                                tokio::time::sleep(Duration::from_millis(*ms_in as u64)).await;
                                pool.get_idle_session().await
                            })
                        })
                        .await;
                        let Some(((), got)) = both else {
                            return Err(Fail::plain("C12.live", "cleanup_expired / get_idle_session did not return when run at the same time"));
                        };
                        // housekeeping has finished: what it closed, and what the request was given
                        if let Some(g) = &got {
                            let i = model.iter().position(|ms| Arc::ptr_eq(&ms.s, g));
                            let Some(i) = i else {
                                return Err(Fail::plain("C12.live", "get_idle_session returned a session that was never added"));
                            };
                            ensure!(model[i].in_map, "C12.live", "get_idle_session returned session #{i} which is not in the pool any more (handed out twice / already reaped)");
                            model[i].in_map = false;
                            ensure!(
                                !g.is_closed() || closed_before[i],
                                "C12.inuse",
                                "session #{i} was handed to a request {} ms into cleanup_expired() and closed by that same cleanup: a session in use was torn down by pool housekeeping",
                                ms_in
                            );
                            ensure!(!closed_before[i], "C12.live", "get_idle_session returned a closed session (seq {})", g.seq());
                            nt_race = true;
                        }
                        for (i, ms) in model.iter_mut().enumerate() {
                            if ms.in_map && ms.s.is_closed() {
                                if !closed_before[i] {
                                    let age = t.saturating_duration_since(ms.idle_since);
                                    ensure!(age >= timeout, "C12.onlyexpired", "cleanup_expired (racing with a request): closed session #{i} which had been idle for only {:?} (timeout {:?})", age, timeout);
                                    ms.reaped = true;
                                }
                            }
                        }
                        // entries of closed sessions may or may not linger after a skipped visit: bounds
                        let lo = model.iter().filter(|ms| ms.in_map && !ms.s.is_closed()).count();
                        let hi = model.iter().filter(|ms| ms.in_map).count();
                        let n = pool.idle_count().await;
                        ensure!(lo <= n && n <= hi, "C12.count", "after cleanup racing with a request: idle_count() = {n}, model allows {lo}..={hi}");
                        if n == lo {
                            for ms in model.iter_mut() {
                                if ms.in_map && ms.s.is_closed() {
                                    ms.in_map = false;
                                }
                            }
                        }
                    }
                    POp::Get => {
                        let had_closed = model.iter().any(|ms| ms.in_map && ms.s.is_closed());
                        let got = within(WATCHDOG, pool.get_idle_session()).await;
                        let Some(got) = got else {
                            return Err(Fail::plain("C12.live", "get_idle_session did not return"));
                        };
                        match got {
                            Some(s) => {
                                ensure!(!s.is_closed(), "C12.live", "get_idle_session returned a closed session (seq {})", s.seq());
                                let i = model.iter().position(|ms| Arc::ptr_eq(&ms.s, &s));
                                let Some(i) = i else {
                                    return Err(Fail::plain("C12.live", "get_idle_session returned a session that was never added"));
                                };
                                ensure!(model[i].in_map, "C12.live", "get_idle_session returned session #{i} which is not in the pool any more (handed out twice / already reaped)");
                                model[i].in_map = false;
                            }
                            None => {
                                let live = model.iter().filter(|ms| ms.in_map && !ms.s.is_closed()).count();
                                ensure!(live == 0, "C12.live", "get_idle_session returned None although {live} live idle session(s) are pooled");
                            }
                        }
                        // closed entries that were skipped are dropped from the map
                        let seq_cut = model.iter().filter(|ms| ms.in_map && !ms.s.is_closed()).map(|ms| ms.s.seq()).max();
                        for ms in model.iter_mut() {
                            if ms.in_map && ms.s.is_closed() {
                                // entries above the returned one were visited and removed; others may linger
                                let _ = seq_cut;
                            }
                        }
                        // do not model which closed entries linger: resynchronise from idle_count bounds
                        let lo = model.iter().filter(|ms| ms.in_map && !ms.s.is_closed()).count();
                        let hi = model.iter().filter(|ms| ms.in_map).count();
                        let n = pool.idle_count().await;
                        ensure!(lo <= n && n <= hi, "C12.count", "after Get: idle_count() = {n}, model allows {lo}..={hi}");
                        if n == lo {
                            for ms in model.iter_mut() {
                                if ms.in_map && ms.s.is_closed() {
                                    ms.in_map = false;
                                }
                            }
                        }
                        nt_get |= had_closed;
                    }
                    POp::Kill(i) => {
                        if !model.is_empty() {
                            let k = idx(*i, model.len());
                            if model[k].slow && (t_create + interval * next_tick as u32).saturating_duration_since(Instant::now()) < Duration::from_millis(900) {
                                continue;
                            }
                            let _ = within(WATCHDOG, model[k].s.close()).await;
                            model[k].harness_closed = true;
                        }
                    }
                    POp::Cleanup => {
                        // closing a slow transport lets virtual time pass: keep clear of the next tick
                        if model.iter().any(|ms| ms.slow && ms.in_map) && (t_create + interval * next_tick as u32).saturating_duration_since(Instant::now()) < Duration::from_millis(900) {
                            continue;
                        }
                        let closed_before: Vec<bool> = model.iter().map(|ms| ms.s.is_closed()).collect();
                        let t = Instant::now();
                        ensure!(within(WATCHDOG, pool.cleanup_expired()).await.is_some(), "C12.live", "cleanup_expired did not return");
                        nt_tick |= judge(&pool, &mut model, t, timeout, m, &closed_before, "cleanup_expired").await?;
                    }
                    POp::Advance(units) => {
                        let target = Instant::now() + Duration::from_millis(*units as u64 * 10);
                        loop {
                            let tick_at = t_create + interval * next_tick as u32;
                            if tick_at > target {
                                break;
                            }
                            let pre = tick_at - Duration::from_millis(1);
                            if pre > Instant::now() {
                                tokio::time::sleep_until(pre).await;
                            }
                            let closed_before: Vec<bool> = model.iter().map(|ms| ms.s.is_closed()).collect();
                            // (the reaper closes one session after the other; slow transports take 10 ms each)
                            let slow = model.iter().filter(|ms| ms.slow && ms.in_map).count() as u64;
                            tokio::time::sleep_until(tick_at + Duration::from_millis(1 + slow * (SLOW_CLOSE_MS + 1))).await;
                            nt_tick |= judge(&pool, &mut model, tick_at, timeout, m, &closed_before, &format!("reaper tick #{next_tick}")).await?;
                            next_tick += 1;
                        }
                        if target > Instant::now() {
                            tokio::time::sleep_until(target).await;
                        }
                    }
                }
                // nothing but the reaper (on expired entries) and the harness ever closes a session
                for (i, ms) in model.iter().enumerate() {
                    ensure!(
                        !ms.s.is_closed() || ms.harness_closed || ms.reaped,
                        "C12.onlyexpired",
                        "session #{i} was closed outside a reaper tick / cleanup (after {:?})",
                        op
                    );
                }
            }
            Ok((nt_tick, nt_get, nt_race))
        });
        let (nt_tick, nt_get, nt_race) = res?;
        out.class_if(nt_race, "request-served-during-cleanup");
        out.class_if(case.timeout_extra_ms > 0, "fractional-second-timeout");
        out.nt(nt_tick || nt_get);
        out.class_if(nt_tick, "tick-with-expired-surplus");
        out.class_if(nt_get, "get-with-closed-entry");
        out.class_if(case.min_idle == 0, "min_idle=0");
        out.class_if(case.timeout_s < case.interval_s, "timeout<interval");
        Ok(out)
    }
}

// ------------------------------------------------------------------------------------------
// family `burst` (Lab-S): every session the real Client dials is in the pool until a request takes
// it out - none is lost (alive but unreachable: never handed out, never reaped)

use crate::lab_sock::world::*;
use crate::lab_sock::{real_client, start_socks5};
use crate::props::c13::{one_request, start_forwarder};

#[derive(Clone, Debug, Serialize, Deserialize)]
pub struct BurstCase {
    pub bursts: Vec<u8>,
}

pub struct BurstFam;

impl Family for BurstFam {
    type Case = BurstCase;
    fn name(&self) -> &'static str {
        "burst"
    }
    fn strategy(&self, _tier: Tier) -> BoxedStrategy<BurstCase> {
        proptest::collection::vec(prop_oneof![1u8..4, 4u8..24], 1..5).prop_map(|bursts| BurstCase { bursts }).boxed()
    }
    fn case_budget_s(&self) -> u64 {
        120
    }
    fn run(&self, case: &BurstCase, _cx: &CaseCtx) -> CaseResult {
        let mut out = Outcome::new();
        let c = case.clone();
        let r = with_world(|w| {
            w.rt.block_on(async {
                let case = c;
                let fwd = start_forwarder(w.server).await?;
                let client = real_client(fwd.addr, anytls_rs::padding::DEFAULT_PADDING_SCHEME, SessionPoolConfig::default())?;
                let socks = start_socks5(client.clone()).await?;
                // model under today's lifecycle: a dial inserts, a reuse takes out: pooled += 2 d - b
                let mut pooled: i64 = 0;
                let mut n = 0usize;
                for (bi, b) in case.bursts.iter().enumerate() {
                    let b = *b as usize;
                    let before = fwd.accepted.load(std::sync::atomic::Ordering::SeqCst);
                    let mut hs = Vec::new();
                    for k in 0..b {
                        hs.push(tokio::spawn(one_request(socks, w.echo_a.addr, n + k + 1)));
                    }
                    n += b;
                    for h in hs {
                        match h.await {
                            Ok(Ok(())) => {}
                            Ok(Err(f)) => return Err(Fail::plain("C12.live2", f.detail)),
                            Err(e) => return Err(Fail::plain("C12.live2", format!("request task: {e}"))),
                        }
                    }
                    tokio::time::sleep(Duration::from_millis(40)).await;
                    let d = fwd.accepted.load(std::sync::atomic::Ordering::SeqCst) - before;
                    pooled = (pooled + 2 * d as i64 - b as i64).max(0);
                    let idle = client.verif_session_pool().idle_count().await as i64;
                    ensure!(
                        idle == pooled,
                        "C12.count",
                        "after burst #{bi} of {b} simultaneous requests ({d} sessions dialled) the pool holds {idle} idle sessions, {pooled} dialled sessions were never taken out: the missing ones are alive but unreachable (never handed out, never reaped)"
                    );
                }
                Ok(())
            })
        });
        if let Err(f) = r {
            reset_world();
            return Err(f);
        }
        out.nt(case.bursts.iter().any(|b| *b >= 4));
        out.class_if(case.bursts.iter().any(|b| *b >= 8), "burst>=8");
        Ok(out)
    }
}
