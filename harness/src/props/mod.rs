pub mod c03;
pub mod c04;
pub mod c05;

use crate::engine::Property;

pub fn all_ids() -> Vec<&'static str> {
    vec!["C03", "C04", "C05"]
}

pub fn get(id: &str) -> Option<Property> {
    match id {
        "C03" => Some(c03::property()),
        "C04" => Some(c04::property()),
        "C05" => Some(c05::property()),
        _ => None,
    }
}
