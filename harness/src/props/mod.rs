pub mod c03;

use crate::engine::Property;

pub fn all_ids() -> Vec<&'static str> {
    vec!["C03"]
}

pub fn get(id: &str) -> Option<Property> {
    match id {
        "C03" => Some(c03::property()),
        _ => None,
    }
}
