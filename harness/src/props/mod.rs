pub mod c01;
pub mod c02;
pub mod c03;
pub mod c04;
pub mod c05;
pub mod c09;
pub mod c11;

use crate::engine::Property;

pub fn all_ids() -> Vec<&'static str> {
    vec!["C01", "C02", "C03", "C04", "C05", "C09", "C11"]
}

pub fn get(id: &str) -> Option<Property> {
    match id {
        "C01" => Some(c01::property()),
        "C02" => Some(c02::property()),
        "C03" => Some(c03::property()),
        "C04" => Some(c04::property()),
        "C05" => Some(c05::property()),
        "C09" => Some(c09::property()),
        "C11" => Some(c11::property()),
        _ => None,
    }
}
