//! C13 — sessions are reused instead of re-dialled.
//!
//! Lab-S family `reuse`: request histories through the SOCKS5 front-end of a real client whose
//! server address is a counting TCP forwarder in front of the real server.

use crate::engine::*;
use crate::ensure;
use crate::lab_sock::world::*;
use crate::lab_sock::*;
use anytls_rs::client::SessionPoolConfig;
use proptest::prelude::*;
use serde::{Deserialize, Serialize};
use std::net::{IpAddr, SocketAddr};
use std::sync::{Arc, Mutex};
use std::sync::atomic::{AtomicUsize, Ordering};
use tokio::io::{AsyncReadExt, AsyncWriteExt};
use tokio::net::{TcpListener, TcpStream};
use tokio::time::Duration;

pub fn property() -> Property {
    Property {
        id: "C13",
        level: "exploration",
        rule: "Lab-S family `reuse`: histories of requests through the SOCKS5 front-end (the only layer that knows when a request is over): Seq (one request: connect, echo, close from the application side, settle) and Burst(b) (b simultaneous requests, all completed before the next step), 2-40 requests, pool settings varied (min idle 0-3); the real client dials a counting TCP forwarder in front of the real server, which reports how many TLS connections were opened and how many are still open. Oracles: r_n - a request that overlaps no other is served without a new connection whenever an established healthy session exists (n = 2 and n >= 3 are reported under separate signatures); bound - connections still open <= peak simultaneous requests + min idle after every step. Non-trivial = >= 3 sequential requests, or a burst followed by sequential requests. Distinct = distinct serialized case. Histories also contain requests to a closed port (the request fails, the session it used stays healthy and pooled sessions must still be reused) and cuts of every established connection by the forwarder (the next request must be served over a new connection, closed sessions are never handed out). A further step cuts only the k-th newest established connection: at least pooled-1 healthy sessions remain pooled and the next request must be served by one of them. Family `pooled` (Lab-M, virtual time with the I/O driver on): a real Client (it would dial 127.0.0.1:1, where nothing listens) whose pool holds 1-3 healthy in-memory sessions with scripted accepting servers, added first, and 0-3 sessions whose transport takes 10-990 ms to shut down; after 5-200 s idle, cleanup_expired() runs concurrently with create_proxy_stream started 0-1500 ms later, then 0-2 further requests. Whenever the reaper must keep at least one healthy session (min idle >= 1) the request has to be served from the pool; a failure means it went for a new connection. Four pooled cases in ten leave the pool's own periodic housekeeping running (check interval 1 / 10 / 30 / 45 s): as long as nothing has been idle for the 60 s timeout every session must still be pooled and open (C13.reuse:pooled-session-dropped-early). A further step makes a UDP association through the same client whose target answers the one datagram with an empty datagram (ending the client's relay loop): the association counts as a request for the pool model, and the session it ran on must stay usable. The reuse family also has bursts in which the network accepts the first dial, leaves it unanswered and cuts it after 700 ms (long after its siblings were established): only the request on that connection may fail, and the sessions of the others must still be in the pool (idle count = model) and be reused by the next requests.",
        assumptions: vec![
            "the forwarder's accept count equals the number of TLS sessions dialled; a connection counts as open until either side closed it",
            "no timers involved: histories are shorter than the 30 s check interval",
        ],
        families: vec![(Box::new(ReuseFam), 60, 1_500), (Box::new(PooledFam), 5_000, 200_000)],
    }
}

#[derive(Clone, Debug, Serialize, Deserialize)]
pub enum Step {
    Seq,
    Burst(u8),
    /// a quiet period in units of 100 ms (only in histories with short timers)
    Pause(u8),
    /// a sequential request to a port where nothing listens: it fails, the session it used stays healthy
    Refused,
    /// the network cuts every established session; the client gets half a second to notice
    KillAll,
    /// the network cuts one established session (the k-th newest); the others stay healthy
    KillOne(u8),
    /// a UDP association through the same client: one datagram out, the target answers with an
    /// empty datagram (which ends the client's relay loop) - the session it ran on stays healthy
    UdpEmptyReply,
    /// a burst in which the network fails one dial slowly: the first connection dialled during the
    /// burst is accepted, gets no answer and is cut after 700 ms - after its siblings have long been
    /// established. The request on that connection may fail; the sessions of the others stay pooled.
    BurstFailedDial(u8),
}

#[derive(Clone, Debug, Serialize, Deserialize)]
pub struct ReuseCase {
    pub min_idle: usize,
    pub steps: Vec<Step>,
    /// true: check interval 1 s / idle timeout 2 s (so that quiet periods can outlast the timeout);
    /// false: the defaults 30 s / 60 s, no timer ever fires during the history
    #[serde(default)]
    pub short_timers: bool,
}

pub struct ReuseFam;

pub struct Forwarder {
    pub addr: SocketAddr,
    pub accepted: Arc<AtomicUsize>,
    pub live: Arc<AtomicUsize>,
    /// bumping this generation cuts every connection that is open at that moment
    pub kill: tokio::sync::watch::Sender<u64>,
    /// one switch per accepted connection, in accept order: (cut it, still open?)
    pub conns: Arc<Mutex<Vec<(Arc<tokio::sync::Notify>, Arc<std::sync::atomic::AtomicBool>)>>>,
    /// how many of the next accepted connections get no answer and are cut after 700 ms
    pub hold_and_cut: Arc<AtomicUsize>,
    /// how many connections were treated that way
    pub cut_count: Arc<AtomicUsize>,
}

impl Forwarder {
    /// Cut the k-th newest connection that is still open; false if there is none.
    pub fn kill_one(&self, k: usize) -> bool {
        let g = self.conns.lock().unwrap();
        let live: Vec<_> = g.iter().filter(|(_, a)| a.load(Ordering::SeqCst)).collect();
        if live.is_empty() {
            return false;
        }
        let (n, _) = live[live.len() - 1 - (k % live.len())];
        n.notify_one();
        true
    }
}

pub async fn start_forwarder(upstream: SocketAddr) -> Result<Forwarder, Fail> {
    let l = TcpListener::bind(SocketAddr::new(IpAddr::V4(worker_ip()), 0)).await.map_err(|e| infra(format!("forwarder bind: {e}")))?;
    let addr = l.local_addr().map_err(|e| infra(e.to_string()))?;
    let accepted = Arc::new(AtomicUsize::new(0));
    let live = Arc::new(AtomicUsize::new(0));
    let (a2, l2) = (accepted.clone(), live.clone());
    let (kill, kill_rx) = tokio::sync::watch::channel(0u64);
    let conns: Arc<Mutex<Vec<(Arc<tokio::sync::Notify>, Arc<std::sync::atomic::AtomicBool>)>>> = Default::default();
    let conns2 = conns.clone();
    let hold_and_cut = Arc::new(AtomicUsize::new(0));
    let cut_count = Arc::new(AtomicUsize::new(0));
    let (hold2, cutc2) = (hold_and_cut.clone(), cut_count.clone());
    tokio::spawn(async move {
        loop {
            let Ok((mut c, _)) = l.accept().await else { break };
            if hold2.load(Ordering::SeqCst) > 0 {
                hold2.fetch_sub(1, Ordering::SeqCst);
                cutc2.fetch_add(1, Ordering::SeqCst);
                a2.fetch_add(1, Ordering::SeqCst);
                tokio::spawn(async move {
                    tokio::time::sleep(Duration::from_millis(700)).await;
                    drop(c);
                });
                continue;
            }
            let mut killed = kill_rx.clone();
            killed.borrow_and_update();
            let cut = Arc::new(tokio::sync::Notify::new());
            let alive = Arc::new(std::sync::atomic::AtomicBool::new(true));
            conns2.lock().unwrap().push((cut.clone(), alive.clone()));
            let _ = c.set_nodelay(true);
            a2.fetch_add(1, Ordering::SeqCst);
            l2.fetch_add(1, Ordering::SeqCst);
            let l3 = l2.clone();
            tokio::spawn(async move {
                if let Ok(mut u) = TcpStream::connect(upstream).await {
                    let _ = u.set_nodelay(true);
                    let (mut cr, mut cw) = c.split();
                    let (mut ur, mut uw) = u.split();
                    let a = async {
                        let mut b = vec![0u8; 65536];
                        loop {
                            match cr.read(&mut b).await {
                                Ok(0) | Err(_) => break,
                                Ok(n) => {
                                    if uw.write_all(&b[..n]).await.is_err() {
                                        break;
                                    }
                                }
                            }
                        }
                    };
                    let b = async {
                        let mut b = vec![0u8; 65536];
                        loop {
                            match ur.read(&mut b).await {
                                Ok(0) | Err(_) => break,
                                Ok(n) => {
                                    if cw.write_all(&b[..n]).await.is_err() {
                                        break;
                                    }
                                }
                            }
                        }
                    };
                    // the connection is over as soon as either side closed
                    tokio::select! { _ = a => {}, _ = b => {}, _ = killed.changed() => {}, _ = cut.notified() => {} }
                }
                alive.store(false, Ordering::SeqCst);
                l3.fetch_sub(1, Ordering::SeqCst);
            });
        }
    });
    Ok(Forwarder { addr, accepted, live, kill, conns, hold_and_cut, cut_count })
}

pub async fn one_request(socks: SocketAddr, target: SocketAddr, tag: usize) -> Result<(), Fail> {
    let mut s = match socks5_connect(socks, &Dest::of(target)).await {
        Ok(s) => s,
        Err(e) => return Err(Fail::plain("C13.serve", format!("request #{tag} through the front-end failed (reply {:?})", e))),
    };
    let msg = format!("request-{tag}");
    s.write_all(msg.as_bytes()).await.map_err(|e| Fail::plain("C13.serve", format!("request #{tag}: {e}")))?;
    let mut b = vec![0u8; msg.len()];
    match tokio::time::timeout(Duration::from_secs(10), s.read_exact(&mut b)).await {
        Ok(Ok(_)) if b == msg.as_bytes() => {}
        _ => return Err(Fail::plain("C13.serve", format!("request #{tag}: no echo"))),
    }
    let _ = s.shutdown().await;
    drop(s);
    Ok(())
}

impl Family for ReuseFam {
    type Case = ReuseCase;
    fn name(&self) -> &'static str {
        "reuse"
    }
    fn strategy(&self, _tier: Tier) -> BoxedStrategy<ReuseCase> {
        let step = prop_oneof![8 => Just(Step::Seq), 2 => (2u8..6).prop_map(Step::Burst), 2 => (8u8..20).prop_map(Step::Burst), 1 => Just(Step::Refused), 1 => Just(Step::KillAll), 2 => (0u8..3).prop_map(Step::KillOne), 1 => Just(Step::UdpEmptyReply), 1 => (2u8..6).prop_map(Step::BurstFailedDial)];
        let step_t = prop_oneof![8 => Just(Step::Seq), 2 => (2u8..4).prop_map(Step::Burst), 4 => prop_oneof![Just(5u8), Just(25), Just(35)].prop_map(Step::Pause), 1 => Just(Step::Refused)];
        prop_oneof![
            2 => (0usize..=3, proptest::collection::vec(step, 2..14)).prop_map(|(min_idle, steps)| ReuseCase { min_idle, steps, short_timers: false }),
            1 => (1usize..=2, proptest::collection::vec(step_t, 2..7)).prop_map(|(min_idle, steps)| ReuseCase { min_idle, steps, short_timers: true }),
        ]
        .boxed()
    }
    fn fixed_cases(&self, _tier: Tier) -> Vec<ReuseCase> {
        vec![
            ReuseCase { min_idle: 1, steps: vec![Step::Seq, Step::Seq], short_timers: false },
            ReuseCase { min_idle: 1, steps: vec![Step::Seq; 6], short_timers: false },
            ReuseCase { min_idle: 0, steps: vec![Step::Burst(3), Step::Seq, Step::Seq, Step::Seq], short_timers: false },
            // one dial of a burst fails late: the sessions its siblings made are still there for the next requests
            ReuseCase { min_idle: 1, steps: vec![Step::BurstFailedDial(3), Step::Seq, Step::Seq], short_timers: false },
            ReuseCase { min_idle: 0, steps: vec![Step::BurstFailedDial(5), Step::Seq, Step::Burst(2), Step::Seq], short_timers: false },
            // a destination that refuses costs the request, not the session
            ReuseCase { min_idle: 1, steps: vec![Step::Refused, Step::Seq, Step::Seq], short_timers: false },
            ReuseCase { min_idle: 1, steps: vec![Step::Seq, Step::Refused, Step::Seq, Step::Refused, Step::Seq], short_timers: false },
            // sessions cut by the network are not handed out again; the request after the cut is served
            ReuseCase { min_idle: 1, steps: vec![Step::Seq, Step::KillAll, Step::Seq, Step::Seq], short_timers: false },
            ReuseCase { min_idle: 2, steps: vec![Step::Burst(4), Step::KillAll, Step::Seq, Step::Burst(3), Step::KillAll, Step::Seq], short_timers: false },
            // one of several pooled sessions is cut (the newest / an older one): the others are still reused
            ReuseCase { min_idle: 3, steps: vec![Step::Burst(3), Step::KillOne(0), Step::Seq], short_timers: false },
            // a UDP association that ends (empty reply) and TCP requests share the client's sessions
            ReuseCase { min_idle: 1, steps: vec![Step::UdpEmptyReply, Step::Seq, Step::Seq], short_timers: false },
            ReuseCase { min_idle: 1, steps: vec![Step::Seq, Step::UdpEmptyReply, Step::Seq], short_timers: false },
            ReuseCase { min_idle: 3, steps: vec![Step::Burst(3), Step::KillOne(1), Step::Seq], short_timers: false },
            ReuseCase { min_idle: 3, steps: vec![Step::Burst(4), Step::KillOne(0), Step::KillOne(0), Step::Seq, Step::Seq], short_timers: false },
            // a quiet period longer than the idle timeout: the reaper keeps min idle sessions for reuse
            ReuseCase { min_idle: 1, steps: vec![Step::Seq, Step::Pause(35), Step::Seq], short_timers: true },
            ReuseCase { min_idle: 2, steps: vec![Step::Burst(3), Step::Pause(35), Step::Seq, Step::Seq], short_timers: true },
        ]
    }
    fn case_budget_s(&self) -> u64 {
        120
    }
    fn run(&self, case: &ReuseCase, cx: &CaseCtx) -> CaseResult {
        let mut out = Outcome::new();
        let c = case.clone();
        let r = with_world(|w| {
            w.rt.block_on(async {
                let case = c;
                let fwd = start_forwarder(w.server).await?;
                let pool = if case.short_timers {
                    SessionPoolConfig { check_interval: Duration::from_secs(1), idle_timeout: Duration::from_secs(2), min_idle_sessions: case.min_idle }
                } else {
                    SessionPoolConfig { check_interval: Duration::from_secs(30), idle_timeout: Duration::from_secs(60), min_idle_sessions: case.min_idle }
                };
                let client = real_client(fwd.addr, anytls_rs::padding::DEFAULT_PADDING_SCHEME, pool)?;
                let socks = start_socks5(client.clone()).await?;
                let target = w.echo_a.addr;
                let mut n = 0usize;
                let mut peak = 0usize;
                let mut seq_run = 0usize;
                // Model of the pool under the lifecycle the code has today (see the known finding):
                // a dial inserts the new session (it stays pooled while first used), a reuse takes one
                // out, nothing is ever returned. With d dials among b requests: pooled += 2d - b.
                // A request that finds the model pool non-empty must not dial - that part is exact
                // and armed; only a dial on an empty model pool falls under the known finding.
                let mut pooled: i64 = 0;
                // after a cut the idle map may still list closed sessions until the reaper drops them
                let mut dead_in_pool = false;
                for (si, step) in case.steps.iter().enumerate() {
                    let before = fwd.accepted.load(Ordering::SeqCst);
                    let established = fwd.live.load(Ordering::SeqCst);
                    match step {
                        Step::Seq | Step::Refused => {
                            n += 1;
                            seq_run += 1;
                            peak = peak.max(1);
                            if matches!(step, Step::Refused) {
                                match tokio::time::timeout(Duration::from_secs(40), socks5_connect(socks, &Dest::of(w.closed_port))).await {
                                    Ok(Err(Some(_))) => {}
                                    Ok(Err(None)) => return Err(Fail::plain("C13.serve", format!("request #{n} to a closed port: the front-end closed without a reply"))),
                                    Ok(Ok(_)) => return Err(infra(format!("a connection to the closed port {} succeeded", w.closed_port))),
                                    Err(_) => return Err(Fail::plain("C13.serve", format!("request #{n} to a closed port got no reply within 40 s"))),
                                }
                            } else {
                                one_request(socks, target, n).await?;
                            }
                            tokio::time::sleep(Duration::from_millis(40)).await;
                            let dialled = fwd.accepted.load(Ordering::SeqCst) - before;
                            if pooled > 0 && dialled > 0 {
                                return Err(Fail::new(
                                    "C13.reuse",
                                    "C13.reuse:pooled-session-not-used",
                                    format!(
                                        "request #{n} (step {si}, overlapping no other request) opened {dialled} new TLS connection(s) although {pooled} session(s) dialled earlier are still pooled and healthy ({established} connections open); connections so far: {}",
                                        fwd.accepted.load(Ordering::SeqCst)
                                    ),
                                ));
                            }
                            pooled += 2 * dialled as i64 - 1;
                            if established > 0 && dialled > 0 {
                                let (sig, label) = if n == 2 { ("C13.r2", "C13.r2") } else { ("C13.reuse:session-not-returned-to-pool", "C13.r3+") };
                                if !cx.tolerate(sig) {
                                    return Err(Fail::new(
                                        label,
                                        sig,
                                        format!(
                                            "request #{n} (step {si}, overlapping no other request) opened {dialled} new TLS connection(s) although {established} established session(s) were open; connections so far: {}",
                                            fwd.accepted.load(Ordering::SeqCst)
                                        ),
                                    ));
                                }
                            }
                        }
                        Step::KillAll => {
                            fwd.kill.send_modify(|g| *g += 1);
                            let gone = wait_until(5_000, || fwd.live.load(Ordering::SeqCst) == 0).await;
                            if !gone {
                                return Err(infra("the forwarder did not cut its connections"));
                            }
                            tokio::time::sleep(Duration::from_millis(500)).await;
                            // every session is dead: whatever the pool still holds is closed and must be
                            // skipped (C12), the next request dials
                            pooled = 0;
                            dead_in_pool = true;
                            continue;
                        }
                        Step::UdpEmptyReply => {
                            n += 1;
                            peak = peak.max(1);
                            // a target that answers every datagram with an empty one
                            let tsock = tokio::net::UdpSocket::bind(SocketAddr::new(IpAddr::V4(worker_ip_n(40)), 0)).await.map_err(|e| infra(format!("udp target bind: {e}")))?;
                            let taddr = tsock.local_addr().map_err(|e| infra(e.to_string()))?;
                            let tt = tokio::spawn(async move {
                                let mut b = vec![0u8; 2048];
                                while let Ok((_, from)) = tsock.recv_from(&mut b).await {
                                    let _ = tsock.send_to(&[], from).await;
                                }
                            });
                            let local = format!("{}:0", worker_ip());
                            let assoc = match tokio::time::timeout(Duration::from_secs(40), client.create_udp_proxy(&local, taddr)).await {
                                Ok(Ok(a)) => a,
                                other => return Err(Fail::plain("C13.serve", format!("create_udp_proxy failed: {:?}", other.map(|r| r.map_err(|e| e.to_string()))))),
                            };
                            let app = tokio::net::UdpSocket::bind(SocketAddr::new(IpAddr::V4(worker_ip()), 0)).await.map_err(|e| infra(format!("app udp bind: {e}")))?;
                            let _ = app.send_to(b"one datagram", assoc).await;
                            tokio::time::sleep(Duration::from_millis(400)).await;
                            tt.abort();
                            let dialled = fwd.accepted.load(Ordering::SeqCst) - before;
                            if pooled > 0 && dialled > 0 {
                                return Err(Fail::new("C13.reuse", "C13.reuse:pooled-session-not-used", format!("the UDP association (step {si}) opened {dialled} new TLS connection(s) although {pooled} pooled session(s) are healthy")));
                            }
                            pooled += 2 * dialled as i64 - 1;
                            // (the association is over; nothing of it may cost the session it ran on)
                        }
                        Step::KillOne(k) => {
                            let live_before = fwd.live.load(Ordering::SeqCst);
                            if !fwd.kill_one(*k as usize) {
                                continue;
                            }
                            let gone = wait_until(5_000, || fwd.live.load(Ordering::SeqCst) < live_before).await;
                            if !gone {
                                return Err(infra("the forwarder did not cut the connection"));
                            }
                            tokio::time::sleep(Duration::from_millis(500)).await;
                            // the cut session may or may not have been a pooled one: at least pooled - 1
                            // healthy sessions are still pooled, and one of them must serve the next
                            // request (a closed session in the pool is skipped, not a reason to dial)
                            pooled = (pooled - 1).max(0);
                            dead_in_pool = true;
                            continue;
                        }
                        Step::Pause(ds) => {
                            tokio::time::sleep(Duration::from_millis(*ds as u64 * 100)).await;
                            if case.short_timers && *ds >= 20 {
                                // the reaper may have closed pooled sessions that outlived the idle timeout,
                                // but never below the configured minimum: from here on `pooled` is a lower bound
                                pooled = pooled.min(case.min_idle as i64);
                            }
                            continue;
                        }
                        Step::BurstFailedDial(b) => {
                            seq_run = 0;
                            let b = *b as usize;
                            peak = peak.max(b);
                            let cut_before = fwd.cut_count.load(Ordering::SeqCst);
                            fwd.hold_and_cut.store(1, Ordering::SeqCst);
                            let mut hs = Vec::new();
                            for k in 0..b {
                                hs.push(tokio::spawn(one_request(socks, target, n + k + 1)));
                            }
                            n += b;
                            let mut failed = 0usize;
                            let mut first_fail = None;
                            for h in hs {
                                match h.await {
                                    Ok(Ok(())) => {}
                                    Ok(Err(f)) => {
                                        failed += 1;
                                        first_fail.get_or_insert(f);
                                    }
                                    Err(e) => return Err(Fail::plain("C13.serve", format!("burst task: {e}"))),
                                }
                            }
                            fwd.hold_and_cut.store(0, Ordering::SeqCst);
                            tokio::time::sleep(Duration::from_millis(60)).await;
                            let cut = fwd.cut_count.load(Ordering::SeqCst) - cut_before;
                            // only the request whose connection the network cut may fail
                            if failed > cut {
                                return Err(first_fail.unwrap());
                            }
                            let dialled = fwd.accepted.load(Ordering::SeqCst) - before;
                            let dialled_ok = dialled - cut;
                            // every request that was served either got a session of its own (+1) or took one out (-1)
                            pooled += 2 * dialled_ok as i64 - (b - failed) as i64;
                            if pooled < 0 {
                                pooled = 0;
                            }
                        }
                        Step::Burst(b) => {
                            seq_run = 0;
                            let b = *b as usize;
                            peak = peak.max(b);
                            let mut hs = Vec::new();
                            for k in 0..b {
                                hs.push(tokio::spawn(one_request(socks, target, n + k + 1)));
                            }
                            n += b;
                            for h in hs {
                                match h.await {
                                    Ok(Ok(())) => {}
                                    Ok(Err(f)) => return Err(f),
                                    Err(e) => return Err(Fail::plain("C13.serve", format!("burst task: {e}"))),
                                }
                            }
                            tokio::time::sleep(Duration::from_millis(40)).await;
                            let dialled = fwd.accepted.load(Ordering::SeqCst) - before;
                            pooled += 2 * dialled as i64 - b as i64;
                            if pooled < 0 {
                                pooled = 0;
                            }
                        }
                    }
                    // the pool's own count against the model (exact while no timer has fired): a session
                    // that was dialled and not yet taken out must be in the idle map - one that is missing
                    // is alive but unreachable: never reused, never reaped
                    if !case.short_timers && !dead_in_pool {
                        let idle = client.verif_session_pool().idle_count().await as i64;
                        if idle != pooled {
                            return Err(Fail::new(
                                "C12.count",
                                "C13.pool-model:idle-count",
                                format!("after step {si} ({n} requests, {} connections dialled) the pool holds {idle} idle sessions, {pooled} sessions were dialled and never taken out", fwd.accepted.load(Ordering::SeqCst)),
                            ));
                        }
                    }
                    let live = fwd.live.load(Ordering::SeqCst);
                    if live > peak + case.min_idle {
                        let sig = "C13.bound:session-not-returned-to-pool";
                        if !cx.tolerate(sig) {
                            return Err(Fail::new(
                                "C13.bound",
                                sig,
                                format!("after step {si} ({} requests so far) {live} sessions are open; peak simultaneous requests {peak} + min idle {} = {}", n, case.min_idle, peak + case.min_idle),
                            ));
                        }
                    }
                    let _ = seq_run;
                }
                Ok(())
            })
        });
        if let Err(f) = r {
            reset_world();
            return Err(f);
        }
        let seqs = case.steps.iter().filter(|s| matches!(s, Step::Seq | Step::Refused)).count();
        let burst_then_seq = case.steps.windows(2).any(|w| matches!(w[0], Step::Burst(_)) && matches!(w[1], Step::Seq));
        out.nt(seqs >= 3 || burst_then_seq);
        out.class_if(seqs >= 3, "sequential>=3");
        out.class_if(burst_then_seq, "burst-then-sequential");
        out.class_if(case.min_idle == 0, "min_idle=0");
        out.class_if(case.steps.windows(2).any(|w| matches!(w[0], Step::KillAll) && matches!(w[1], Step::Seq | Step::Burst(_))), "request-after-all-sessions-cut");
        out.class_if(case.steps.windows(2).any(|w| matches!(w[0], Step::KillOne(_)) && matches!(w[1], Step::Seq)), "request-after-one-session-cut");
        out.class_if(case.steps.windows(2).any(|w| matches!(w[0], Step::UdpEmptyReply) && matches!(w[1], Step::Seq)), "request-after-a-udp-association-ended");
        out.class_if(case.steps.windows(2).any(|w| matches!(w[0], Step::Refused) && matches!(w[1], Step::Seq)), "refused-then-sequential");
        out.class_if(case.steps.windows(2).any(|w| matches!(w[0], Step::BurstFailedDial(_)) && matches!(w[1], Step::Seq)), "one-dial-of-a-burst-fails-late-then-sequential");
        out.class_if(case.steps.iter().any(|s| matches!(s, Step::Pause(d) if *d >= 20)) && case.short_timers, "quiet-period>idle-timeout");
        Ok(out)
    }
}

// ------------------------------------------------------------------------------------------
// family `pooled` (Lab-M, H3): requests against a real Client whose pool holds in-memory sessions,
// while pool housekeeping is at work

use crate::lab_mem::pipe::{Fault, PipeParams};
use crate::lab_mem::{client_session, default_padding, link, run_virtual_io, within, ScriptPeer, WATCHDOG};
use crate::reference::codec::{self as rc, RFrame};

#[derive(Clone, Debug, Serialize, Deserialize)]
pub struct PooledCase {
    /// healthy sessions put into the pool first (they have the lowest sequence numbers)
    pub healthy: u8,
    /// sessions added after them whose transport takes this long to shut down (ms each)
    pub slow_closers: Vec<u16>,
    pub min_idle: u8,
    /// how long everything sits idle before housekeeping runs, in seconds (timeout is 60 s)
    pub idle_s: u16,
    /// the request starts this many ms after cleanup_expired() was started
    pub request_after_ms: u16,
    /// further non-overlapping requests afterwards
    pub more_requests: u8,
    /// Some(s): the pool's own periodic housekeeping runs with this check interval (idle timeout 60 s)
    #[serde(default)]
    pub periodic_s: Option<u16>,
}

pub struct PooledFam;

impl Family for PooledFam {
    type Case = PooledCase;
    fn name(&self) -> &'static str {
        "pooled"
    }
    fn strategy(&self, _tier: Tier) -> BoxedStrategy<PooledCase> {
        (1u8..4, proptest::collection::vec(prop_oneof![Just(10u16), Just(60), Just(400), Just(990)], 0..4), 1u8..3, prop_oneof![Just(5u16), Just(59), Just(61), Just(200)], prop_oneof![Just(0u16), Just(1), Just(40), Just(60), Just(100), Just(500), 0u16..1500], 0u8..3, proptest::option::weighted(0.4, prop_oneof![Just(1u16), Just(10), Just(30), Just(45)]))
            .prop_map(|(healthy, slow_closers, min_idle, idle_s, request_after_ms, more_requests, periodic_s)| PooledCase { healthy, slow_closers, min_idle, idle_s, request_after_ms, more_requests, periodic_s })
            .boxed()
    }
    fn run(&self, case: &PooledCase, _cx: &CaseCtx) -> CaseResult {
        let mut out = Outcome::new();
        let c = case.clone();
        let res: Result<bool, Fail> = run_virtual_io(async move {
            let case = c;
            let tls = Arc::new(tokio_rustls::TlsConnector::from(anytls_rs::util::tls::create_client_config().expect("client tls config")));
            let name = tokio_rustls::rustls::pki_types::ServerName::try_from("localhost").unwrap();
            // nothing listens where this client would dial: a request that is not served from the pool fails
            let cfg = SessionPoolConfig { check_interval: Duration::from_secs(case.periodic_s.map(|s| s as u64).unwrap_or(100_000)), idle_timeout: Duration::from_secs(60), min_idle_sessions: case.min_idle as usize };
            let client = Arc::new(anytls_rs::client::Client::with_pool_config("pw", "127.0.0.1:1".to_string(), name, tls, default_padding(), cfg));
            if case.periodic_s.is_none() {
                client.stop_session_pool_cleanup().await;
            }
            let pool = client.verif_session_pool();
            let syns: Arc<Mutex<Vec<(usize, u32)>>> = Default::default();
            let mut keep = Vec::new();
            let n_sessions = case.healthy as usize + case.slow_closers.len();
            for i in 0..n_sessions {
                let mut l = link(PipeParams::default(), PipeParams::default());
                if i >= case.healthy as usize {
                    l.c2s.arm(Fault::ShutdownDelay { ms: case.slow_closers[i - case.healthy as usize] as u64 });
                }
                let sess = client_session(&mut l, default_padding(), None);
                sess.set_seq(pool.next_seq());
                within(WATCHDOG, sess.clone().start_client()).await;
                // a scripted server that accepts every stream
                let ScriptPeer { mut r, mut w, .. } = ScriptPeer::server_side(&mut l);
                let syns2 = syns.clone();
                tokio::spawn(async move {
                    let _ = w.write_all(&rc::encode(&RFrame::new(rc::SERVER_SETTINGS, 0, b"v=2".to_vec()))).await;
                    let mut p = rc::RParser::new();
                    let mut buf = vec![0u8; 4096];
                    loop {
                        match r.read(&mut buf).await {
                            Ok(0) | Err(_) => break,
                            Ok(k) => {
                                for f in p.feed(&buf[..k]) {
                                    if f.cmd == rc::SYN {
                                        syns2.lock().unwrap().push((i, f.sid));
                                        let _ = w.write_all(&rc::encode(&RFrame::ctl(rc::SYNACK, f.sid))).await;
                                    }
                                }
                            }
                        }
                    }
                });
                pool.add_idle_session(sess.clone()).await;
                keep.push((sess, l));
            }
            tokio::time::sleep(Duration::from_secs(case.idle_s as u64)).await;
            // nothing has been idle for the 60 s timeout yet: whatever housekeeping ran in the meantime, every
            // session is still pooled and open - a session that is gone would have to be dialled again
            if case.idle_s < 59 {
                let pooled = pool.idle_count().await;
                let open = keep.iter().filter(|(s, _)| !s.is_closed()).count();
                if pooled != n_sessions || open != n_sessions {
                    return Err(Fail::new(
                        "C13.reuse",
                        "C13.reuse:pooled-session-dropped-early",
                        format!(
                            "{n_sessions} healthy sessions were pooled; after {} s idle (idle timeout 60 s, housekeeping every {} s, minimum {}) the pool holds {pooled} and {open} are still open - the others will have to be dialled again",
                            case.idle_s,
                            case.periodic_s.map(|s| s.to_string()).unwrap_or("-".into()),
                            case.min_idle
                        ),
                    ));
                }
            }
            // housekeeping and a request at the same time
            let healthy_pooled = |keep: &Vec<(Arc<anytls_rs::session::Session>, crate::lab_mem::Link)>| keep.iter().filter(|(s, _)| !s.is_closed()).count();
            let before = healthy_pooled(&keep);
            let cl = client.clone();
            let delay = case.request_after_ms as u64;
            let both = within(WATCHDOG, async {
                tokio::join!(pool.cleanup_expired(), async {
                    tokio::time::sleep(Duration::from_millis(delay)).await;
                    cl.create_proxy_stream(("pooled.test".to_string(), 80)).await.map(|(st, _s)| st.id()).map_err(|e| e.to_string())
                })
            })
            .await;
            let Some(((), r)) = both else {
                return Err(Fail::plain("C13.serve", "cleanup_expired / create_proxy_stream did not return when run at the same time"));
            };
            // the reaper keeps min_idle sessions whatever their age; the healthy ones come first in its order
            let must_survive = (case.min_idle as usize).min(before);
            let survivors = healthy_pooled(&keep);
            let mut raced = false;
            if must_survive >= 1 {
                raced = true;
                if let Err(e) = &r {
                    return Err(Fail::new(
                        "C13.reuse",
                        "C13.reuse:pooled-session-not-used",
                        format!(
                            "a request made {} ms into cleanup_expired() was not served although the pool held {before} healthy sessions and keeps at least {must_survive} ({survivors} still open afterwards): {e} - it went for a new connection instead of waiting for the pool",
                            case.request_after_ms
                        ),
                    ));
                }
                ensure!(syns.lock().unwrap().len() == 1, "C13.reuse", "the request was reported served but {} streams were opened on the pooled sessions", syns.lock().unwrap().len());
            }
            // later, non-overlapping requests: as long as a pooled session is left, it is used
            for k in 0..case.more_requests {
                let pooled_now = pool.idle_count().await;
                let live_pooled = pooled_now > 0 && healthy_pooled(&keep) > 0;
                let r = within(WATCHDOG, client.create_proxy_stream(("pooled.test".to_string(), 81 + k as u16))).await;
                let Some(r) = r else {
                    return Err(Fail::plain("C13.serve", "create_proxy_stream did not return"));
                };
                // (which entries are pooled and which are closed is the pool's business, C12; only the clear case is judged)
                if live_pooled && pooled_now == healthy_pooled(&keep) {
                    if let Err(e) = r {
                        return Err(Fail::new("C13.reuse", "C13.reuse:pooled-session-not-used", format!("request #{} after the housekeeping was not served although {pooled_now} healthy sessions are pooled: {e}", k + 2)));
                    }
                }
            }
            Ok(raced)
        });
        let raced = res?;
        out.nt(raced && !case.slow_closers.is_empty());
        out.class_if(raced, "request-during-housekeeping");
        out.class_if(case.periodic_s.is_some_and(|p| p < case.idle_s) && case.idle_s < 59, "periodic-housekeeping-ticked-before-the-timeout");
        out.class_if(case.slow_closers.iter().any(|m| *m >= 60) && case.idle_s > 60, "housekeeping-holds-the-pool>=60ms");
        Ok(out)
    }
}
