//! C02 — streams sharing a session never see each other's bytes.

use crate::engine::*;
use crate::lab_mem::pipe::PipeParams;
use crate::lab_mem::*;
use crate::props::c01;
use crate::reference::codec::{self as rc, RFrame};
use crate::ensure;
use anytls_rs::session::Stream;
use proptest::prelude::*;
use serde::{Deserialize, Serialize};
use std::sync::{Arc, Mutex};
use tokio::time::Duration;

pub fn property() -> Property {
    Property {
        id: "C02",
        level: "exploration",
        rule: "family `history`: a scripted reference peer sends a generated history of SYN/PSH/FIN/SYNACK frames over the id pool {0, 1..6, 0xFFFFFFFF} (PSH before SYN, PSH/FIN after FIN, FIN for never-opened ids, duplicate SYN, id reuse after FIN, stray SYNACKs) to a real server session, or - with the session opening the streams itself - to a real client session; every payload byte is keyed by the stream instance it belongs to; a reference model (id -> never opened | open(instance) | finished) says what each instance must have read and whether it must have seen end-of-stream. Family `concurrent`: 2-8 concurrent streams between two real sessions with interleaved writers and instance-keyed bytes. Non-trivial = >= 2 simultaneously open streams and >= 1 stray/stale/duplicate frame, or >= 2 writers. Distinct = distinct serialized case. In the client role four cases in ten install forced pre-emptions (H1, including the points inside open_stream) and leave frames in flight during an open whenever none of the frames sent since the session last drained can belong to the next stream (ids at or below the highest id opened so far, or 0xFFFFFFFF). Histories also contain local sends: the session under test sends 1-3000 keyed bytes with send_data on any of its instances so far (also ones the peer has finished); at the end the scripted peer's view is judged - for every id with a single instance the peer received a prefix of what was sent, and at least everything that was sent before the peer's FIN for that instance (data of a live stream never disappears, whatever happened on other streams). One concurrent case in five runs over a transport that delivers nothing for 1-31 s after n delivered bytes and then recovers (capacity <= 1024).",
        assumptions: vec![
            "reference codec and the id->instance model in harness/src/props/c02.rs",
            "tokio paused clock / current-thread scheduler; harness pipe",
        ],
        families: vec![(Box::new(HistoryFam), 15_000, 600_000), (Box::new(ConcFam), 1_000, 60_000)],
    }
}

const POOL: [u32; 8] = [0, 1, 2, 3, 4, 5, 6, 0xFFFF_FFFF];

#[derive(Clone, Debug, Serialize, Deserialize)]
pub enum HOp {
    /// server role: the peer sends SYN(id). client role: the session under test opens its next stream.
    Syn(u8),
    Psh(u8, usize),
    Fin(u8),
    SynAck(u8, bool),
    /// client role only: a SYN frame from the server (must be ignored)
    StraySyn(u8),
    /// the session under test sends this many bytes on one of its stream instances (any instance so
    /// far, also one the peer has finished - forwarders keep writing until they notice) the way the
    /// forwarding loops do (send_data)
    LocalSend(u8, usize),
}

#[derive(Clone, Debug, Serialize, Deserialize)]
pub struct HistoryCase {
    pub server_role: bool,
    pub ops: Vec<HOp>,
    pub to_session: PipeParams,
    /// batch: how many frames are written back-to-back before the peer lets the session run
    pub batch: u8,
    /// client role: frames that cannot belong to the stream about to be opened (ids at or below the
    /// highest id opened so far, or 0xFFFFFFFF) stay in flight while open_stream runs, and the
    /// session's tasks are pre-empted at the H1 points as these yield counts say
    #[serde(default)]
    pub inflight_yields: Option<Vec<u8>>,
}

pub struct HistoryFam;

#[derive(Default)]
struct Inst {
    id: u32,
    expected: Vec<u8>,
    finished: bool,
    replaced: bool,
    /// bytes the session under test sent on this instance
    sent: Vec<u8>,
    /// ... of which this many were sent after the peer's FIN for it had been written
    sent_after_fin: usize,
}

thread_local! {
    /// the stream handles of the running case, in instance order (spawn_reader is called once per instance)
    static HANDLES: std::cell::RefCell<Vec<Arc<Stream>>> = const { std::cell::RefCell::new(Vec::new()) };
}

#[derive(Default)]
struct Seen {
    data: Vec<u8>,
    eof: bool,
    err: Option<String>,
}

fn spawn_reader(st: Arc<Stream>) -> Arc<Mutex<Seen>> {
    HANDLES.with(|h| h.borrow_mut().push(st.clone()));
    let seen: Arc<Mutex<Seen>> = Default::default();
    let s2 = seen.clone();
    tokio::spawn(async move {
        let reader = st.reader().clone();
        let mut buf = vec![0u8; 4096];
        loop {
            let mut g = reader.lock().await;
            match g.read(&mut buf).await {
                Ok(0) => {
                    s2.lock().unwrap().eof = true;
                    break;
                }
                Ok(n) => s2.lock().unwrap().data.extend_from_slice(&buf[..n]),
                Err(e) => {
                    s2.lock().unwrap().err = Some(e.to_string());
                    break;
                }
            }
        }
    });
    seen
}

impl Family for HistoryFam {
    type Case = HistoryCase;
    fn name(&self) -> &'static str {
        "history"
    }
    fn strategy(&self, _tier: Tier) -> BoxedStrategy<HistoryCase> {
        let id = 0u8..8;
        let len = weighted_sizes(vec![(1, 0..=0), (5, 1..=40), (2, 41..=2000), (1, 65535..=65535)]);
        let op = prop_oneof![
            4 => id.clone().prop_map(HOp::Syn),
            8 => (id.clone(), len).prop_map(|(i, n)| HOp::Psh(i, n)),
            3 => id.clone().prop_map(HOp::Fin),
            1 => (id.clone(), any::<bool>()).prop_map(|(i, e)| HOp::SynAck(i, e)),
            1 => id.prop_map(HOp::StraySyn),
            3 => (any::<u8>(), prop_oneof![1usize..40, 41usize..3000]).prop_map(|(k, n)| HOp::LocalSend(k, n)),
        ];
        let infl = proptest::option::weighted(0.4, proptest::collection::vec(prop_oneof![2 => Just(0u8), 2 => Just(1u8), 1 => Just(2u8), 1 => Just(5u8)], 1..40));
        (any::<bool>(), proptest::collection::vec(op, 1..40), c01::pipe_params(), 1u8..12, infl)
            .prop_map(|(server_role, ops, to_session, batch, inflight_yields)| HistoryCase { server_role, ops, to_session, batch, inflight_yields })
            .boxed()
    }
    fn run(&self, case: &HistoryCase, _cx: &CaseCtx) -> CaseResult {
        let mut out = Outcome::new();
        let case2 = case.clone();
        let total: usize = case.ops.iter().map(|o| if let HOp::Psh(_, n) = o { *n + 7 } else { 7 }).sum();
        let res: Result<(usize, usize, usize, usize), Fail> = run_virtual(async move {
            let case = case2;
            HANDLES.with(|h| h.borrow_mut().clear());
            let has_local = case.ops.iter().any(|o| matches!(o, HOp::LocalSend(..)));
            if let Some(y) = &case.inflight_yields {
                install_schedule(y.clone());
            }
            let p = c01::bound_work(&case.to_session, total);
            let (c2s, s2c) = if case.server_role { (p, PipeParams::default()) } else { (PipeParams::default(), p) };
            let mut l = link(c2s, s2c);
            let pad = default_padding();
            // model
            let mut insts: Vec<Inst> = Vec::new();
            let mut open: std::collections::HashMap<u32, usize> = Default::default();
            let mut seen: Vec<Arc<Mutex<Seen>>> = Vec::new();
            let mut max_open = 0usize;
            let mut strays = 0usize;
            let mut opened_ids: Vec<u32> = Vec::new();
            let mut inflight_opens = 0usize;
            let mut local_sends = 0usize;
            let mut unsettled: Vec<u32> = Vec::new();

            let mut peer;
            let mut server_rx = None;
            let client;
            let _server;
            if case.server_role {
                let (s, rx, _t) = server_session(&mut l, pad);
                _server = Some(s);
                client = None;
                server_rx = Some(rx);
                peer = ScriptPeer::client_side(&mut l);
                let md5 = format!("{:x}", md5::compute(anytls_rs::padding::DEFAULT_PADDING_SCHEME.as_bytes()));
                peer.send(&[RFrame::new(rc::SETTINGS, 0, format!("v=2\nclient=ref\npadding-md5={md5}").into_bytes())]).await.ok();
            } else {
                let c = client_session(&mut l, pad, None);
                within(WATCHDOG, c.clone().start_client()).await;
                if has_local {
                    // what every real caller does before its first write; otherwise nothing leaves the session
                    c.disable_buffering();
                }
                client = Some(c);
                _server = None;
                peer = ScriptPeer::server_side(&mut l);
            }

            let mut pending: Vec<RFrame> = Vec::new();
            let mut in_batch = 0u8;
            for op in &case.ops {
                let mut flush_now = false;
                match op {
                    HOp::Syn(i) => {
                        if case.server_role {
                            let id = POOL[*i as usize];
                            pending.push(RFrame::ctl(rc::SYN, id));
                            if let Some(old) = open.get(&id) {
                                insts[*old].replaced = true;
                                strays += 1;
                            }
                            insts.push(Inst { id, ..Default::default() });
                            open.insert(id, insts.len() - 1);
                            flush_now = true; // the stream must surface before we can attach a reader
                        } else {
                            // flush what the peer has queued so far, then let the session open a stream
                            // "before the stream was opened" must mean "processed before": let the
                            // session consume everything already sent, otherwise a frame still in
                            // flight legitimately belongs to the stream that is about to get its id
                            let top = opened_ids.iter().copied().max();
                            // everything sent since the session was last left to consume its input
                            unsettled.extend(pending.iter().map(|f| f.sid));
                            let cannot_be_next = unsettled.iter().all(|sid| *sid == 0xFFFF_FFFF || top.is_some_and(|t| *sid <= t));
                            let in_flight = case.inflight_yields.is_some() && cannot_be_next && !pending.is_empty();
                            if !pending.is_empty() {
                                if within(WATCHDOG, peer.send(&pending)).await.is_none() {
                                    return Err(Fail::plain("C02.stray", "the session under test stopped reading during the history: the peer's frames are no longer taken off the transport (one virtual hour)"));
                                }
                                pending.clear();
                            }
                            if in_flight {
                                inflight_opens += 1;
                            } else {
                                settle(Duration::from_millis(5)).await;
                                unsettled.clear();
                            }
                            let c = client.as_ref().unwrap();
                            let (st, _rx) = match within(WATCHDOG, c.open_stream()).await {
                                Some(Ok(x)) => x,
                                _ => return Err(Fail::plain("C02.ids", "open_stream failed or hung on a live session")),
                            };
                            ensure!(
                                !opened_ids.contains(&st.id()),
                                "C02.ids",
                                "open_stream handed out stream id {} twice within one session",
                                st.id()
                            );
                            opened_ids.push(st.id());
                            insts.push(Inst { id: st.id(), ..Default::default() });
                            open.insert(st.id(), insts.len() - 1);
                            seen.push(spawn_reader(st));
                        }
                    }
                    HOp::Psh(i, n) => {
                        let id = POOL[*i as usize];
                        let data = match open.get(&id) {
                            Some(k) => {
                                let inst = &mut insts[*k];
                                let d = keyed(*k as u32 + 100, 2, inst.expected.len() as u64, *n);
                                inst.expected.extend_from_slice(&d);
                                d
                            }
                            None => {
                                strays += 1;
                                // stray data: tagged so that it would be recognised anywhere
                                keyed(0xDEAD, 3, 0, *n)
                            }
                        };
                        pending.push(RFrame::new(rc::PSH, id, data));
                    }
                    HOp::Fin(i) => {
                        let id = POOL[*i as usize];
                        pending.push(RFrame::ctl(rc::FIN, id));
                        match open.remove(&id) {
                            Some(k) => insts[k].finished = true,
                            None => strays += 1,
                        }
                    }
                    HOp::SynAck(i, err) => {
                        let id = POOL[*i as usize];
                        pending.push(RFrame::new(rc::SYNACK, id, if *err { b"refused".to_vec() } else { Vec::new() }));
                        strays += 1;
                    }
                    HOp::LocalSend(k, n) => {
                        if !insts.is_empty() && seen.len() == insts.len() {
                            let j = idx((*k as u16) << 8, insts.len());
                            let st = HANDLES.with(|h| h.borrow().get(j).cloned());
                            if let Some(st) = st {
                                let d = keyed(j as u32 + 500, 4, insts[j].sent.len() as u64, *n);
                                // send_data fails on a stream that was closed locally; a stream the peer has
                                // finished may refuse or accept - only what it accepted counts
                                if st.send_data(bytes::Bytes::from(d.clone())).is_ok() {
                                    if insts[j].finished || insts[j].replaced {
                                        insts[j].sent_after_fin += d.len();
                                    }
                                    insts[j].sent.extend_from_slice(&d);
                                    local_sends += 1;
                                }
                            }
                        }
                    }
                    HOp::StraySyn(i) => {
                        if !case.server_role {
                            pending.push(RFrame::ctl(rc::SYN, POOL[*i as usize]));
                            strays += 1;
                        }
                    }
                }
                max_open = max_open.max(open.len());
                in_batch += 1;
                if flush_now || in_batch >= case.batch {
                    in_batch = 0;
                    if !pending.is_empty() {
                        unsettled.extend(pending.iter().map(|f| f.sid));
                        match within(WATCHDOG, peer.send(&pending)).await {
                            Some(Ok(_)) => {}
                            Some(Err(_)) => return Err(Fail::plain("C02.stray", "the session under test stopped reading (transport closed) during the history")),
                            None => return Err(Fail::plain("C02.stray", "the session under test stopped reading during the history: the peer's frames are no longer taken off the transport (one virtual hour)")),
                        }
                        pending.clear();
                    }
                    if flush_now {
                        // attach a reader to the newly surfaced instance
                        let rx = server_rx.as_mut().unwrap();
                        match within(WATCHDOG, rx.recv()).await.flatten() {
                            Some(st) => {
                                let want = insts.last().unwrap().id;
                                ensure!(st.id() == want, "C02.route", "SYN({want}) surfaced a stream with id {}", st.id());
                                seen.push(spawn_reader(st));
                            }
                            None => return Err(Fail::plain("C02.route", "a SYN did not surface a stream at the server within one virtual hour")),
                        }
                    }
                }
            }
            if !pending.is_empty() && within(WATCHDOG, peer.send(&pending)).await.is_none() {
                return Err(Fail::plain("C02.stray", "the session under test stopped reading during the history: the peer's frames are no longer taken off the transport (one virtual hour)"));
            }
            settle(Duration::from_secs(2)).await;
            if let Some(c) = &client {
                ensure!(!c.is_closed(), "C02.stray", "the client session closed itself during the history");
            }
            if let Some(s) = &_server {
                ensure!(!s.is_closed(), "C02.stray", "the server session closed itself during the history");
            }
            // compare
            for (k, inst) in insts.iter().enumerate() {
                let s = seen[k].lock().unwrap();
                let tag = format!("instance #{k} (stream id {})", inst.id);
                ensure!(s.err.is_none(), "C02.stray", "{tag}: read error {:?}", s.err);
                let n = s.data.len().min(inst.expected.len());
                ensure!(
                    s.data[..n] == inst.expected[..n],
                    "C02.route",
                    "{tag}: read bytes that were not sent to it (first difference at offset {})",
                    s.data.iter().zip(inst.expected.iter()).position(|(a, b)| a != b).unwrap_or(n)
                );
                ensure!(s.data.len() <= inst.expected.len(), "C02.route", "{tag}: read {} bytes, only {} were addressed to it", s.data.len(), inst.expected.len());
                if inst.replaced {
                    // a duplicate SYN on the same id: same id, not a different stream - prefix only
                    continue;
                }
                ensure!(
                    s.data.len() == inst.expected.len(),
                    "C02.stray",
                    "{tag}: read {} of the {} bytes addressed to it (data disappeared)",
                    s.data.len(),
                    inst.expected.len()
                );
                if inst.finished {
                    ensure!(s.eof, "C02.fin", "{tag}: FIN was sent but the reader did not reach end-of-stream");
                } else {
                    ensure!(!s.eof, "C02.fin", "{tag}: reader reached end-of-stream although no FIN was sent for it");
                }
            }
            // what the session under test sent: every byte of a live instance arrives at the peer under
            // that instance's id, whatever happened to other streams (ids with more than one instance
            // are left out: the peer cannot tell the instances apart)
            if local_sends > 0 {
                let out_frames = peer.drain(Duration::from_millis(300)).await;
                let mut by_sid: std::collections::HashMap<u32, Vec<u8>> = Default::default();
                for f in peer.seen.iter().filter(|f| f.cmd == rc::PSH) {
                    by_sid.entry(f.sid).or_default().extend_from_slice(&f.data);
                }
                let _ = out_frames;
                for (k, inst) in insts.iter().enumerate() {
                    if inst.sent.is_empty() || insts.iter().filter(|o| o.id == inst.id).count() > 1 {
                        continue;
                    }
                    let got = by_sid.get(&inst.id).cloned().unwrap_or_default();
                    let tag = format!("instance #{k} (stream id {})", inst.id);
                    let n = got.len().min(inst.sent.len());
                    ensure!(got[..n] == inst.sent[..n] && got.len() <= inst.sent.len(), "C02.route", "{tag}: the peer received bytes under this id that the stream did not send");
                    let must = inst.sent.len() - inst.sent_after_fin;
                    ensure!(
                        got.len() >= must,
                        "C02.stray",
                        "{tag}: the session sent {} bytes on this stream ({} of them after the peer's FIN for it), the peer received {} - data of a live stream disappeared",
                        inst.sent.len(),
                        inst.sent_after_fin,
                        got.len()
                    );
                }
            }
            Ok((max_open, strays, insts.len(), inflight_opens + 1000 * local_sends.min(1)))
        });
        let (max_open, strays, n_inst, inflight_opens) = res?;
        let local = inflight_opens >= 1000;
        let inflight_opens = inflight_opens % 1000;
        out.class_if(local, "local-sends");
        out.class_if(inflight_opens > 0, "open-with-foreign-frames-in-flight");
        out.nt(max_open >= 2 && strays >= 1);
        out.class_if(max_open >= 2, "open>=2");
        out.class_if(strays >= 1, "stray-frames");
        out.class_if(n_inst >= 3, "instances>=3");
        out.class_if(case.server_role, "server-role");
        out.class_if(!case.server_role, "client-role");
        Ok(out)
    }
}

// ------------------------------------------------------------------------------------------

pub struct ConcFam;

impl Family for ConcFam {
    type Case = c01::PipeCase;
    fn name(&self) -> &'static str {
        "concurrent"
    }
    fn strategy(&self, _tier: Tier) -> BoxedStrategy<c01::PipeCase> {
        let chunk = weighted_sizes(vec![(4, 1..=200), (2, 201..=5000), (1, 65530..=65540)]);
        let api = prop_oneof![Just(c01::WriteApi::Frame), Just(c01::WriteApi::Send)];
        let dp = (proptest::collection::vec(chunk, 1..6), api, prop_oneof![Just(64usize), Just(4096), Just(65536)])
            .prop_map(|(chunks, api, b)| c01::DirPlan { chunks, api, bufs: vec![b], exact: false });
        let plan = (dp.clone(), dp).prop_map(|(up, down)| c01::StreamPlan { up, down });
        (
            proptest::collection::vec(plan, 2..=8),
            c01::pipe_params(),
            c01::pipe_params(),
            proptest::collection::vec(0u8..3, 0..40),
            any::<u64>(),
            // a transport that delivers nothing for a while in the middle of the traffic and recovers
            proptest::option::weighted(0.2, (any::<bool>(), prop_oneof![Just(0u16), 1u16..3000, any::<u16>()], prop_oneof![Just(1u8), Just(4), Just(6), Just(11), Just(31)])),
        )
            .prop_map(|(streams, c2s, s2c, yields, draw_seed, stall)| c01::PipeCase { scheme: c01::SchemeSel::Default, streams, c2s, s2c, yields, draw_seed, end_by_close: false, late_readers: false, stall })
            .boxed()
    }
    fn run(&self, case: &c01::PipeCase, _cx: &CaseCtx) -> CaseResult {
        // c01's oracle keys every byte by (plan, direction, offset): a byte delivered on the wrong
        // stream, or missing from its own, fails C01.prefix / C01.complete there. Re-label for C02.
        match c01::run_pipe_case(case) {
            Ok(mut o) => {
                o.nontrivial = case.streams.len() >= 2;
                o.class_if(case.stall.is_some_and(|s| s.2 >= 6), "transport-stalled>=6s-with-several-streams");
                Ok(o)
            }
            Err(f) => Err(Fail::new("C02.route", format!("C02.route:{}", f.sig), f.detail)),
        }
    }
    fn case_budget_s(&self) -> u64 {
        180
    }
}
