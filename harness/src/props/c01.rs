//! C01 — every stream is a lossless, ordered, exact byte pipe.
//!
//! Lab-M family `pipe`: real client session <-> real server session over the harness' pipes.

use crate::engine::*;
use crate::gens::scheme::*;
use crate::lab_mem::pipe::PipeParams;
use crate::lab_mem::*;
use crate::reference::codec as rc;
use anytls_rs::session::{Session, Stream};
use bytes::Bytes;
use proptest::prelude::*;
use serde::{Deserialize, Serialize};
use std::collections::HashMap;
use std::sync::{Arc, Mutex};
use tokio::time::Duration;

pub fn property() -> Property {
    Property {
        id: "C01",
        level: "exploration",
        rule: "family `pipe` (Lab-M): 1-4 streams between a real client session and a real server session over in-memory pipes with generated fragmentation (1, 2, 6, 7, 8, 13, 4096, 16384, all), capacity (64 B .. 1 MiB), padding scheme (default / stop=0 / generated), per stream and direction a list of chunk sizes from boundary classes (0, 1, 2-100, 8191-8193, 16383-16385, 65534-65537, 70000, 131072, 200000) with position-keyed content, write API (write_data_frame / send_data / prefix+send_data), reader buffer sizes (1 .. 64 KiB, read / read_exact), forced pre-emptions at the hook points. Oracles: prefix after every read, completeness under a virtual watchdog, no end-of-stream while the stream is open, no failing write. Non-trivial = a chunk >= 65536, or transport fragments smaller than a frame header/payload, or >= 2 streams, or a reader buffer smaller than a chunk. Distinct = distinct serialized case. Since the fourth round of seeded changes the pipe family also generates transports that deliver nothing for 1-61 s of virtual time after n delivered bytes and then recover (capacity <= 1024 so that the writers sit in their writes), and the tunnel family pushes 1-8 MB against an application that starts reading 150/600 ms late in 4 KiB sips (one case in eight). The tunnel family also uploads 12 or 24 MiB through either front-end to a target that reads nothing for 0.3 / 1.5 s and then reads at its own pace without echoing (two fixed cases and one random case in 33): every byte must arrive, in order, unchanged. Three tunnel cases in ten (and two fixed ones with a 100 KB greeting and a late reader) let the application shut down its sending direction as soon as it has written everything and go on reading: everything still on its way back must arrive.",
        assumptions: vec![
            "tokio paused clock and current-thread scheduler; the harness pipe",
            "server session wired as handle_connection wires it (callback channel, recv_loop, process_stream_data)",
        ],
        families: vec![(Box::new(PipeFam), 3_000, 60_000), (Box::new(crate::props::e2e::TunnelFam), 120, 1_500)],
    }
}

#[derive(Clone, Debug, Serialize, Deserialize, PartialEq)]
pub enum WriteApi {
    /// Session::write_data_frame for every chunk
    Frame,
    /// Stream::send_data for every chunk
    Send,
    /// write_data_frame for the first n chunks, send_data afterwards (what udp_client.rs does)
    FrameThenSend(u8),
}

#[derive(Clone, Debug, Serialize, Deserialize)]
pub struct DirPlan {
    pub chunks: Vec<usize>,
    pub api: WriteApi,
    pub bufs: Vec<usize>,
    pub exact: bool,
}

#[derive(Clone, Debug, Serialize, Deserialize)]
pub struct StreamPlan {
    pub up: DirPlan,
    pub down: DirPlan,
}

#[derive(Clone, Debug, Serialize, Deserialize)]
pub enum SchemeSel {
    Default,
    Stop0,
    Gen(SchemeGen),
}

impl SchemeSel {
    pub fn text(&self) -> String {
        match self {
            SchemeSel::Default => anytls_rs::padding::DEFAULT_PADDING_SCHEME.to_string(),
            SchemeSel::Stop0 => "stop=0".to_string(),
            SchemeSel::Gen(g) => g.text(),
        }
    }
}

#[derive(Clone, Debug, Serialize, Deserialize)]
pub struct PipeCase {
    pub scheme: SchemeSel,
    pub streams: Vec<StreamPlan>,
    pub c2s: PipeParams,
    pub s2c: PipeParams,
    pub yields: Vec<u8>,
    pub draw_seed: u64,
    /// "when it ends it has seen all of it": once the client's writers are done the client session
    /// is closed; the server-side readers must still obtain every byte and then end-of-stream.
    /// (Only the up direction carries data in this mode.)
    #[serde(default)]
    pub end_by_close: bool,
    /// end_by_close mode: the readers only start once the end has been processed by their session
    /// (everything they will ever get is queued by then)
    #[serde(default)]
    pub late_readers: bool,
    /// (down direction?, after this many transport bytes, seconds): the transport delivers nothing
    /// for a while and then recovers; with a small capacity every writer sits in its write meanwhile
    #[serde(default)]
    pub stall: Option<(bool, u16, u8)>,
}

pub struct PipeFam;

pub fn chunk_size() -> BoxedStrategy<usize> {
    weighted_sizes(vec![
        (1, 0..=0),
        (3, 1..=100),
        (2, 101..=4000),
        (1, 8191..=8193),
        (1, 16383..=16385),
        (2, 65534..=65537),
        (1, 70000..=70000),
        (1, 131072..=131072),
        (1, 200000..=200000),
    ])
}

pub fn pipe_params() -> BoxedStrategy<PipeParams> {
    let frag = prop_oneof![Just(1usize), Just(2), Just(6), Just(7), Just(8), Just(13), Just(4096), Just(16384)];
    let cap = prop_oneof![Just(64usize), Just(1024), Just(65536), Just(1usize << 20)];
    (cap, proptest::collection::vec(frag.clone(), 0..4), proptest::collection::vec(frag, 0..4))
        .prop_map(|(capacity, write_sizes, read_sizes)| PipeParams { capacity, write_sizes, read_sizes, delay_ms: 0 })
        .boxed()
}

/// Keep the number of transport polls per case bounded: raise tiny fragments for big totals.
pub fn bound_work(p: &PipeParams, total: usize) -> PipeParams {
    let floor = (total / 40_000).max(1);
    let mut q = p.clone();
    for w in q.write_sizes.iter_mut() {
        *w = (*w).max(floor);
    }
    for r in q.read_sizes.iter_mut() {
        *r = (*r).max(floor);
    }
    q.capacity = q.capacity.max(floor);
    q
}

fn dir_plan() -> BoxedStrategy<DirPlan> {
    let api = prop_oneof![3 => Just(WriteApi::Frame), 3 => Just(WriteApi::Send), 1 => (1u8..3).prop_map(WriteApi::FrameThenSend)];
    let buf = prop_oneof![Just(1usize), Just(2), Just(7), Just(100), Just(1024), Just(8192), Just(65536)];
    (proptest::collection::vec(chunk_size(), 0..6), api, proptest::collection::vec(buf, 1..4), any::<bool>())
        .prop_map(|(chunks, api, bufs, exact)| DirPlan { chunks, api, bufs, exact })
        .boxed()
}

#[derive(Default)]
struct Progress {
    got: usize,
    state: &'static str,
}

async fn write_dir(sess: Arc<Session>, st: Arc<Stream>, plan: DirPlan, key: u32, dir: u8) -> Result<(), Fail> {
    let mut off = 0u64;
    for (i, n) in plan.chunks.iter().enumerate() {
        let data = Bytes::from(keyed(key, dir, off, *n));
        off += *n as u64;
        let use_frame = match plan.api {
            WriteApi::Frame => true,
            WriteApi::Send => false,
            WriteApi::FrameThenSend(k) => i < k as usize,
        };
        if use_frame {
            match within(WATCHDOG, sess.write_data_frame(st.id(), data)).await {
                Some(Ok(())) => {}
                Some(Err(e)) => {
                    return Err(Fail::new("C01.api", "C01.api:write_data_frame:err", format!("write_data_frame of chunk #{i} ({n} bytes) failed on a live session: {e}")));
                }
                None => {
                    return Err(Fail::new("C01.api", "C01.api:write_data_frame:hang", format!("write_data_frame of chunk #{i} ({n} bytes) did not return within one virtual hour")));
                }
            }
        } else if let Err(e) = st.send_data(data) {
            return Err(Fail::new("C01.api", "C01.api:send_data:err", format!("send_data of chunk #{i} ({n} bytes) failed on a live session: {e}")));
        }
        // let other tasks interleave between chunks
        tokio::task::yield_now().await;
    }
    Ok(())
}

thread_local! {
    /// set while a case runs in end-by-close mode: readers expect end-of-stream behind the data
    static EXPECT_END: std::cell::Cell<bool> = const { std::cell::Cell::new(false) };
    static LATE_READERS: std::cell::Cell<bool> = const { std::cell::Cell::new(false) };
    /// the first content failure seen by any reader of the current case (more telling than the
    /// stall that usually follows it)
    static FIRST_FAIL: std::cell::RefCell<Option<Fail>> = const { std::cell::RefCell::new(None) };
}

async fn read_dir(st: Arc<Stream>, plan: DirPlan, key: u32, dir: u8, prog: Arc<Mutex<Progress>>) -> Result<(), Fail> {
    let r = read_dir_inner(st, plan, key, dir, prog).await;
    if let Err(f) = &r {
        FIRST_FAIL.with(|s| {
            let mut s = s.borrow_mut();
            if s.is_none() {
                *s = Some(f.clone());
            }
        });
    }
    r
}

async fn read_dir_inner(st: Arc<Stream>, plan: DirPlan, key: u32, dir: u8, prog: Arc<Mutex<Progress>>) -> Result<(), Fail> {
    let total: usize = plan.chunks.iter().sum();
    let mut got = 0usize;
    let mut k = 0usize;
    let reader = st.reader().clone();
    let who = if dir == 0 { "server reading up-stream" } else { "client reading down-stream" };
    while got < total {
        let bsz = plan.bufs[k % plan.bufs.len()].max(1);
        k += 1;
        let mut buf = vec![0u8; bsz.min(if plan.exact { total - got } else { usize::MAX })];
        let mut g = reader.lock().await;
        let n = if plan.exact {
            match g.read_exact(&mut buf).await {
                Ok(()) => buf.len(),
                Err(e) => {
                    return Err(Fail::new("C01.noend", "C01.noend:read_exact", format!("{who} plan #{key}: read_exact failed after {got}/{total} bytes: {e}")));
                }
            }
        } else {
            match g.read(&mut buf).await {
                Ok(0) => {
                    if EXPECT_END.with(|e| e.get()) {
                        return Err(Fail::new("C01.complete", "C01.complete:ended-early", format!("{who} plan #{key}: the stream ended after {got} of the {total} bytes written before the writer's session was closed")));
                    }
                    return Err(Fail::new("C01.noend", "C01.noend:eof", format!("{who} plan #{key}: end-of-stream (0-byte read) after {got} of {total} bytes while the stream is open")));
                }
                Ok(n) => n,
                Err(e) => {
                    return Err(Fail::new("C01.noend", "C01.noend:err", format!("{who} plan #{key}: read error after {got}/{total} bytes: {e}")));
                }
            }
        };
        drop(g);
        let want = keyed(key, dir, got as u64, n);
        if buf[..n] != want[..] {
            let first = buf[..n].iter().zip(want.iter()).position(|(a, b)| a != b).unwrap_or(0);
            return Err(Fail::new(
                "C01.prefix",
                "C01.prefix",
                format!("{who} plan #{key}: bytes {}..{} differ from what was written (first difference at stream offset {})", got, got + n, got + first),
            ));
        }
        got += n;
        let mut p = prog.lock().unwrap();
        p.got = got;
    }
    prog.lock().unwrap().state = "complete";
    let mut buf = [0u8; 16];
    let mut g = reader.lock().await;
    if EXPECT_END.with(|e| e.get()) && dir == 0 {
        // the writer's session is closed after its last write: end-of-stream must follow the data
        return match within(WATCHDOG, g.read(&mut buf)).await {
            Some(Ok(0)) | Some(Err(_)) => Ok(()),
            Some(Ok(n)) => Err(Fail::new("C01.complete", "C01.complete:extra", format!("{who} plan #{key}: {n} extra bytes after the {total} written"))),
            None => Err(Fail::new("C01.complete", "C01.complete:no-end", format!("{who} plan #{key}: all {total} bytes arrived but the stream never ended after the writer's session was closed"))),
        };
    }
    // nothing may follow: neither data nor end-of-stream while the stream is open
    match within(Duration::from_secs(5), g.read(&mut buf)).await {
        None => Ok(()),
        Some(Ok(0)) => Err(Fail::new("C01.noend", "C01.noend:eof-after", format!("{who} plan #{key}: end-of-stream observed although nobody closed the stream"))),
        Some(Ok(n)) => Err(Fail::new("C01.complete", "C01.complete:extra", format!("{who} plan #{key}: {n} extra bytes after the {total} written"))),
        Some(Err(e)) => Err(Fail::new("C01.noend", "C01.noend:err-after", format!("{who} plan #{key}: read error on an open stream: {e}"))),
    }
}

pub fn run_pipe_case(case: &PipeCase) -> CaseResult {
    let mut out = Outcome::new();
    let total: usize = case.streams.iter().map(|s| s.up.chunks.iter().sum::<usize>() + s.down.chunks.iter().sum::<usize>()).sum();
    let mut c2s = bound_work(&case.c2s, total);
    let mut s2c = bound_work(&case.s2c, total);
    let stall = case.stall;
    if let Some((down, _, _)) = stall {
        // a stall only bites when the writers cannot get rid of their bytes
        let p = if down { &mut s2c } else { &mut c2s };
        p.capacity = p.capacity.min(1024);
    }
    let text = case.scheme.text();
    let mut plans = case.streams.clone();
    let end_by_close = case.end_by_close;
    if end_by_close {
        for p in plans.iter_mut() {
            p.down.chunks.clear();
        }
    }
    EXPECT_END.with(|e| e.set(end_by_close));
    LATE_READERS.with(|e| e.set(end_by_close && case.late_readers));
    let yields = case.yields.clone();
    let seed = case.draw_seed;
    let n_streams = plans.len();

    FIRST_FAIL.with(|s| *s.borrow_mut() = None);
    let res: Result<(Vec<u8>, SchedLog), Fail> = run_virtual(async move {
        install_draw(seed);
        let sched = install_schedule(yields);
        let mut l = link(c2s, s2c);
        if let Some((down, at, secs)) = stall {
            (if down { &l.s2c } else { &l.c2s }).stall_reader_at(at as usize, secs as u64 * 1000);
        }
        let pad = padding(&text);
        let client = client_session(&mut l, pad.clone(), None);
        let (server, mut rx, _tasks) = server_session(&mut l, pad);
        match within(WATCHDOG, client.clone().start_client()).await {
            Some(Ok(())) => {}
            other => return Err(Fail::new("C01.api", "C01.api:start_client", format!("start_client: {:?}", other.map(|r| r.map_err(|e| e.to_string()))))),
        }
        let idmap: Arc<Mutex<HashMap<u32, usize>>> = Arc::new(Mutex::new(HashMap::new()));
        let progress: Vec<(Arc<Mutex<Progress>>, Arc<Mutex<Progress>>)> = (0..n_streams).map(|_| Default::default()).collect();
        let mut handles: Vec<tokio::task::JoinHandle<Result<(), Fail>>> = Vec::new();

        // server dispatcher: one task per arriving stream
        {
            let idmap = idmap.clone();
            let plans = plans.clone();
            let server = server.clone();
            let progress: Vec<_> = progress.iter().map(|p| p.0.clone()).collect();
            let n = n_streams;
            handles.push(tokio::spawn(async move {
                let mut subs = Vec::new();
                for _ in 0..n {
                    let Some(st) = within(WATCHDOG, rx.recv()).await.flatten() else {
                        return Err(Fail::new("C01.complete", "C01.complete:no-stream", "the server session never surfaced an opened stream"));
                    };
                    let idmap = idmap.clone();
                    let plans = plans.clone();
                    let server = server.clone();
                    let progress = progress.clone();
                    subs.push(tokio::spawn(async move {
                        // wait until the opener has published which plan this id belongs to
                        let key = loop {
                            if let Some(k) = idmap.lock().unwrap().get(&st.id()).copied() {
                                break k;
                            }
                            tokio::time::sleep(Duration::from_millis(1)).await;
                        };
                        let plan = plans[key].clone();
                        if LATE_READERS.with(|e| e.get()) {
                            // a reader that lags behind its session's receive task
                            let _ = within(WATCHDOG, async {
                                while !server.is_closed() {
                                    tokio::time::sleep(Duration::from_millis(100)).await;
                                }
                            })
                            .await;
                        }
                        let w = tokio::spawn(write_dir(server.clone(), st.clone(), plan.down.clone(), key as u32, 1));
                        let r = read_dir(st.clone(), plan.up.clone(), key as u32, 0, progress[key].clone()).await;
                        let w = w.await.unwrap_or_else(|e| Err(Fail::new("C01.api", "C01.api:panic", format!("server writer task: {e}"))));
                        r.and(w)
                    }));
                }
                let mut res = Ok(());
                for s in subs {
                    let r = s.await.unwrap_or_else(|e| Err(Fail::new("C01.api", "C01.api:panic", format!("server stream task: {e}"))));
                    if res.is_ok() {
                        res = r;
                    }
                }
                res
            }));
        }
        let writers_done = Arc::new(std::sync::atomic::AtomicUsize::new(0));
        if end_by_close {
            // the owner closes the client session once every writer has returned and the wire has been
            // quiet for a while (forwarded send_data chunks are on it by then)
            let client = client.clone();
            let wd = writers_done.clone();
            let n = n_streams;
            let c2s_h = l.c2s.clone();
            tokio::spawn(async move {
                loop {
                    tokio::time::sleep(Duration::from_millis(50)).await;
                    if wd.load(std::sync::atomic::Ordering::SeqCst) == n {
                        break;
                    }
                }
                let mut last = c2s_h.accepted();
                // (a stalled transport is quiet too: outlast the stall)
                let quiet = 2 + stall.map(|s| s.2 as u64).unwrap_or(0);
                loop {
                    tokio::time::sleep(Duration::from_secs(quiet)).await;
                    let now = c2s_h.accepted();
                    if now == last {
                        break;
                    }
                    last = now;
                }
                let _ = client.close().await;
            });
        }
        // client side: one task per plan
        for (key, plan) in plans.iter().cloned().enumerate() {
            let client = client.clone();
            let idmap = idmap.clone();
            let writers_done = writers_done.clone();
            let prog = progress[key].1.clone();
            handles.push(tokio::spawn(async move {
                let (st, _synack) = match within(WATCHDOG, client.open_stream()).await {
                    Some(Ok(x)) => x,
                    other => return Err(Fail::new("C01.api", "C01.api:open_stream", format!("open_stream: {:?}", other.map(|r| r.map(|_| ()).map_err(|e| e.to_string()))))),
                };
                idmap.lock().unwrap().insert(st.id(), key);
                client.disable_buffering();
                if plan.up.chunks.is_empty() {
                    // a real caller always writes the destination first; without any write the SYN
                    // of a fresh session would stay in the initial buffer. Flush it with a heartbeat.
                    let _ = client
                        .write_control_frame(anytls_rs::protocol::Frame::control(anytls_rs::protocol::Command::HeartRequest, 0))
                        .await;
                }
                let w = tokio::spawn(write_dir(client.clone(), st.clone(), plan.up.clone(), key as u32, 0));
                if end_by_close {
                    // no data comes down in this mode; the writer's result is all there is
                    let _ = prog;
                    let w = w.await.unwrap_or_else(|e| Err(Fail::new("C01.api", "C01.api:panic", format!("client writer task: {e}"))));
                    // forwarded chunks (send_data) are written by the session's own task: wait until the
                    // session has nothing left to put on the wire before the owner closes it
                    writers_done.fetch_add(1, std::sync::atomic::Ordering::SeqCst);
                    return w;
                }
                let r = read_dir(st.clone(), plan.down.clone(), key as u32, 1, prog).await;
                let w = w.await.unwrap_or_else(|e| Err(Fail::new("C01.api", "C01.api:panic", format!("client writer task: {e}"))));
                r.and(w)
            }));
        }

        let joined = within(WATCHDOG, async {
            let mut res = Ok(());
            for h in handles {
                let r = h.await.unwrap_or_else(|e| Err(Fail::new("C01.api", "C01.api:panic", format!("task: {e}"))));
                if res.is_ok() {
                    res = r;
                }
            }
            res
        })
        .await;
        if let Some(f) = FIRST_FAIL.with(|s| s.borrow_mut().take()) {
            return Err(f);
        }
        match joined {
            Some(Ok(())) => {}
            Some(Err(f)) => return Err(f),
            None => {
                let mut msg = String::new();
                for (k, (up, down)) in progress.iter().enumerate() {
                    let tu: usize = plans[k].up.chunks.iter().sum();
                    let td: usize = plans[k].down.chunks.iter().sum();
                    msg.push_str(&format!(" plan #{k}: up {}/{tu} down {}/{td};", up.lock().unwrap().got, down.lock().unwrap().got));
                }
                return Err(Fail::new(
                    "C01.complete",
                    "C01.complete:stalled",
                    format!("not every byte arrived within one virtual hour (client closed={}, server closed={}):{msg}", client.is_closed(), server.is_closed()),
                ));
            }
        }
        if !end_by_close && (client.is_closed() || server.is_closed()) {
            return Err(Fail::new("C01.api", "C01.api:session-closed", "a session closed itself during a fault-free transfer"));
        }
        let log = sched.lock().unwrap().clone();
        Ok((l.c2s.raw(), log))
    });
    let (raw, sched) = res?;

    // classification
    let (frames, used) = rc::parse(&raw);
    let big = case.streams.iter().any(|s| s.up.chunks.iter().chain(s.down.chunks.iter()).any(|c| *c >= 65536));
    let tiny = case.c2s.min_fragment() < 7 || case.s2c.min_fragment() < 7;
    let small_buf = case.streams.iter().any(|s| {
        let mb = *s.up.bufs.iter().min().unwrap_or(&1);
        s.up.chunks.iter().any(|c| *c > mb)
    });
    out.class_if(big, "chunk>=64KiB");
    out.class_if(tiny && total > 0, "fragments<header");
    out.class_if(n_streams >= 2, "streams>=2");
    out.class_if(small_buf, "reader-buffer<chunk");
    out.class_if(sched.yields_taken > 0, "forced-preemption");
    out.class_if(case.streams.iter().any(|s| s.up.chunks.contains(&0) || s.down.chunks.contains(&0)), "empty-chunk");
    out.class_if(frames.iter().any(|f| f.cmd == rc::WASTE), "padding-on-wire");
    out.class_if(used != raw.len(), "wire-tail");
    out.class_if(case.end_by_close, "ended-by-session-close");
    out.class_if(case.stall.is_some_and(|s| s.2 >= 6), "transport-stalled>=6s");
    out.class_if(case.end_by_close && case.late_readers, "late-readers");
    out.nt((big || (tiny && total > 0) || n_streams >= 2 || small_buf) && total > 0);
    Ok(out)
}

impl Family for PipeFam {
    type Case = PipeCase;
    fn name(&self) -> &'static str {
        "pipe"
    }
    fn strategy(&self, _tier: Tier) -> BoxedStrategy<PipeCase> {
        let scheme_sel = prop_oneof![
            3 => Just(SchemeSel::Default),
            1 => Just(SchemeSel::Stop0),
            2 => scheme(size_any(), 8).prop_map(SchemeSel::Gen),
        ];
        let plan = (dir_plan(), dir_plan()).prop_map(|(up, down)| StreamPlan { up, down });
        (
            scheme_sel,
            proptest::collection::vec(plan, 1..=4),
            pipe_params(),
            pipe_params(),
            prop_oneof![2 => Just(Vec::new()), 1 => proptest::collection::vec(0u8..3, 0..40)],
            any::<u64>(),
            proptest::bool::weighted(0.25),
            any::<bool>(),
            proptest::option::weighted(0.2, (any::<bool>(), prop_oneof![Just(0u16), 1u16..2000, any::<u16>()], prop_oneof![Just(1u8), Just(4), Just(6), Just(11), Just(31), Just(61)])),
        )
            .prop_map(|(scheme, streams, c2s, s2c, yields, draw_seed, end_by_close, late_readers, stall)| PipeCase { scheme, streams, c2s, s2c, yields, draw_seed, end_by_close, late_readers, stall })
            .boxed()
    }
    fn fixed_cases(&self, _tier: Tier) -> Vec<PipeCase> {
        let mut v = Vec::new();
        let dp = |chunks: Vec<usize>, api: WriteApi| DirPlan { chunks, api, bufs: vec![8192], exact: false };
        for api in [WriteApi::Frame, WriteApi::Send] {
            for n in [0usize, 1, 65535, 65536, 65537, 70000, 131072, 200000] {
                v.push(PipeCase {
                    scheme: SchemeSel::Default,
                    streams: vec![StreamPlan { up: dp(vec![5, n, 3], api.clone()), down: dp(vec![n, 1], api.clone()) }],
                    c2s: PipeParams::default(),
                    s2c: PipeParams::default(),
                    yields: vec![],
                    draw_seed: n as u64,
                    end_by_close: false,
                    late_readers: false,
                    stall: if n == 70000 { Some((api == WriteApi::Send, 3000, 11)) } else { None },
                });
            }
        }
        v
    }
    fn run(&self, case: &PipeCase, _cx: &CaseCtx) -> CaseResult {
        run_pipe_case(case)
    }
    fn case_budget_s(&self) -> u64 {
        180
    }
}
