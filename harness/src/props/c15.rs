//! C15 — UDP datagrams keep their boundaries and contents through the tunnel.

use crate::engine::*;
use crate::ensure;
use crate::lab_mem::keyed;
use crate::lab_sock::world::*;
use crate::lab_sock::*;
use anytls_rs::session::{Stream, StreamReader};
use bytes::Bytes;
use proptest::prelude::*;
use serde::{Deserialize, Serialize};
use std::net::{IpAddr, SocketAddr};
use std::sync::Arc;
use tokio::net::UdpSocket;
use tokio::time::Duration;

pub fn property() -> Property {
    Property {
        id: "C15",
        level: "exploration",
        rule: "family `tunnel` (Lab-S end to end): create_udp_proxy -> real client -> TLS -> real server -> UDP recorder on loopback; datagram sizes from {1, 2, 3, 254-258, 1024, 1472, 8190-8194, 16382-16386, 32767, 32768, 65000, 65506, 65507} with keyed contents, sequences in both directions (0-3 replies of other sizes per request), strictly lock-step so that socket buffers cannot drop anything; a decoy UDP recorder must stay silent. Family `relay` (server side, controlled fragmentation): the public handle_udp_over_tcp fed a reference UDP-over-TCP byte stream (request header + u16-prefixed packets) through a stream channel cut at generated positions (inside the 2-byte prefix, inside the request, byte at a time, several packets in one chunk); datagrams observed at a loopback UDP socket, replies injected at the relay's socket and read back from the stream's writer channel under the reference framing. Oracles: one datagram in => exactly one identical datagram out, in order, at the requested target / at the application's socket; nothing else delivered to anyone. Non-trivial = size >= 256, or a cut inside a length prefix, or >= 2 packets back-to-back in one chunk. Distinct = distinct serialized case. Three tunnel cases in ten send a stray datagram from a third socket to the server's relay socket after exchange k: what becomes of that datagram is not judged, but every later datagram of the application must still arrive at the requested target and the third socket must receive nothing. One tunnel case in four closes the target's socket after exchange k, sends one datagram into the closed port (lost: nothing can deliver it), brings the target back on the same address and goes on: every later datagram must be delivered. One tunnel case in four lets the application go on from a new socket (same address, another port) after exchange k: answers must follow it there and the socket it left gets nothing more. Family `backlog` (Lab-S, own server and client per case): a sibling stream made through the library API queues 0 / 8 / 200 / 1500 chunks of 16 KiB with send_data towards a sink, the association is made right behind it (it takes the same, pooled session) and 1-3 datagrams are sent at once: they arrive at the target exactly, in order, and the sibling's upload completes. In the tunnel family the target sends the 2-4 replies to one request back to back in four cases in ten (several datagrams wait on the server's relay socket at once), and in one case in seven the application sends all its datagrams back to back; such bursts are compared as multisets (each datagram exactly once, boundaries and contents intact, order not judged) and only made where they fit the socket buffers (sum of sizes <= 60000).",
        assumptions: vec![
            "kernel loopback delivers UDP datagrams up to 65507 bytes in lock-step without loss",
            "reference UDP-over-TCP framing (sing-box v2 connect format) in this module",
        ],
        families: vec![(Box::new(TunnelFam), 150, 6_000), (Box::new(RelayFam), 1_500, 60_000), (Box::new(ClientRelayFam), 24, 300), (Box::new(BacklogFam), 40, 600)],
    }
}

pub fn size_strategy() -> BoxedStrategy<usize> {
    weighted_sizes(vec![(3, 1..=3), (2, 254..=258), (2, 4..=253), (1, 1024..=1024), (1, 1472..=1472), (1, 8190..=8194), (1, 16382..=16386), (1, 32767..=32768), (1, 65000..=65000), (2, 65506..=65507)])
}

#[derive(Clone, Debug, Serialize, Deserialize)]
pub struct TunnelCase {
    /// per request datagram: (size, reply sizes)
    pub exchanges: Vec<(usize, Vec<usize>)>,
    /// the target listens on ::1 instead of a 127/8 address
    #[serde(default)]
    pub v6_target: bool,
    /// Some(k): after exchange k a socket that is not the target sends a datagram to the server's
    /// relay socket (a stray packet, a scanner). Whatever becomes of that datagram, the application's
    /// next datagrams still go to the requested target and nothing goes to the stranger.
    #[serde(default)]
    pub stranger_after: Option<u8>,
    /// Some(k): after exchange k the target's port is closed for a moment; a datagram sent meanwhile is
    /// lost (nothing can deliver it), then the target is back on the same address and the association
    /// must go on delivering
    #[serde(default)]
    pub target_restart_after: Option<u8>,
    /// Some(k): after exchange k the application goes on from a new socket (same address, another
    /// port - a per-query resolver, a restarted application): answers follow it there, the old
    /// socket gets nothing more
    #[serde(default)]
    pub new_app_socket_after: Option<u8>,
    /// the target sends the replies to one request back to back (several datagrams are queued on the
    /// server's relay socket at once) instead of waiting for each to arrive; they are compared as a
    /// multiset (order among datagrams is not promised). Only where the burst fits the socket buffers.
    #[serde(default)]
    pub burst_replies: bool,
    /// the application sends all its datagrams back to back (queued on the client's association
    /// socket at once); no replies in this mode. Only where the burst fits the socket buffers.
    #[serde(default)]
    pub burst_requests: bool,
}

/// what a burst may add up to so that no socket buffer on the way can overflow
const BURST_BUDGET: usize = 60_000;

pub struct TunnelFam;

async fn recv_dgram(sock: &UdpSocket, ms: u64) -> Option<(Vec<u8>, SocketAddr)> {
    let mut buf = vec![0u8; 70000];
    match tokio::time::timeout(Duration::from_millis(ms), sock.recv_from(&mut buf)).await {
        Ok(Ok((n, from))) => Some((buf[..n].to_vec(), from)),
        _ => None,
    }
}

/// The datagram a case sends while its target is away. Nothing can deliver it where it was meant to
/// go, and while the port is free the kernel may hand it to a wildcard socket of somebody else - the
/// server's relay socket of the case another worker is running -, which then forwards it like any
/// stray datagram. Wherever it turns up, in this case or in a neighbour's, it is not judged.
const AWAY: &[u8] = b"sent-while-the-target-was-away";

fn judged(t: &UdpTarget) -> Vec<(SocketAddr, Vec<u8>)> {
    t.received.lock().unwrap().iter().filter(|(_, d)| d != AWAY).cloned().collect()
}

async fn recv_reply(sock: &UdpSocket, ms: u64) -> Option<(Vec<u8>, SocketAddr)> {
    loop {
        match recv_dgram(sock, ms).await {
            Some((d, _)) if d == AWAY => continue,
            other => return other,
        }
    }
}

impl Family for TunnelFam {
    type Case = TunnelCase;
    fn name(&self) -> &'static str {
        "tunnel"
    }
    fn strategy(&self, _tier: Tier) -> BoxedStrategy<TunnelCase> {
        (proptest::collection::vec((size_strategy(), proptest::collection::vec(size_strategy(), 0..5)), 1..8), proptest::bool::weighted(0.25), proptest::option::weighted(0.3, 0u8..3), proptest::option::weighted(0.25, 0u8..3), proptest::option::weighted(0.25, 0u8..3), proptest::bool::weighted(0.4), proptest::bool::weighted(0.15))
            .prop_map(|(exchanges, v6_target, stranger_after, target_restart_after, new_app_socket_after, burst_replies, burst_requests)| {
                if burst_requests {
                    TunnelCase { exchanges, v6_target, stranger_after: None, target_restart_after: None, new_app_socket_after: None, burst_replies: false, burst_requests }
                } else {
                    TunnelCase { exchanges, v6_target, stranger_after, target_restart_after, new_app_socket_after, burst_replies, burst_requests }
                }
            })
            .boxed()
    }
    fn case_budget_s(&self) -> u64 {
        120
    }
    fn run(&self, case: &TunnelCase, _cx: &CaseCtx) -> CaseResult {
        let mut out = Outcome::new();
        let c = case.clone();
        let r = with_world(|w| {
            w.rt.block_on(async {
                let case = c;
                let mut target = if case.v6_target {
                    match UdpTarget::start(IpAddr::V6(std::net::Ipv6Addr::LOCALHOST)).await {
                        Ok(t) => t,
                        Err(_) => UdpTarget::start(IpAddr::V4(worker_ip_n(20))).await?,
                    }
                } else {
                    UdpTarget::start(IpAddr::V4(worker_ip_n(20))).await?
                };
                let decoy = UdpTarget::start(IpAddr::V4(worker_ip_n(21))).await?;
                let local = format!("{}:0", worker_ip());
                let assoc = match tokio::time::timeout(Duration::from_secs(40), w.client.create_udp_proxy(&local, target.addr)).await {
                    Ok(Ok(a)) => a,
                    Ok(Err(e)) => return Err(Fail::plain("C15.one", format!("create_udp_proxy failed: {e}"))),
                    Err(_) => return Err(Fail::plain("C15.one", "create_udp_proxy did not return")),
                };
                let mut app = UdpSocket::bind(SocketAddr::new(IpAddr::V4(worker_ip()), 0)).await.map_err(|e| infra(format!("app udp bind: {e}")))?;
                let mut old_apps: Vec<UdpSocket> = Vec::new();
                let mut relay_addr: Option<SocketAddr> = None;
                let stranger = UdpSocket::bind(SocketAddr::new(if target.addr.is_ipv6() { IpAddr::V6(std::net::Ipv6Addr::LOCALHOST) } else { IpAddr::V4(worker_ip_n(22)) }, 0)).await.map_err(|e| infra(format!("stranger udp bind: {e}")))?;
                let mut stray_sent = false;
                let mut restarted = false;
                if case.burst_requests && case.exchanges.len() >= 2 && case.exchanges.iter().map(|e| e.0 + 64).sum::<usize>() <= BURST_BUDGET {
                    // everything the application has to say, back to back
                    let mut sent: Vec<Vec<u8>> = Vec::new();
                    for (k, (size, _)) in case.exchanges.iter().enumerate() {
                        let payload = keyed(k as u32, 6, 0, *size);
                        app.send_to(&payload, assoc).await.map_err(|e| infra(format!("app send of {size} bytes: {e}")))?;
                        sent.push(payload);
                    }
                    let n = sent.len();
                    let arrived = wait_until(10_000, || judged(&target).len() >= n).await;
                    tokio::time::sleep(Duration::from_millis(50)).await;
                    let mut got: Vec<Vec<u8>> = judged(&target).iter().map(|g| g.1.clone()).collect();
                    let sizes_got: Vec<usize> = got.iter().map(|g| g.len()).collect();
                    let sizes_sent: Vec<usize> = sent.iter().map(|g| g.len()).collect();
                    got.sort();
                    sent.sort();
                    ensure!(arrived && got == sent, "C15.one", "the application sent {n} datagrams back to back (sizes {sizes_sent:?}); the target received {} datagrams (sizes {sizes_got:?}){}", got.len(), if sizes_got.len() == n { " - boundaries or contents differ" } else { "" });
                    ensure!(decoy.count() == 0, "C15.none", "a datagram was delivered to a socket nobody asked for");
                    return Ok(());
                }
                for (k, (size, replies)) in case.exchanges.iter().enumerate() {
                    let payload = keyed(k as u32, 6, 0, *size);
                    let before = judged(&target).len();
                    app.send_to(&payload, assoc).await.map_err(|e| infra(format!("app send of {size} bytes: {e}")))?;
                    let arrived = wait_until(10_000, || judged(&target).len() > before).await;
                    ensure!(arrived, "C15.one", "datagram #{k} ({size} bytes) never reached the requested target {}", target.addr);
                    tokio::time::sleep(Duration::from_millis(20)).await;
                    let got: Vec<(SocketAddr, Vec<u8>)> = judged(&target)[before..].to_vec();
                    ensure!(
                        got.len() == 1,
                        "C15.one",
                        "datagram #{k} ({size} bytes) arrived as {} datagrams of sizes {:?}",
                        got.len(),
                        got.iter().map(|g| g.1.len()).collect::<Vec<_>>()
                    );
                    ensure!(got[0].1 == payload, "C15.one", "datagram #{k} ({size} bytes) arrived with {} bytes / altered contents", got[0].1.len());
                    relay_addr = Some(got[0].0);
                    ensure!(decoy.count() == 0, "C15.none", "a datagram was delivered to a socket nobody asked for");
                    // replies from the target
                    if case.burst_replies && replies.len() >= 2 && replies.iter().map(|r| r + 64).sum::<usize>() <= BURST_BUDGET {
                        // back to back: several datagrams wait on the relay's socket at once
                        let mut sent: Vec<Vec<u8>> = Vec::new();
                        for (j, rs) in replies.iter().enumerate() {
                            let rp = keyed(k as u32 * 16 + j as u32, 7, 0, *rs);
                            target.sock.send_to(&rp, relay_addr.unwrap()).await.map_err(|e| infra(format!("target reply: {e}")))?;
                            sent.push(rp);
                        }
                        let mut got: Vec<Vec<u8>> = Vec::new();
                        while got.len() < sent.len() {
                            match recv_reply(&app, 5_000).await {
                                Some((d, from)) => {
                                    ensure!(from == assoc, "C15.one", "reply came from {from}, the association is {assoc}");
                                    got.push(d);
                                }
                                None => break,
                            }
                        }
                        let sizes_got: Vec<usize> = got.iter().map(|g| g.len()).collect();
                        got.sort();
                        sent.sort();
                        ensure!(got == sent, "C15.one", "the target answered datagram #{k} with {} datagrams back to back (sizes {replies:?}); the application received {} datagrams (sizes {sizes_got:?}){}", sent.len(), got.len(), if got.len() == sent.len() { " - boundaries or contents differ" } else { "" });
                        // (the rest of the exchange as usual)
                    } else {
                        for (j, rs) in replies.iter().enumerate() {
                            let rp = keyed(k as u32 * 16 + j as u32, 7, 0, *rs);
                            target.sock.send_to(&rp, relay_addr.unwrap()).await.map_err(|e| infra(format!("target reply: {e}")))?;
                            match recv_reply(&app, 10_000).await {
                                Some((d, from)) => {
                                    ensure!(d == rp, "C15.one", "reply #{j} to datagram #{k} ({rs} bytes) arrived with {} bytes / altered contents", d.len());
                                    ensure!(from == assoc, "C15.one", "reply came from {from}, the association is {assoc}");
                                }
                                None => return Err(Fail::plain("C15.one", format!("reply #{j} to datagram #{k} ({rs} bytes) never reached the application"))),
                            }
                        }
                    }
                    if case.new_app_socket_after == Some(k as u8) {
                        let fresh = UdpSocket::bind(SocketAddr::new(IpAddr::V4(worker_ip()), 0)).await.map_err(|e| infra(format!("app udp bind: {e}")))?;
                        old_apps.push(std::mem::replace(&mut app, fresh));
                    }
                    if case.target_restart_after == Some(k as u8) {
                        // the target goes away, one datagram runs into the closed port, the target returns
                        let sock_keepalive = target.sock.clone();
                        drop(sock_keepalive);
                        let (addr, record) = target.stop().await;
                        tokio::time::sleep(Duration::from_millis(30)).await;
                        app.send_to(AWAY, assoc).await.map_err(|e| infra(format!("app send: {e}")))?;
                        tokio::time::sleep(Duration::from_millis(300)).await;
                        // (in the meantime the kernel may have handed the port to a wildcard socket of somebody
                        // else - the relay of another association, say: then this case ends here, unjudged)
                        target = match UdpTarget::start_at(addr, record).await {
                            Ok(t) => t,
                            Err(_) => return Ok(()),
                        };
                        // (should that datagram have been on its way for so long that it finds the target back,
                        // it is delivered - before the next exchange takes its snapshot)
                        tokio::time::sleep(Duration::from_millis(200)).await;
                        while recv_reply(&app, 50).await.is_some() {}
                        restarted = true;
                    }
                    if case.stranger_after == Some(k as u8) {
                        stranger.send_to(b"not-from-the-target", relay_addr.unwrap()).await.map_err(|e| infra(format!("stranger send: {e}")))?;
                        stray_sent = true;
                        // the property says nothing about what becomes of it: whatever reaches the
                        // application from it is taken off the socket and not judged
                        tokio::time::sleep(Duration::from_millis(100)).await;
                        while recv_reply(&app, 100).await.is_some() {}
                        // (the relay answers to where it last heard the application: a socket it has left, if
                        // it has not sent from the new one yet)
                        for o in &old_apps {
                            while recv_reply(o, 30).await.is_some() {}
                        }
                    }
                }
                if stray_sent {
                    ensure!(recv_dgram(&stranger, 50).await.is_none(), "C15.none", "a datagram was delivered to a socket that is not the requested target (the sender of a stray datagram to the relay)");
                }
                // nothing else arrives anywhere
                ensure!(recv_reply(&app, 50).await.is_none(), "C15.none", "the application received a datagram nobody sent");
                for o in &old_apps {
                    ensure!(recv_reply(o, 30).await.is_none(), "C15.none", "a datagram was delivered to the socket the application had used before it moved on to a new one");
                }
                let _ = restarted;
                ensure!(judged(&target).len() == case.exchanges.len(), "C15.none", "the target received {} datagrams, {} were sent", judged(&target).len(), case.exchanges.len());
                Ok(())
            })
        });
        if let Err(f) = r {
            reset_world();
            return Err(f);
        }
        let big = case.exchanges.iter().any(|(s, r)| *s >= 256 || r.iter().any(|x| *x >= 256));
        out.nt(big);
        out.class_if(big, "size>=256");
        out.class_if(case.exchanges.iter().any(|(s, _)| *s >= 65000), "near-udp-max");
        out.class_if(case.exchanges.iter().any(|(_, r)| r.len() >= 2), "several-replies");
        out.class_if(case.v6_target, "ipv6-target");
        out.class_if(case.burst_replies && case.exchanges.iter().any(|(_, r)| r.len() >= 2 && r.iter().map(|x| x + 64).sum::<usize>() <= BURST_BUDGET && r.iter().any(|x| *x != r[0])), "replies-of-different-sizes-back-to-back");
        out.class_if(case.burst_requests && case.exchanges.len() >= 2 && case.exchanges.iter().map(|e| e.0 + 64).sum::<usize>() <= BURST_BUDGET, "requests-back-to-back");
        out.class_if(case.stranger_after.is_some_and(|k| (k as usize) + 1 < case.exchanges.len()), "stray-datagram-then-more-traffic");
        out.class_if(case.target_restart_after.is_some_and(|k| (k as usize) + 1 < case.exchanges.len()), "target-away-for-a-moment-then-more-traffic");
        out.class_if(case.new_app_socket_after.is_some_and(|k| (k as usize) + 1 < case.exchanges.len()), "application-moves-to-a-new-socket");
        Ok(out)
    }
}

// ------------------------------------------------------------------------------------------
// family `relay`

#[derive(Clone, Debug, Serialize, Deserialize)]
pub struct RelayCase {
    pub sizes: Vec<usize>,
    /// 0 = one chunk, 1 = byte at a time (small totals only), 2 = cuts
    pub mode: u8,
    pub cuts: Vec<u16>,
    pub replies: Vec<usize>,
}

pub struct RelayFam;

pub fn uot_request(target: SocketAddr) -> Vec<u8> {
    let mut v = vec![1u8];
    match target {
        SocketAddr::V4(a) => {
            v.push(1);
            v.extend_from_slice(&a.ip().octets());
            v.extend_from_slice(&a.port().to_be_bytes());
        }
        SocketAddr::V6(a) => {
            v.push(4);
            v.extend_from_slice(&a.ip().octets());
            v.extend_from_slice(&a.port().to_be_bytes());
        }
    }
    v
}

impl Family for RelayFam {
    type Case = RelayCase;
    fn name(&self) -> &'static str {
        "relay"
    }
    fn strategy(&self, _tier: Tier) -> BoxedStrategy<RelayCase> {
        let small = weighted_sizes(vec![(4, 1..=40), (2, 254..=258), (1, 1000..=1500), (1, 8190..=8194), (1, 65506..=65507)]);
        (proptest::collection::vec(small.clone(), 1..6), 0u8..3, proptest::collection::vec(any::<u16>(), 1..8), proptest::collection::vec(small, 0..3))
            .prop_map(|(sizes, mode, cuts, replies)| RelayCase { sizes, mode, cuts, replies })
            .boxed()
    }
    fn case_budget_s(&self) -> u64 {
        120
    }
    fn run(&self, case: &RelayCase, _cx: &CaseCtx) -> CaseResult {
        let mut out = Outcome::new();
        let c = case.clone();
        let r: Result<(bool, bool), Fail> = run_real(async move {
            let case = c;
            let target = UdpTarget::start(IpAddr::V4(worker_ip_n(22))).await?;
            // the byte stream a conforming client sends
            let mut stream = uot_request(target.addr);
            let mut prefix_pos = Vec::new();
            let payloads: Vec<Vec<u8>> = case.sizes.iter().enumerate().map(|(k, s)| keyed(k as u32, 8, 0, *s)).collect();
            for p in &payloads {
                prefix_pos.push(stream.len());
                stream.extend_from_slice(&(p.len() as u16).to_be_bytes());
                stream.extend_from_slice(p);
            }
            let total = stream.len();
            let mut pts: Vec<usize> = match case.mode {
                0 => vec![],
                1 if total <= 4000 => (1..total).collect(),
                _ => case.cuts.iter().map(|c| idx(*c, total + 1)).collect(),
            };
            // always try a cut inside the first length prefix in cut mode
            if case.mode == 2 {
                pts.push(prefix_pos[0] + 1);
            }
            pts.sort_unstable();
            pts.dedup();
            pts.retain(|p| *p > 0 && *p < total);
            let cut_in_prefix = pts.iter().any(|p| prefix_pos.iter().any(|q| *p == q + 1));
            let multi_in_chunk = {
                let mut bounds = vec![0usize];
                bounds.extend(pts.iter().copied());
                bounds.push(total);
                bounds.windows(2).any(|w| prefix_pos.iter().filter(|q| **q >= w[0] && **q + 2 <= w[1]).count() >= 2)
            };
            pts.push(total);

            let (in_tx, in_rx) = tokio::sync::mpsc::unbounded_channel::<Bytes>();
            let (out_tx, mut out_rx) = tokio::sync::mpsc::unbounded_channel::<(u32, Bytes)>();
            let (st, _synack) = Stream::new(5, StreamReader::new(5, in_rx), out_tx);
            let st = Arc::new(st);
            let handler = tokio::spawn(anytls_rs::server::udp_proxy::handle_udp_over_tcp(st.clone()));
            // Feed chunk by chunk; after every chunk wait for the datagrams of all packets that
            // are complete by now (lock-step per chunk). Large totals are clipped at packet ends
            // so that no more than ~150 KB is ever in flight towards the UDP socket at once.
            let ends: Vec<usize> = payloads.iter().enumerate().map(|(k, p)| prefix_pos[k] + 2 + p.len()).collect();
            let mut bounds: Vec<usize> = pts.clone();
            if total > 150_000 {
                bounds.extend(ends.iter().copied());
                bounds.sort_unstable();
                bounds.dedup();
            }
            let mut fed = 0usize;
            for b in bounds {
                if in_tx.send(Bytes::copy_from_slice(&stream[fed..b])).is_err() {
                    return Err(Fail::plain("C15.one", "the relay stopped reading its stream"));
                }
                fed = b;
                if case.mode == 1 {
                    tokio::task::yield_now().await;
                }
                let done = ends.iter().filter(|e| **e <= fed).count();
                let ok = wait_until(10_000, || target.count() >= done).await;
                ensure!(
                    ok,
                    "C15.one",
                    "after {fed} of {total} stream bytes {done} packets are complete but only {} datagrams reached the target (packet sizes {:?}, cuts {:?})",
                    target.count(),
                    case.sizes,
                    &pts[..pts.len().min(10)]
                );
            }
            tokio::time::sleep(Duration::from_millis(10)).await;
            {
                let got = target.received.lock().unwrap().clone();
                ensure!(
                    got.len() == payloads.len(),
                    "C15.one",
                    "{} packets were fed, {} datagrams of sizes {:?} arrived (packet sizes {:?}, cuts {:?})",
                    payloads.len(),
                    got.len(),
                    got.iter().map(|g| g.1.len()).collect::<Vec<_>>(),
                    case.sizes,
                    &pts[..pts.len().min(10)]
                );
                for (k, p) in payloads.iter().enumerate() {
                    ensure!(got[k].1 == *p, "C15.one", "packet #{k} ({} bytes) arrived as {} bytes / altered or out of order (cuts {:?})", p.len(), got[k].1.len(), &pts[..pts.len().min(10)]);
                }
            }
            // replies injected at the relay's socket come back framed on the stream
            let relay = target.received.lock().unwrap().last().map(|x| x.0);
            if let Some(relay) = relay {
                let mut acc: Vec<u8> = Vec::new();
                for (j, rs) in case.replies.iter().enumerate() {
                    let rp = keyed(100 + j as u32, 9, 0, *rs);
                    target.sock.send_to(&rp, relay).await.map_err(|e| infra(format!("reply inject: {e}")))?;
                    // read one framed packet from the writer channel
                    loop {
                        if acc.len() >= 2 {
                            let l = u16::from_be_bytes([acc[0], acc[1]]) as usize;
                            if acc.len() >= 2 + l {
                                let pkt: Vec<u8> = acc[2..2 + l].to_vec();
                                acc.drain(..2 + l);
                                ensure!(pkt == rp, "C15.one", "reply #{j} ({rs} bytes) came back on the stream as a {}-byte packet / altered", pkt.len());
                                break;
                            }
                        }
                        match tokio::time::timeout(Duration::from_secs(10), out_rx.recv()).await {
                            Ok(Some((sid, b))) => {
                                ensure!(sid == 5, "C15.none", "reply written for stream {sid}");
                                acc.extend_from_slice(&b);
                            }
                            _ => return Err(Fail::plain("C15.one", format!("reply #{j} ({rs} bytes) never appeared on the stream"))),
                        }
                    }
                }
                ensure!(acc.is_empty(), "C15.none", "{} stray bytes on the stream after the replies", acc.len());
            }
            ensure!(target.count() == payloads.len(), "C15.none", "the target received {} datagrams for {} packets", target.count(), payloads.len());
            drop(in_tx);
            let _ = tokio::time::timeout(Duration::from_secs(2), handler).await;
            Ok((cut_in_prefix, multi_in_chunk))
        });
        let (cut_in_prefix, multi) = r?;
        let big = case.sizes.iter().any(|s| *s >= 256);
        out.nt(big || cut_in_prefix || multi);
        out.class_if(big, "size>=256");
        out.class_if(cut_in_prefix, "cut-inside-length-prefix");
        out.class_if(multi, "several-packets-in-one-chunk");
        out.class_if(!case.replies.is_empty(), "replies");
        Ok(out)
    }
}

// ------------------------------------------------------------------------------------------
// family `client_relay` (Lab-S): the real Client's UDP association against the reference server,
// which echoes every packet back with its framing cut into several data frames and pauses between
// them (a foreign server may fragment and stall the tunnel's byte stream in any way)

use crate::lab_sock::refpeer::{Behaviour, RefServer};
use crate::lab_sock::{PASSWORD, run_real};

#[derive(Clone, Debug, Serialize, Deserialize)]
pub struct ClientRelayCase {
    pub sizes: Vec<usize>,
    pub cuts: Vec<u16>,
    pub pause_ms: u64,
}

pub struct ClientRelayFam;

impl Family for ClientRelayFam {
    type Case = ClientRelayCase;
    fn name(&self) -> &'static str {
        "client_relay"
    }
    fn strategy(&self, _tier: Tier) -> BoxedStrategy<ClientRelayCase> {
        let small = weighted_sizes(vec![(4, 1..=40), (2, 254..=258), (1, 1000..=1500), (1, 8190..=8194), (1, 65506..=65507)]);
        (proptest::collection::vec(small, 1..4), proptest::collection::vec(prop_oneof![Just(1u16), Just(700), any::<u16>()], 1..4), prop_oneof![3 => Just(0u64), 2 => Just(40), 2 => Just(1300), 1 => Just(2600)])
            .prop_map(|(sizes, cuts, pause_ms)| ClientRelayCase { sizes, cuts, pause_ms })
            .boxed()
    }
    fn case_budget_s(&self) -> u64 {
        120
    }
    fn run(&self, case: &ClientRelayCase, _cx: &CaseCtx) -> CaseResult {
        let mut out = Outcome::new();
        let c = case.clone();
        let r: Result<(), Fail> = run_real(async move {
            let case = c;
            let beh = Behaviour { synack: true, echo: false, heartbeat: true, server_settings: true, scheme: None, schemes: vec![], heartbeat_limit: None, uot_echo: Some((case.cuts.clone(), case.pause_ms)), ..Default::default() };
            let srv = RefServer::start(PASSWORD, beh).await?;
            let cfg = anytls_rs::util::tls::create_client_config().map_err(|e| infra(e.to_string()))?;
            let connector = Arc::new(tokio_rustls::TlsConnector::from(cfg));
            let name = tokio_rustls::rustls::pki_types::ServerName::IpAddress(srv.addr.ip().into());
            let client = anytls_rs::client::Client::new(PASSWORD, srv.addr.to_string(), name, connector, crate::lab_mem::default_padding());
            let local = format!("{}:0", worker_ip());
            let target: SocketAddr = "127.0.0.1:9".parse().unwrap(); // never dialled: the reference server echoes
            let assoc = match tokio::time::timeout(Duration::from_secs(40), client.create_udp_proxy(&local, target)).await {
                Ok(Ok(a)) => a,
                other => return Err(infra(format!("create_udp_proxy against the reference server: {:?}", other.map(|r| r.map_err(|e| e.to_string()))))),
            };
            let app = UdpSocket::bind(SocketAddr::new(IpAddr::V4(worker_ip()), 0)).await.map_err(|e| infra(format!("app udp bind: {e}")))?;
            for (k, size) in case.sizes.iter().enumerate() {
                let payload = keyed(k as u32, 11, 0, *size);
                app.send_to(&payload, assoc).await.map_err(|e| infra(format!("app send: {e}")))?;
                let budget = 10_000 + 4 * case.pause_ms;
                match recv_dgram(&app, budget).await {
                    Some((d, _)) => {
                        ensure!(
                            d == payload,
                            "C15.one",
                            "datagram #{k} ({size} bytes) echoed by the reference server in fragments (cuts {:?}, {} ms between frames) came back as {} bytes / altered",
                            case.cuts,
                            case.pause_ms,
                            d.len()
                        );
                    }
                    None => {
                        return Err(Fail::plain(
                            "C15.one",
                            format!("datagram #{k} ({size} bytes) echoed by the reference server in fragments (cuts {:?}, {} ms between frames) never reached the application", case.cuts, case.pause_ms),
                        ));
                    }
                }
                ensure!(recv_dgram(&app, 30).await.is_none(), "C15.none", "an extra datagram reached the application");
            }
            Ok(())
        });
        r?;
        out.nt(true);
        out.class_if(case.pause_ms >= 1000, "stall>=1s-between-frames");
        out.class_if(case.cuts.contains(&1), "cut-inside-length-prefix");
        Ok(out)
    }
}

// ------------------------------------------------------------------------------------------
// family `backlog` (Lab-S): an association opened on a session whose sibling stream has a backlog

#[derive(Clone, Debug, Serialize, Deserialize)]
pub struct BacklogCase {
    /// chunks of 16 KiB the sibling stream queues with send_data right before the association is made
    pub queued_chunks: u16,
    /// sizes of the datagrams the application sends at once
    pub sizes: Vec<usize>,
}

pub struct BacklogFam;

impl Family for BacklogFam {
    type Case = BacklogCase;
    fn name(&self) -> &'static str {
        "backlog"
    }
    fn strategy(&self, _tier: Tier) -> BoxedStrategy<BacklogCase> {
        let small = weighted_sizes(vec![(4, 1..=40), (2, 254..=258), (1, 1000..=1500)]);
        (prop_oneof![Just(0u16), Just(8), Just(200), Just(1500)], proptest::collection::vec(small, 1..4)).prop_map(|(queued_chunks, sizes)| BacklogCase { queued_chunks, sizes }).boxed()
    }
    fn case_budget_s(&self) -> u64 {
        120
    }
    fn run(&self, case: &BacklogCase, _cx: &CaseCtx) -> CaseResult {
        let mut out = Outcome::new();
        let c = case.clone();
        let r: Result<(), Fail> = run_real(async move {
            let case = c;
            let server = start_real_server(anytls_rs::padding::DEFAULT_PADDING_SCHEME).await?;
            let quiet = anytls_rs::client::SessionPoolConfig { check_interval: Duration::from_secs(3600), idle_timeout: Duration::from_secs(7200), min_idle_sessions: 1 };
            let client = real_client(server, anytls_rs::padding::DEFAULT_PADDING_SCHEME, quiet)?;
            let sink = TcpTarget::start(IpAddr::V4(worker_ip_n(41)), TargetMode::Sink).await?;
            let target = UdpTarget::start(IpAddr::V4(worker_ip_n(42))).await?;
            // the sibling: a library user's stream on the (then pooled) session, uploading through send_data
            let (st, _sess) = match tokio::time::timeout(Duration::from_secs(40), client.create_proxy_stream((sink.addr.ip().to_string(), sink.addr.port()))).await {
                Ok(Ok(x)) => x,
                other => return Err(infra(format!("sibling stream: {:?}", other.map(|r| r.map(|_| ()).map_err(|e| e.to_string()))))),
            };
            for k in 0..case.queued_chunks {
                let _ = st.send_data(Bytes::from(keyed(7, 0, k as u64 * 16384, 16384)));
            }
            // the association right behind it (it takes the pooled session), and the datagrams at once
            let local = format!("{}:0", worker_ip());
            let assoc = match tokio::time::timeout(Duration::from_secs(40), client.create_udp_proxy(&local, target.addr)).await {
                Ok(Ok(a)) => a,
                other => return Err(Fail::plain("C15.one", format!("create_udp_proxy failed: {:?}", other.map(|r| r.map_err(|e| e.to_string()))))),
            };
            let app = UdpSocket::bind(SocketAddr::new(IpAddr::V4(worker_ip()), 0)).await.map_err(|e| infra(format!("app udp bind: {e}")))?;
            let mut sent = Vec::new();
            for (k, size) in case.sizes.iter().enumerate() {
                let payload = keyed(k as u32, 12, 0, *size);
                app.send_to(&payload, assoc).await.map_err(|e| infra(format!("app send: {e}")))?;
                sent.push(payload);
            }
            let ok = wait_until(30_000, || target.count() >= sent.len()).await;
            tokio::time::sleep(Duration::from_millis(50)).await;
            let got: Vec<Vec<u8>> = target.received.lock().unwrap().iter().map(|(_, d)| d.clone()).collect();
            ensure!(
                ok && got == sent,
                "C15.one",
                "{} datagrams (sizes {:?}) were sent the moment the association existed, on a session whose other stream had {} KiB queued; the target received {} datagrams of sizes {:?}",
                sent.len(),
                case.sizes,
                case.queued_chunks as usize * 16,
                got.len(),
                got.iter().map(|d| d.len()).collect::<Vec<_>>()
            );
            // the sibling's upload is not disturbed either
            let want = case.queued_chunks as usize * 16384;
            let ok = wait_until(60_000, || sink.total_received() >= want).await;
            ensure!(ok, "C15.one", "the sibling stream's upload stopped at {} of {want} bytes", sink.total_received());
            Ok(())
        });
        r?;
        out.nt(case.queued_chunks > 0);
        out.class_if(case.queued_chunks >= 200, "sibling-has->=3MiB-queued");
        Ok(out)
    }
}
