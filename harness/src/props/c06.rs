//! C06 — only holders of the password get a session.
//!
//! Family `preamble` (function level): authenticate_client over a fragmenting in-memory reader.

use crate::engine::*;
use crate::ensure;
use crate::lab_mem::pipe::{PipeParams, pipe};
use crate::lab_mem::*;
use proptest::prelude::*;
use serde::{Deserialize, Serialize};
use sha2::{Digest, Sha256};
use tokio::io::{AsyncReadExt, AsyncWriteExt};

pub fn property() -> Property {
    Property {
        id: "C06",
        level: "exploration",
        rule: "family `preamble` (function level): authenticate_client on a byte stream delivered through a fragmenting reader and ended by EOF. Preambles: the right hash; all 256 single-bit flips (fixed cases); single-byte substitutions; first-k-bytes-right for k = 0..31 (fixed); hashes of related passwords (prefix, suffix, case, trailing NUL/newline, empty); all-zero / all-one; every truncation length of a valid preamble (fixed); declared padding lengths {0, 1, 2, 255, 256, 257, 32767, 32768, 65534, 65535, random} (all 65536 in thorough); a sentinel frame behind the padding; read fragmentations incl. one byte at a time and cuts inside bytes 30..36. Oracles: Ok <=> bytes 0..32 equal SHA-256(password) and the stream holds >= 34 + L bytes; on Ok exactly 34 + L bytes were consumed (the rest of the stream is still there, byte for byte); the call always returns. Non-trivial = preamble within Hamming distance 8 of the valid one, or truncated inside hash/length/padding, or L >= 256, or a fragment boundary inside bytes 30..36. Distinct = distinct serialized case. One badauth case in five starts a server of its own configured with a password that has blanks or line breaks around it, consists of blanks only, or has mixed case, and presents the hash of exactly that password (must be accepted) or of a related one - trimmed, lower-cased, last character dropped, NUL appended (must be rejected like any other wrong hash). A right hash followed by only part of the announced padding is not judged (the bytes that follow complete the padding). The badauth family also cuts a right preamble in two at a generated position and lets 3 / 12 (thorough: 25) s pass between the pieces - a session must result - and sends 1-31 bytes that are not the beginning of the hash, 12 s of silence and then a right preamble - no session may result, nothing may be dialled. Three fixed cases and one generated case in fifty (thorough: one in sixteen) run against a server of their own that has first turned away 20 / 140 / 300 (thorough: 700) connections - wrong hash, half a hash, TLS without a byte, a bare TCP probe, eight at a time: who gets a session afterwards is judged as always.",
        assumptions: vec!["SHA-256 from the sha2 crate (a dependency, not code under test)", "harness pipe as the fragmenting reader"],
        families: vec![(Box::new(PreFam), 60_000, 3_000_000), (Box::new(crate::props::e2e::BadAuthFam), 150, 1_200)],
    }
}

#[derive(Clone, Debug, Serialize, Deserialize)]
pub enum Hash {
    Right,
    BitFlip(u8),
    ByteSub(u8, u8),
    PrefixRight(u8),
    Related(u8),
    Zero,
    Ones,
    Random([u8; 32]),
}

#[derive(Clone, Debug, Serialize, Deserialize)]
pub struct PreCase {
    pub password: String,
    pub hash: Hash,
    pub declared: u16,
    /// Some(n): the whole stream is cut after n bytes (monotone index into its length)
    pub truncate: Option<u16>,
    pub frag: Vec<usize>,
}

pub struct PreFam;

const SENTINEL: &[u8] = &[4, 0, 0, 0, 0, 0, 3, b'v', b'=', b'2', 0xEE, 0xDD];

fn related(pw: &str, k: u8) -> String {
    match k % 8 {
        0 => format!("{pw} "),
        1 => pw.chars().take(pw.chars().count().saturating_sub(1)).collect(),
        2 => pw.to_uppercase(),
        3 => format!("{pw}\0"),
        4 => format!("{pw}\n"),
        5 => String::new(),
        6 => format!("x{pw}"),
        _ => pw.to_lowercase(),
    }
}

fn sha(pw: &str) -> [u8; 32] {
    Sha256::digest(pw.as_bytes()).into()
}

pub fn check_pre(case: &PreCase) -> CaseResult {
    let mut out = Outcome::new();
    let expected = sha(&case.password);
    let mut h = expected;
    match &case.hash {
        Hash::Right => {}
        Hash::BitFlip(b) => h[(*b / 8) as usize] ^= 1 << (*b % 8),
        Hash::ByteSub(i, v) => {
            let i = (*i % 32) as usize;
            h[i] = if *v == h[i] { v.wrapping_add(1) } else { *v };
        }
        Hash::PrefixRight(k) => {
            for b in h.iter_mut().skip((*k % 32) as usize) {
                *b = !*b;
            }
        }
        Hash::Related(k) => {
            let r = related(&case.password, *k);
            h = sha(&r);
        }
        Hash::Zero => h = [0; 32],
        Hash::Ones => h = [0xff; 32],
        Hash::Random(r) => h = *r,
    }
    let hash_ok = h == expected;
    let l = case.declared as usize;
    let mut stream = Vec::with_capacity(34 + l + SENTINEL.len());
    stream.extend_from_slice(&h);
    stream.extend_from_slice(&case.declared.to_be_bytes());
    stream.extend((0..l).map(|i| (i * 7 + 3) as u8)); // non-zero padding content must not matter
    stream.extend_from_slice(SENTINEL);
    let full_len = stream.len();
    if let Some(t) = case.truncate {
        let n = idx(t, full_len + 1);
        stream.truncate(n);
    }
    let holds = stream.len() >= 34 + l;
    let expect_ok = hash_ok && holds;
    let frag = case.frag.clone();
    let s2 = stream.clone();
    let (res, rest) = run_virtual(async move {
        let (mut w, mut r, _h) = pipe(PipeParams { read_sizes: frag, ..Default::default() });
        w.write_all(&s2).await.unwrap();
        drop(w);
        let pad = default_padding();
        let res = within(WATCHDOG, anytls_rs::authenticate_client(&mut r, &expected, &pad)).await;
        let mut rest = Vec::new();
        let _ = within(WATCHDOG, r.read_to_end(&mut rest)).await;
        (res.map(|r| r.map_err(|e| e.to_string())), rest)
    });
    let Some(res) = res else {
        return Err(Fail::plain("C06.iff", format!("authenticate_client did not return on a {}-byte stream ended by EOF", stream.len())));
    };
    ensure!(
        res.is_ok() == expect_ok,
        "C06.iff",
        "authenticate_client returned {:?}; hash matches: {hash_ok}, stream holds the declared {l} padding bytes: {holds} (stream {} bytes, preamble kind {:?})",
        res,
        stream.len(),
        case.hash
    );
    if res.is_ok() {
        ensure!(
            rest[..] == stream[34 + l..],
            "C06.skip",
            "after an accepted preamble with declared padding {l}, {} bytes were left instead of the {} that follow the padding (first bytes left: {:02x?})",
            rest.len(),
            stream.len() - 34 - l,
            &rest[..rest.len().min(8)]
        );
    }
    let dist: u32 = h.iter().zip(expected.iter()).map(|(a, b)| (a ^ b).count_ones()).sum();
    let trunc_inside = stream.len() < 34 + l;
    let frag_inside = {
        // does a read boundary fall inside bytes 30..36?
        let mut pos = 0usize;
        let mut hit = false;
        if !case.frag.is_empty() {
            let mut k = 0usize;
            while pos < 37 {
                pos += case.frag[k % case.frag.len()].max(1);
                k += 1;
                if (31..=36).contains(&pos) {
                    hit = true;
                }
            }
        }
        hit
    };
    out.nt((dist > 0 && dist <= 8) || trunc_inside || l >= 256 || frag_inside);
    out.class_if(dist > 0 && dist <= 8, "hamming<=8");
    out.class_if(hash_ok, "right-hash");
    out.class_if(trunc_inside, "truncated-inside");
    out.class_if(l >= 256, "L>=256");
    out.class_if(frag_inside, "cut-in-30..36");
    out.class_if(expect_ok, "accepted");
    Ok(out)
}

impl Family for PreFam {
    type Case = PreCase;
    fn name(&self) -> &'static str {
        "preamble"
    }
    fn strategy(&self, _tier: Tier) -> BoxedStrategy<PreCase> {
        let hash = prop_oneof![
            5 => Just(Hash::Right),
            2 => any::<u8>().prop_map(Hash::BitFlip),
            2 => (any::<u8>(), any::<u8>()).prop_map(|(i, v)| Hash::ByteSub(i, v)),
            1 => (0u8..32).prop_map(Hash::PrefixRight),
            2 => any::<u8>().prop_map(Hash::Related),
            1 => Just(Hash::Zero),
            1 => Just(Hash::Ones),
            1 => any::<[u8; 32]>().prop_map(Hash::Random),
        ];
        let declared = prop_oneof![
            4 => prop_oneof![Just(0u16), Just(1), Just(2), Just(30), Just(255), Just(256), Just(257), Just(32767), Just(32768), Just(65534), Just(65535)],
            2 => any::<u16>(),
            2 => 0u16..600,
        ];
        let frag = prop_oneof![
            2 => Just(Vec::new()),
            2 => Just(vec![1usize]),
            2 => (28usize..36, 1usize..4).prop_map(|(a, b)| vec![a, b, 1, 1, 1, 4096]),
            2 => proptest::collection::vec(prop_oneof![Just(1usize), Just(2), Just(7), Just(16), Just(31), Just(32), Just(33), Just(34), Just(1000)], 1..5),
        ];
        ("[ -~]{0,20}", hash, declared, proptest::option::weighted(0.3, any::<u16>()), frag)
            .prop_map(|(password, hash, declared, truncate, frag)| PreCase { password, hash, declared, truncate, frag })
            .boxed()
    }
    fn fixed_cases(&self, tier: Tier) -> Vec<PreCase> {
        let mut v = Vec::new();
        let pw = "test_password".to_string();
        for b in 0u16..256 {
            v.push(PreCase { password: pw.clone(), hash: Hash::BitFlip(b as u8), declared: 5, truncate: None, frag: vec![] });
        }
        for k in 0u8..32 {
            v.push(PreCase { password: pw.clone(), hash: Hash::PrefixRight(k), declared: 0, truncate: None, frag: vec![1] });
        }
        // every truncation length of a valid preamble (declared 40)
        let full = 34 + 40 + SENTINEL.len();
        for n in 0..=full {
            let mut t = ((n << 16) / (full + 1)) as u16;
            while idx(t, full + 1) < n {
                t += 1;
            }
            v.push(PreCase { password: pw.clone(), hash: Hash::Right, declared: 40, truncate: Some(t), frag: vec![3] });
        }
        let ls: Vec<u32> = if tier == Tier::Thorough { (0..=65535).collect() } else { vec![0, 1, 2, 255, 256, 257, 32767, 32768, 65534, 65535] };
        for l in ls {
            v.push(PreCase { password: pw.clone(), hash: Hash::Right, declared: l as u16, truncate: None, frag: vec![] });
        }
        v
    }
    fn run(&self, case: &PreCase, _cx: &CaseCtx) -> CaseResult {
        check_pre(case)
    }
    fn sample(&self, case: &PreCase) -> serde_json::Value {
        serde_json::to_value(case).unwrap()
    }
}
