//! C14 — the liveness monitor closes dead sessions and only dead sessions.
//!
//! Lab-M, virtual time. A real client session with a heartbeat configuration from the command
//! line's domain (whole seconds >= 1) runs against (i) the real server session through pipes
//! with a one-way delay, or (ii) a scripted peer that answers every keep-alive request after a
//! generated delay and falls silent at a generated instant.

use crate::engine::*;
use crate::lab_mem::pipe::{Ev, PipeParams};
use crate::lab_mem::*;
use crate::reference::codec::{self as rc, RFrame};
use anytls_rs::session::SessionHeartbeatConfig;
use bytes::Bytes;
use proptest::prelude::*;
use serde::{Deserialize, Serialize};
use std::sync::Arc;
use tokio::io::{AsyncReadExt, AsyncWriteExt};
use tokio::time::{Duration, Instant};

pub fn property() -> Property {
    Property {
        id: "C14",
        level: "exploration",
        rule: "(interval, timeout) pairs in whole seconds (grid {1,2,3,5,10,29,30,31,60,120}^2 in quick, 1..60 squared in thorough, plus random pairs) x peer = real server session over pipes with a one-way delay (round trip < timeout) or scripted peer answering each request after a generated delay and falling silent (neither reading nor writing) never / before the first request / between request and response / after k exchanges, with and without stream traffic, pipe capacity above and below the traffic volume, keep-alive requests unpadded / padded by the built-in scheme / padded to 400-800 bytes in every packet and pushed through a pipe that takes 64 bytes at a time (the answer is back while the request's padding is still being written). Oracles (HeartbeatSpec, DESIGN A.3): safe - while every request is answered within the timeout the session stays open over >= 40 intervals; detect - once the peer is silent the session is closed no later than last answer + timeout + interval (+ 150 ms polling slack) and a blocked reader is released; answer - the real server answers every request. Non-trivial = timeout <= interval, or round trip > timeout/2, or silence starting between a request and its response, or traffic exceeding the pipe capacity, or padded requests through the 64-byte pipe. Distinct = distinct serialized case.",
        assumptions: vec![
            "tokio paused clock with auto-advance; is_closed sampled every 100 ms of virtual time",
            "Lab-S `glue` family (real time, whole seconds 1-3): the real Client against the reference server, peer answering or silent from the start",
        ],
        families: vec![(Box::new(BeatFam), 8_000, 128_000), (Box::new(GlueFam), 6, 120)],
    }
}

#[derive(Clone, Debug, Serialize, Deserialize, PartialEq)]
pub enum Silence {
    Never,
    /// virtual milliseconds after session start
    AtMs(u64),
    /// right after the k-th request (1-based) has been received by the peer, before answering it
    AfterRequest(u8),
}

#[derive(Clone, Debug, Serialize, Deserialize)]
pub struct BeatCase {
    pub interval_s: u64,
    pub timeout_s: u64,
    pub real_server: bool,
    /// one-way delay in ms (both directions)
    pub delay_ms: u64,
    /// scripted peer: extra think time before answering, ms
    pub answer_ms: u64,
    pub silence: Silence,
    pub traffic: bool,
    pub small_pipe: bool,
    /// padding of the client's packets: 0 = none, 1 = the built-in scheme (packets 2..7), 2 = every
    /// packet padded to 400-800 bytes. With `small_pipe` the pipe then takes 64 bytes at a time, so
    /// a keep-alive request is still being written (its padding) when the answer comes back.
    #[serde(default)]
    pub padded: u8,
}

/// every packet up to the 400th is padded to 400-800 bytes
fn always_padded_scheme() -> String {
    let mut s = String::from("stop=400\n");
    for i in 0..400 {
        s.push_str(&format!("{i}=400-800\n"));
    }
    s
}

pub struct BeatFam;

const SLACK_MS: u64 = 150;

fn frames_with_times(h: &crate::lab_mem::pipe::PipeHandle, t0: Instant) -> Vec<(u64, RFrame)> {
    // time of a frame = time of the write that carried its first byte
    let raw = h.raw();
    let log = h.log();
    let mut writes: Vec<(usize, usize, u64)> = Vec::new();
    for e in log {
        if let Ev::Write { off, len, t } = e {
            writes.push((off, len, t.duration_since(t0).as_millis() as u64));
        }
    }
    let (frames, _) = rc::parse(&raw);
    let mut out = Vec::new();
    let mut pos = 0usize;
    let mut wi = 0usize;
    for f in frames {
        while wi + 1 < writes.len() && writes[wi].0 + writes[wi].1 <= pos {
            wi += 1;
        }
        let t = writes.get(wi).map(|w| w.2).unwrap_or(0);
        pos += f.wire_len();
        out.push((t, f));
    }
    out
}

impl Family for BeatFam {
    type Case = BeatCase;
    fn name(&self) -> &'static str {
        "beat"
    }
    fn strategy(&self, tier: Tier) -> BoxedStrategy<BeatCase> {
        let secs = if tier == Tier::Thorough { (1u64..=60).boxed() } else { prop_oneof![Just(1u64), Just(2), Just(3), Just(5), Just(10), Just(29), Just(30), Just(31), Just(60), Just(120)].boxed() };
        let silence = prop_oneof![
            3 => Just(Silence::Never),
            1 => Just(Silence::AtMs(0)),
            3 => (0u64..400_000).prop_map(Silence::AtMs),
            3 => (1u8..6).prop_map(Silence::AfterRequest),
        ];
        (secs.clone(), secs, any::<bool>(), prop_oneof![Just(0u64), Just(1), Just(40), Just(400), Just(4000)], prop_oneof![Just(0u64), Just(5), Just(900)], silence, any::<bool>(), any::<bool>(), prop_oneof![2 => Just(0u8), 1 => Just(1u8), 2 => Just(2u8)])
            .prop_map(|(interval_s, timeout_s, real_server, delay_ms, answer_ms, silence, traffic, small_pipe, padded)| {
                let mut c = BeatCase { interval_s, timeout_s, real_server, delay_ms, answer_ms, silence, traffic, small_pipe, padded };
                // sound domain: "every network delay below the timeout": keep the round trip strictly below it
                let t_ms = c.timeout_s * 1000;
                if c.real_server {
                    c.answer_ms = 0;
                    c.silence = Silence::Never;
                }
                if c.padded != 0 && c.small_pipe {
                    // 64 bytes in flight at a time: with a one-way delay d the link carries 64 bytes
                    // per d, and a 400-800 byte packet would take longer than the timeout to arrive -
                    // that is a delay above the timeout, outside the property's domain
                    c.delay_ms = 0;
                }
                while 2 * c.delay_ms + c.answer_ms >= t_ms {
                    if c.answer_ms > 0 {
                        c.answer_ms = 0;
                    } else {
                        c.delay_ms /= 10;
                    }
                }
                c
            })
            .boxed()
    }
    fn fixed_cases(&self, tier: Tier) -> Vec<BeatCase> {
        let grid: Vec<u64> = if tier == Tier::Thorough { (1..=60).collect() } else { vec![1, 2, 3, 5, 10, 29, 30, 31, 60, 120] };
        let mut v = Vec::new();
        for &i in &grid {
            for &t in &grid {
                if tier == Tier::Thorough && (i * 7 + t * 3) % 4 != 0 && i != t && t + 1 != i && i + 1 != t {
                    continue; // thin the big grid, keep the diagonal band
                }
                v.push(BeatCase { interval_s: i, timeout_s: t, real_server: true, delay_ms: 1, answer_ms: 0, silence: Silence::Never, traffic: false, small_pipe: false, padded: 0 });
                v.push(BeatCase { interval_s: i, timeout_s: t, real_server: false, delay_ms: 0, answer_ms: 5, silence: Silence::Never, traffic: false, small_pipe: false, padded: 0 });
                v.push(BeatCase { interval_s: i, timeout_s: t, real_server: false, delay_ms: 0, answer_ms: 5, silence: Silence::AfterRequest(2), traffic: false, small_pipe: false, padded: 0 });
                // padded requests through a pipe that takes 64 bytes at a time: the answer is back
                // before the request's padding has gone out
                v.push(BeatCase { interval_s: i, timeout_s: t, real_server: true, delay_ms: 0, answer_ms: 0, silence: Silence::Never, traffic: false, small_pipe: true, padded: 2 });
                v.push(BeatCase { interval_s: i, timeout_s: t, real_server: false, delay_ms: 0, answer_ms: 0, silence: Silence::Never, traffic: false, small_pipe: true, padded: if (i + t) % 2 == 0 { 1 } else { 2 } });
            }
        }
        v
    }
    fn run(&self, case: &BeatCase, cx: &CaseCtx) -> CaseResult {
        let mut out = Outcome::new();
        let c = case.clone();
        let i_ms = case.interval_s * 1000;
        let t_ms = case.timeout_s * 1000;
        let rtt = 2 * case.delay_ms + case.answer_ms;
        let mut horizon_ms = 40 * i_ms + 2 * t_ms;
        if let Silence::AtMs(s) = case.silence {
            // long enough to see the latest permitted close
            horizon_ms = horizon_ms.max(s + t_ms + i_ms + 5_000);
        }

        struct Obs {
            closed_at: Option<u64>,
            last_answer_ms: Option<u64>,
            silent_from: Option<u64>,
            requests: usize,
            responses: usize,
            reader_released: bool,
            writer_blocked: bool,
        }

        let obs: Obs = run_virtual(async move {
            let case = c;
            let cap = if case.small_pipe { if case.padded != 0 { 64 } else { 256 } } else { 1 << 22 };
            let mut l = link(PipeParams { capacity: cap, delay_ms: case.delay_ms, ..Default::default() }, PipeParams { delay_ms: case.delay_ms, ..Default::default() });
            let hb = SessionHeartbeatConfig { interval: Duration::from_secs(case.interval_s), timeout: Duration::from_secs(case.timeout_s) };
            let pad = match case.padded {
                0 => padding("stop=0"),
                1 => default_padding(),
                _ => padding(&always_padded_scheme()),
            };
            let sess = client_session(&mut l, pad.clone(), Some(hb));
            let t0 = Instant::now();
            let c2s = l.c2s.clone();
            let s2c = l.s2c.clone();
            let last_answer: Arc<std::sync::Mutex<Option<u64>>> = Default::default();
            let silent_from: Arc<std::sync::Mutex<Option<u64>>> = Default::default();
            let mut _server = None;
            if case.real_server {
                let (s, mut rx, _t) = server_session(&mut l, pad);
                // streams opened by the traffic generator are drained
                tokio::spawn(async move {
                    while let Some(st) = rx.recv().await {
                        tokio::spawn(async move {
                            let r = st.reader().clone();
                            let mut b = vec![0u8; 4096];
                            loop {
                                let mut g = r.lock().await;
                                match g.read(&mut b).await {
                                    Ok(0) | Err(_) => break,
                                    Ok(_) => {}
                                }
                            }
                        });
                    }
                });
                _server = Some(s);
            } else {
                let ScriptPeer { mut r, mut w, .. } = ScriptPeer::server_side(&mut l);
                let la = last_answer.clone();
                let sf = silent_from.clone();
                let case2 = case.clone();
                let c2s2 = c2s.clone();
                tokio::spawn(async move {
                    let mut p = rc::RParser::new();
                    let mut buf = vec![0u8; 4096];
                    let mut seen_req = 0u32;
                    let silent_at = match case2.silence {
                        Silence::AtMs(ms) => Some(t0 + Duration::from_millis(ms)),
                        _ => None,
                    };
                    let go_silent = |why: u64| {
                        let mut g = sf.lock().unwrap();
                        if g.is_none() {
                            *g = Some(why);
                        }
                        // a silent peer neither reads nor writes
                        c2s2.freeze_reader(true);
                    };
                    let mut pending: std::collections::VecDeque<Instant> = Default::default();
                    loop {
                        let next_answer = pending.front().copied();
                        tokio::select! {
                            biased;
                            _ = async { match silent_at { Some(t) => tokio::time::sleep_until(t).await, None => std::future::pending().await } } => {
                                go_silent(Instant::now().duration_since(t0).as_millis() as u64);
                                break;
                            }
                            _ = async { match next_answer { Some(t) => tokio::time::sleep_until(t).await, None => std::future::pending().await } } => {
                                pending.pop_front();
                                if w.write_all(&rc::encode(&RFrame::ctl(rc::HEART_RESP, 0))).await.is_err() { break; }
                                // arrival at the client = now + one-way delay
                                *la.lock().unwrap() = Some(Instant::now().duration_since(t0).as_millis() as u64 + case2.delay_ms);
                            }
                            r = r.read(&mut buf) => {
                                match r {
                                    Ok(0) | Err(_) => break,
                                    Ok(n) => {
                                        let mut stop = false;
                                        for f in p.feed(&buf[..n]) {
                                            if f.cmd == rc::HEART_REQ {
                                                seen_req += 1;
                                                if matches!(case2.silence, Silence::AfterRequest(k) if k as u32 == seen_req) {
                                                    stop = true;
                                                    break;
                                                }
                                                pending.push_back(Instant::now() + Duration::from_millis(case2.answer_ms));
                                            }
                                        }
                                        if stop {
                                            go_silent(Instant::now().duration_since(t0).as_millis() as u64);
                                            break;
                                        }
                                    }
                                }
                            }
                        }
                    }
                    // keep both halves alive: a silent peer does not close the connection
                    std::future::pending::<()>().await;
                    drop((r, w));
                });
            }
            let _ = within(WATCHDOG, sess.clone().start_client()).await;
            // a blocked reader to be released on death, and optional traffic
            let mut reader_done = None;
            let mut writer_state: Option<Arc<std::sync::atomic::AtomicU8>> = None;
            if let Some(Ok((st, _rx))) = within(WATCHDOG, sess.open_stream()).await {
                sess.disable_buffering();
                let _ = within(Duration::from_secs(1), sess.write_data_frame(st.id(), Bytes::from_static(b"dest"))).await;
                let done = Arc::new(std::sync::atomic::AtomicBool::new(false));
                reader_done = Some(done.clone());
                let st2 = st.clone();
                tokio::spawn(async move {
                    let r = st2.reader().clone();
                    let mut b = [0u8; 64];
                    loop {
                        let mut g = r.lock().await;
                        match g.read(&mut b).await {
                            Ok(0) | Err(_) => break,
                            Ok(_) => {}
                        }
                    }
                    done.store(true, std::sync::atomic::Ordering::SeqCst);
                });
                if case.traffic {
                    let s2 = sess.clone();
                    let sid = st.id();
                    let state = Arc::new(std::sync::atomic::AtomicU8::new(0));
                    writer_state = Some(state.clone());
                    let step = Duration::from_millis((case.interval_s * 700).max(100));
                    tokio::spawn(async move {
                        loop {
                            tokio::time::sleep(step).await;
                            state.store(1, std::sync::atomic::Ordering::SeqCst); // inside a write
                            let r = s2.write_data_frame(sid, Bytes::from(vec![7u8; 200])).await;
                            state.store(0, std::sync::atomic::Ordering::SeqCst);
                            if r.is_err() {
                                break;
                            }
                        }
                        state.store(2, std::sync::atomic::Ordering::SeqCst);
                    });
                }
            }
            // sample the closed flag
            let mut closed_at = None;
            let mut now_ms = 0u64;
            while now_ms < horizon_ms {
                tokio::time::sleep(Duration::from_millis(100)).await;
                now_ms = Instant::now().duration_since(t0).as_millis() as u64;
                if sess.is_closed() {
                    closed_at = Some(now_ms);
                    break;
                }
            }
            if closed_at.is_some() {
                settle(Duration::from_secs(5)).await;
            }
            let reqs = frames_with_times(&c2s, t0).iter().filter(|(_, f)| f.cmd == rc::HEART_REQ).count();
            let resps = frames_with_times(&s2c, t0).iter().filter(|(_, f)| f.cmd == rc::HEART_RESP).count();
            Obs {
                closed_at,
                last_answer_ms: *last_answer.lock().unwrap(),
                silent_from: *silent_from.lock().unwrap(),
                requests: reqs,
                responses: resps,
                reader_released: reader_done.map(|d| d.load(std::sync::atomic::Ordering::SeqCst)).unwrap_or(true),
                writer_blocked: writer_state.map(|s| s.load(std::sync::atomic::Ordering::SeqCst) == 1).unwrap_or(false),
            }
        });

        let desc = format!(
            "interval {}s timeout {}s, peer {}, one-way delay {} ms, think {} ms, silence {:?}, traffic {}, small pipe {}, padding {}",
            case.interval_s,
            case.timeout_s,
            if case.real_server { "real server" } else { "scripted" },
            case.delay_ms,
            case.answer_ms,
            case.silence,
            case.traffic,
            case.small_pipe,
            ["none", "built-in scheme", "every packet 400-800 bytes"][case.padded.min(2) as usize]
        );
        match obs.silent_from {
            None => {
                // healthy for the whole run: every request was (or would be) answered within rtt < timeout
                if let Some(t) = obs.closed_at {
                    let sig = if case.timeout_s < case.interval_s { "C14.safe:timeout<interval" } else if case.timeout_s == case.interval_s { "C14.safe:timeout=interval" } else { "C14.safe" };
                    if !cx.tolerate(sig) {
                        return Err(Fail::new(
                            "C14.safe",
                            sig,
                            format!("a peer that answered every keep-alive within {rtt} ms (< timeout) was declared dead at {t} ms ({desc}; {} requests, {} responses)", obs.requests, obs.responses),
                        ));
                    }
                } else if case.real_server {
                    // the real server must have answered (all but possibly the last in flight)
                    // requests still travelling towards the server at the horizon are not answered yet
                    let in_flight = (case.delay_ms / i_ms + 2) as usize;
                    if obs.responses + in_flight < obs.requests || obs.requests < 30 {
                        return Err(Fail::plain("C14.answer", format!("{} keep-alive requests, {} responses over 40 intervals ({desc})", obs.requests, obs.responses)));
                    }
                }
            }
            Some(s_ms) => {
                let l_ms = obs.last_answer_ms.filter(|a| *a <= s_ms + case.delay_ms).unwrap_or(0);
                let bound = l_ms.max(0) + t_ms + i_ms + SLACK_MS;
                match obs.closed_at {
                    None => {
                        let sig = if case.traffic && case.small_pipe { "C14.detect:send-buffer-full" } else { "C14.detect" };
                        if !cx.tolerate(sig) {
                            return Err(Fail::new(
                                "C14.detect",
                                sig,
                                format!("the peer fell silent at {s_ms} ms (last answer at {l_ms} ms) and the session was still open at the horizon {horizon_ms} ms ({desc}; traffic writer blocked: {})", obs.writer_blocked),
                            ));
                        }
                    }
                    Some(t) => {
                        if t + SLACK_MS < s_ms && t + SLACK_MS < l_ms + t_ms {
                            // closed while the peer was still answering in time
                            let sig = if case.timeout_s < case.interval_s { "C14.safe:timeout<interval" } else if case.timeout_s == case.interval_s { "C14.safe:timeout=interval" } else { "C14.safe" };
                            if !cx.tolerate(sig) {
                                return Err(Fail::new("C14.safe", sig, format!("closed at {t} ms although the peer answered in time until it fell silent at {s_ms} ms ({desc})")));
                            }
                        } else if t > bound {
                            let sig = if case.traffic && case.small_pipe { "C14.detect:send-buffer-full" } else { "C14.detect:late" };
                            if !cx.tolerate(sig) {
                                return Err(Fail::new(
                                    "C14.detect",
                                    sig,
                                    format!("silent from {s_ms} ms, last answer at {l_ms} ms: closed at {t} ms, later than last answer + timeout + interval = {} ms ({desc})", bound - SLACK_MS),
                                ));
                            }
                        }
                        if !obs.reader_released {
                            return Err(Fail::plain("C14.detect", format!("the session was closed at {t} ms but the blocked stream reader was not released ({desc})")));
                        }
                    }
                }
            }
        }
        let between = matches!(case.silence, Silence::AfterRequest(_));
        out.nt(case.timeout_s <= case.interval_s || rtt * 2 > t_ms || between || (case.traffic && case.small_pipe) || (case.padded != 0 && case.small_pipe));
        out.class_if(case.timeout_s < case.interval_s, "timeout<interval");
        out.class_if(case.timeout_s == case.interval_s, "timeout=interval");
        out.class_if(rtt * 2 > t_ms, "rtt>timeout/2");
        out.class_if(between, "silent-between-request-and-response");
        out.class_if(obs.silent_from.is_some(), "peer-fell-silent");
        out.class_if(case.real_server, "real-server");
        out.class_if(case.traffic && case.small_pipe, "traffic>capacity");
        out.class_if(case.padded != 0 && case.small_pipe, "padded-request-through-64-byte-pipe");
        out.class_if(case.padded != 0 && case.small_pipe && case.timeout_s <= case.interval_s, "padded-request-through-64-byte-pipe+timeout<=interval");
        Ok(out)
    }
}

// ------------------------------------------------------------------------------------------
// family `glue` (Lab-S, real time): the real Client hands its -I / -T settings to the monitor

use crate::lab_sock::refpeer::{Behaviour, RefServer};
use crate::lab_sock::{PASSWORD, infra, run_real, wait_until};

#[derive(Clone, Debug, Serialize, Deserialize)]
pub struct GlueCase {
    pub interval_s: u64,
    pub timeout_s: u64,
    pub peer_answers: bool,
    /// Some(n): the peer answers the first n keep-alive requests and then falls silent
    #[serde(default)]
    pub answers_then_silent: Option<u8>,
}

pub struct GlueFam;

impl Family for GlueFam {
    type Case = GlueCase;
    fn name(&self) -> &'static str {
        "glue"
    }
    fn strategy(&self, _tier: Tier) -> BoxedStrategy<GlueCase> {
        (1u64..=3, 1u64..=3, any::<bool>(), proptest::option::weighted(0.5, 1u8..3))
            .prop_map(|(interval_s, timeout_s, peer_answers, a)| GlueCase { interval_s, timeout_s, peer_answers: peer_answers || a.is_some(), answers_then_silent: a })
            .boxed()
    }
    fn fixed_cases(&self, _tier: Tier) -> Vec<GlueCase> {
        vec![
            GlueCase { interval_s: 1, timeout_s: 3, peer_answers: false, answers_then_silent: None },
            GlueCase { interval_s: 2, timeout_s: 1, peer_answers: false, answers_then_silent: None },
            GlueCase { interval_s: 2, timeout_s: 1, peer_answers: true, answers_then_silent: None },
            GlueCase { interval_s: 1, timeout_s: 2, peer_answers: true, answers_then_silent: None },
            // timeout < interval with a peer that answers once and then falls silent
            GlueCase { interval_s: 3, timeout_s: 1, peer_answers: true, answers_then_silent: Some(1) },
            GlueCase { interval_s: 2, timeout_s: 1, peer_answers: true, answers_then_silent: Some(2) },
        ]
    }
    fn case_budget_s(&self) -> u64 {
        90
    }
    fn run(&self, case: &GlueCase, _cx: &CaseCtx) -> CaseResult {
        let mut out = Outcome::new();
        let c = case.clone();
        let r: Result<(), Fail> = run_real(async move {
            let case = c;
            let beh = Behaviour { synack: true, echo: true, heartbeat: case.peer_answers, server_settings: true, scheme: None, schemes: vec![], heartbeat_limit: case.answers_then_silent.map(|n| n as usize), uot_echo: None, ..Default::default() };
            let srv = RefServer::start(PASSWORD, beh).await?;
            let pool = anytls_rs::client::SessionPoolConfig {
                check_interval: Duration::from_secs(case.interval_s),
                idle_timeout: Duration::from_secs(case.timeout_s),
                // keep the pool reaper out of the picture: it never closes the only session
                min_idle_sessions: 4,
            };
            let cfg = anytls_rs::util::tls::create_client_config().map_err(|e| infra(e.to_string()))?;
            let connector = Arc::new(tokio_rustls::TlsConnector::from(cfg));
            let name = tokio_rustls::rustls::pki_types::ServerName::IpAddress(srv.addr.ip().into());
            let client = anytls_rs::client::Client::with_pool_config(PASSWORD, srv.addr.to_string(), name, connector, default_padding(), pool);
            let t0 = std::time::Instant::now();
            let (_stream, session) = match tokio::time::timeout(Duration::from_secs(20), client.create_proxy_stream(("10.1.2.3".to_string(), 80))).await {
                Ok(Ok(x)) => x,
                other => return Err(infra(format!("create_proxy_stream against the reference server: {:?}", other.map(|r| r.map(|_| ()).map_err(|e| e.to_string()))))),
            };
            let i_ms = case.interval_s * 1000;
            let t_ms = case.timeout_s * 1000;
            let desc = format!("client built with check interval {} s / idle timeout {} s (the -I / -T options)", case.interval_s, case.timeout_s);
            if let Some(k) = case.answers_then_silent {
                // the peer answers requests 1..k (sent at 0, I, .., (k-1) I) and ignores request k+1 (sent at
                // k I): last answer L ~ (k-1) I, so the session must be closed by L + T + I = k I + T, and
                // not before request k+1 has been outstanding for T
                let k = k as u64;
                let bound = k * i_ms + t_ms;
                let closed = wait_until(bound + 1200, || session.is_closed()).await;
                let at = t0.elapsed().as_millis() as u64;
                if !closed {
                    return Err(Fail::plain(
                        "C14.detect",
                        format!("the peer answered {k} keep-alive request(s) and then fell silent; the session is still open after {at} ms, bound last answer + timeout + interval = {bound} ms ({desc})"),
                    ));
                }
                if at + 400 < k * i_ms {
                    return Err(Fail::plain("C14.safe", format!("closed after {at} ms although the peer was still answering in time ({desc})")));
                }
            } else if case.peer_answers {
                // healthy peer: open over 3 intervals + timeout, and one request per interval was seen
                let horizon = 3 * i_ms + t_ms + 500;
                tokio::time::sleep(Duration::from_millis(horizon)).await;
                if session.is_closed() {
                    return Err(Fail::plain("C14.safe", format!("a session whose peer answers every keep-alive was closed within {horizon} ms ({desc})")));
                }
                let reqs = srv.conn(0).map(|c| c.lock().unwrap().frames.iter().filter(|f| f.cmd == crate::reference::codec::HEART_REQ).count()).unwrap_or(0) as u64;
                let want = horizon / i_ms;
                if reqs + 1 < want || reqs > want + 2 {
                    return Err(Fail::plain("C14.answer", format!("{reqs} keep-alive requests reached the server in {horizon} ms, about {want} expected ({desc})")));
                }
            } else {
                // silent peer from the start: closed no earlier than the timeout, no later than timeout + interval
                let closed = wait_until(t_ms + i_ms + 1500, || session.is_closed()).await;
                let at = t0.elapsed().as_millis() as u64;
                if !closed {
                    return Err(Fail::plain("C14.detect", format!("the peer never answered a keep-alive and the session is still open after {at} ms; bound timeout + interval = {} ms ({desc})", t_ms + i_ms)));
                }
                if at + 300 < t_ms {
                    return Err(Fail::plain("C14.safe", format!("the session was declared dead after {at} ms, before the timeout of {t_ms} ms ({desc})")));
                }
            }
            Ok(())
        });
        r?;
        out.nt(true);
        out.class_if(case.timeout_s < case.interval_s, "timeout<interval");
        out.class_if(case.peer_answers, "peer-answers");
        out.class_if(case.answers_then_silent.is_some(), "answers-then-silent");
        out.class_if(!case.peer_answers, "silent-peer");
        Ok(out)
    }
}
