//! C03 — frame encoding is a faithful, chunking-independent bijection.
//!
//! Pure functions; differential against the reference codec.

use crate::engine::*;
use crate::reference::codec::{self as rc, RFrame};
use crate::{ensure, ensure_sig};
use anytls_rs::protocol::{Command, Frame, FrameCodec};
use bytes::{Bytes, BytesMut};
use proptest::prelude::*;
use serde::{Deserialize, Serialize};
use tokio_util::codec::{Decoder, Encoder};

pub fn property() -> Property {
    Property {
        id: "C03",
        level: "exploration",
        rule: "family `frame`: one frame (11 encodable commands x boundary stream ids x boundary/random payload lengths incl. attempted lengths > 65535) encoded by the real FrameCodec, compared byte-for-byte with the reference encoder and decoded back; family `stream`: a byte stream (reference-encoded frames with any of the 256 command bytes, optionally followed by an incomplete frame, or arbitrary bytes) fed to the real decoder in generated pieces and compared with the reference parse of the whole. Non-trivial = (>= 2 frames and a cut strictly inside a header or payload) or a payload length in {0, 65535, > 65535} or a command byte > 10. Distinct = distinct serialized case. Multi-frame streams draw payload lengths from the whole 0..65535 range (classes 0-8, 9-64, 254-257, 1000-3000, 3001-9000, 16380-16390, 9001-65529, 65530-65535), so cuts inside large payloads are generated; byte-at-a-time delivery of streams above 4 KiB uses about 2048 equal pieces. For payloads above 65535 bytes a refusal must leave the output buffer as it was (tried with an empty buffer and with one that already holds two bytes).",
        assumptions: vec![
            "reference codec (harness/src/reference/codec.rs) written from the protocol description",
            "bytes::BytesMut / tokio_util codec traits",
        ],
        families: vec![
            (Box::new(FrameFam), 600_000, 8_000_000),
            (Box::new(StreamFam), 600_000, 8_000_000),
        ],
    }
}

pub fn fill(len: usize, seed: u8) -> Vec<u8> {
    (0..len).map(|i| (i as u32).wrapping_mul(131).wrapping_add(seed as u32) as u8 ^ ((i >> 8) as u8)).collect()
}

// ------------------------------------------------------------------------------------------
// family `frame`

#[derive(Clone, Debug, Serialize, Deserialize)]
pub struct FrameCase {
    pub cmd: u8,
    pub sid: u32,
    pub len: usize,
    pub seed: u8,
}

pub struct FrameFam;

fn sid_strategy() -> BoxedStrategy<u32> {
    prop_oneof![
        Just(0u32),
        Just(1u32),
        Just(0x7FFF_FFFFu32),
        Just(0x8000_0000u32),
        Just(0xFFFF_FFFFu32),
        any::<u32>(),
    ]
    .boxed()
}

pub fn check_frame(c: &FrameCase) -> CaseResult {
    let mut out = Outcome::new();
    let cmd = Command::from(c.cmd);
    ensure!(u8::from(cmd) == c.cmd, "C03.rt", "Command::from({}) maps to {:?}", c.cmd, cmd);
    let data = fill(c.len, c.seed);
    let frame = Frame::with_data(cmd, c.sid, Bytes::from(data.clone()));
    let mut codec = FrameCodec;
    let mut buf = BytesMut::new();
    let res = codec.encode(frame.clone(), &mut buf);
    out.nt(c.len == 0 || c.len >= 65535);
    out.class_if(c.len == 0, "len=0");
    out.class_if(c.len == 65535, "len=65535");
    out.class_if(c.len > 65535, "len>65535");
    if c.len <= rc::MAX_PAYLOAD {
        ensure!(res.is_ok(), "C03.rt", "encode failed for a legal frame: {:?}", res.err());
        let expect = rc::encode(&RFrame::new(c.cmd, c.sid, data.clone()));
        ensure!(
            buf[..] == expect[..],
            "C03.wire",
            "encoding differs from the reference: cmd={} sid={:#x} len={} got header {:02x?} want {:02x?}",
            c.cmd,
            c.sid,
            c.len,
            &buf[..buf.len().min(7)],
            &expect[..7]
        );
        // sentinel bytes behind the frame must be left alone
        let sentinel = [0xA5u8, 0x5A, 0xC3];
        buf.extend_from_slice(&sentinel);
        let dec = codec.decode(&mut buf);
        let dec = match dec {
            Ok(Some(f)) => f,
            other => {
                return Err(Fail::plain("C03.rt", format!("decode(encode(f)) returned {:?}", other.map(|o| o.is_some()))));
            }
        };
        ensure!(
            dec.cmd == cmd && dec.stream_id == c.sid && dec.data[..] == data[..],
            "C03.rt",
            "decode(encode(f)) != f: cmd {:?}/{:?} sid {}/{} len {}/{}",
            dec.cmd,
            cmd,
            dec.stream_id,
            c.sid,
            dec.data.len(),
            data.len()
        );
        ensure!(
            buf[..] == sentinel[..],
            "C03.rt",
            "decode consumed {} bytes instead of exactly 7+{}",
            expect.len() + 3 - buf.len(),
            c.len
        );
        let again = codec.decode(&mut buf);
        ensure!(matches!(again, Ok(None)), "C03.chunk", "3 trailing bytes decoded as a frame");
        ensure!(buf[..] == sentinel[..], "C03.chunk", "a None result changed the buffer");
    } else {
        // C03.len: either refuse, or emit something a conforming receiver reassembles exactly
        if res.is_ok() {
            let (frames, used) = rc::parse(&buf);
            let ok = used == buf.len()
                && !frames.is_empty()
                && frames.iter().all(|f| f.cmd == c.cmd && f.sid == c.sid)
                && frames.iter().flat_map(|f| f.data.iter().copied()).eq(data.iter().copied());
            ensure_sig!(
                ok,
                "C03.len",
                "C03.len:encode-overlong-header-mismatch",
                "encoder accepted a {}-byte payload and emitted a header whose length field is {} followed by {} bytes",
                c.len,
                u16::from_be_bytes([buf[5], buf[6]]),
                buf.len() - 7
            );
        } else {
            // a refused frame emits nothing: whatever is written into the same buffer next must not
            // find the beginning of a header in front of it
            ensure!(buf.is_empty(), "C03.len", "encode refused a {}-byte payload but left {} bytes in the output buffer ({:02x?})", c.len, buf.len(), &buf[..buf.len().min(8)]);
            let prefix = [0xEEu8, 0xDD];
            let mut buf2 = BytesMut::from(&prefix[..]);
            let _ = codec.encode(frame.clone(), &mut buf2);
            ensure!(buf2[..] == prefix[..], "C03.len", "encode refused a {}-byte payload but appended {} bytes to a buffer that held 2", c.len, buf2.len() - 2);
            out.class("refused-frame-emits-nothing");
        }
    }
    Ok(out)
}

impl Family for FrameFam {
    type Case = FrameCase;
    fn name(&self) -> &'static str {
        "frame"
    }
    fn strategy(&self, _tier: Tier) -> BoxedStrategy<FrameCase> {
        let len = weighted_sizes(vec![
            (3, 0..=8),
            (3, 9..=300),
            (2, 254..=257),
            (2, 301..=5000),
            (2, 65530..=65535),
            (2, 65536..=65540),
            (1, 5001..=65529),
            (1, 65541..=140000),
        ]);
        (0u8..=10, sid_strategy(), len, any::<u8>())
            .prop_map(|(cmd, sid, len, seed)| FrameCase { cmd, sid, len, seed })
            .boxed()
    }
    fn fixed_cases(&self, _tier: Tier) -> Vec<FrameCase> {
        let mut v = Vec::new();
        for cmd in 0u8..=10 {
            for sid in [0u32, 1, 0x7FFF_FFFF, 0x8000_0000, 0xFFFF_FFFF, 0x0102_0304] {
                for len in [0usize, 1, 6, 7, 8, 255, 256, 65534, 65535, 65536, 65537, 70000, 131071] {
                    v.push(FrameCase { cmd, sid, len, seed: (cmd as usize + len) as u8 });
                }
            }
        }
        v
    }
    fn run(&self, case: &FrameCase, _cx: &CaseCtx) -> CaseResult {
        check_frame(case)
    }
    fn sample(&self, case: &FrameCase) -> serde_json::Value {
        serde_json::to_value(case).unwrap()
    }
}

// ------------------------------------------------------------------------------------------
// family `stream`

#[derive(Clone, Debug, Serialize, Deserialize)]
pub enum Cuts {
    Whole,
    ByteAtATime,
    Single(u16),
    Multi(Vec<u16>),
}

#[derive(Clone, Debug, Serialize, Deserialize)]
pub enum Source {
    /// (command byte, stream id, payload length, fill seed) per frame, plus how many bytes of
    /// one further frame follow (an incomplete tail).
    Frames(Vec<(u8, u32, usize, u8)>, Option<(u8, u32, usize, u16)>),
    Raw(Vec<u8>),
}

#[derive(Clone, Debug, Serialize, Deserialize)]
pub struct StreamCase {
    pub src: Source,
    pub cuts: Cuts,
}

pub struct StreamFam;

pub fn build_stream(src: &Source) -> Vec<u8> {
    match src {
        Source::Raw(b) => b.clone(),
        Source::Frames(items, tail) => {
            let mut out = Vec::new();
            for (cmd, sid, len, seed) in items {
                rc::encode_into(&RFrame::new(*cmd, *sid, fill(*len, *seed)), &mut out);
            }
            if let Some((cmd, sid, len, keep)) = tail {
                let enc = rc::encode(&RFrame::new(*cmd, *sid, fill(*len, 7)));
                // strictly incomplete: 0..enc.len()-1 bytes
                let k = idx(*keep, enc.len());
                out.extend_from_slice(&enc[..k]);
            }
            out
        }
    }
}

pub fn cut_points(cuts: &Cuts, len: usize) -> Vec<usize> {
    let mut pts: Vec<usize> = match cuts {
        Cuts::Whole => vec![],
        // byte at a time; streams above 4 KiB in at most ~2048 equal small pieces (the oracle
        // re-compares the buffer after every piece)
        Cuts::ByteAtATime => (1..len).step_by(len / 2048 + 1).collect(),
        Cuts::Single(i) => vec![idx(*i, len + 1)],
        Cuts::Multi(v) => v.iter().map(|i| idx(*i, len + 1)).collect(),
    };
    pts.sort_unstable();
    pts.dedup();
    pts.retain(|p| *p > 0 && *p < len);
    pts
}

/// The chunking oracle, shared with the fuzz target.
pub fn check_stream(whole: &[u8], cuts: &[usize]) -> CaseResult {
    let mut out = Outcome::new();
    let (expected, used) = rc::parse(whole);
    let mut codec = FrameCodec;
    let mut buf = BytesMut::new();
    let mut got: Vec<Frame> = Vec::new();
    let mut consumed = 0usize;
    let mut fed = 0usize;
    let mut bounds: Vec<usize> = cuts.to_vec();
    bounds.push(whole.len());
    for b in bounds {
        buf.extend_from_slice(&whole[fed..b]);
        fed = b;
        loop {
            let before = buf.len();
            match codec.decode(&mut buf) {
                Ok(Some(f)) => {
                    let took = before - buf.len();
                    ensure!(
                        took == 7 + f.data.len(),
                        "C03.chunk",
                        "a decoded frame with {} payload bytes consumed {} bytes",
                        f.data.len(),
                        took
                    );
                    consumed += took;
                    got.push(f);
                }
                Ok(None) => {
                    ensure!(
                        buf[..] == whole[consumed..fed],
                        "C03.chunk",
                        "after a None result the buffer no longer holds the unconsumed input (consumed={consumed}, fed={fed}, buffer len={})",
                        buf.len()
                    );
                    break;
                }
                Err(e) => {
                    return Err(Fail::plain("C03.total", format!("decode returned an error: {e}")));
                }
            }
        }
    }
    ensure!(
        got.len() == expected.len(),
        "C03.chunk",
        "decoder produced {} frames, reference parse of the whole stream has {} (cuts {:?})",
        got.len(),
        expected.len(),
        cuts
    );
    for (i, (g, e)) in got.iter().zip(expected.iter()).enumerate() {
        let ecmd = rc::effective_cmd(e.cmd);
        ensure!(
            u8::from(g.cmd) == ecmd && g.stream_id == e.sid && g.data[..] == e.data[..],
            "C03.chunk",
            "frame #{i} differs: got cmd={:?} sid={:#x} len={}, reference cmd byte {} (effective {}) sid={:#x} len={}",
            g.cmd,
            g.stream_id,
            g.data.len(),
            e.cmd,
            ecmd,
            e.sid,
            e.data.len()
        );
    }
    ensure!(consumed == used, "C03.chunk", "consumed {consumed} bytes, reference consumed {used}");
    ensure!(buf[..] == whole[used..], "C03.chunk", "leftover differs from the reference leftover");

    // classification
    let mut inside = false;
    let mut pos = 0usize;
    let mut spans = Vec::new();
    for f in &expected {
        spans.push((pos, pos + 7, pos + 7 + f.data.len()));
        pos += 7 + f.data.len();
    }
    for c in cuts {
        for (s, h, e) in &spans {
            if (*c > *s && *c < *h) || (*c > *h && *c < *e) {
                inside = true;
            }
        }
    }
    let big_cmd = expected.iter().any(|f| f.cmd > 10);
    let edge_len = expected.iter().any(|f| f.data.is_empty() || f.data.len() == 65535);
    out.nt((expected.len() >= 2 && inside) || big_cmd || edge_len);
    out.class_if(inside, "cut-inside-frame");
    out.class_if(big_cmd, "cmd>10");
    out.class_if(edge_len, "len-edge");
    out.class_if(used < whole.len(), "incomplete-tail");
    out.class_if(expected.len() >= 2, "frames>=2");
    let cut_in_large = cuts.iter().any(|c| spans.iter().any(|(_, h, e)| e - h > 4096 && *c > *h && *c < *e));
    out.class_if(cut_in_large, "cut-inside-payload>4KiB");
    Ok(out)
}

/// Encode the frames one after the other into a single buffer that already holds a few bytes.
pub fn check_concat(items: &[(u8, u32, usize, u8)]) -> Result<(), Fail> {
    let mut codec = FrameCodec;
    let prefix = [0xEEu8, 0xDD, 0xCC];
    let mut dst = BytesMut::from(&prefix[..]);
    let mut want: Vec<u8> = prefix.to_vec();
    for (i, (cmd, sid, len, seed)) in items.iter().enumerate() {
        let cmd = rc::effective_cmd(*cmd);
        let data = fill(*len, *seed);
        rc::encode_into(&RFrame::new(cmd, *sid, data.clone()), &mut want);
        let r = codec.encode(Frame::with_data(Command::from(cmd), *sid, Bytes::from(data)), &mut dst);
        ensure!(r.is_ok(), "C03.wire", "encode of frame #{i} into a non-empty buffer failed: {:?}", r.err());
        ensure!(
            dst[..] == want[..],
            "C03.wire",
            "after appending frame #{i} (cmd {cmd}, {len} payload bytes) to a buffer that already held {} bytes, the buffer differs from the reference concatenation (got {} bytes, header of the new frame {:02x?})",
            want.len() - 7 - len,
            dst.len(),
            &dst[dst.len().saturating_sub(7 + len)..dst.len().saturating_sub(*len).min(dst.len())]
        );
    }
    Ok(())
}

fn frames_strategy() -> BoxedStrategy<Source> {
    // every payload length a frame can carry, weighted towards the small ones (cheap) but with the
    // large ones present: fragmentation inside a large payload is a case of its own
    let len = weighted_sizes(vec![(8, 0..=8), (8, 9..=64), (2, 254..=257), (2, 1000..=3000), (1, 3001..=9000), (1, 16380..=16390), (1, 9001..=65529), (1, 65530..=65535)]);
    let cmd = prop_oneof![3 => 0u8..=10, 2 => Just(2u8), 1 => any::<u8>()];
    let item = (cmd.clone(), sid_strategy(), len.clone(), any::<u8>());
    let tail = proptest::option::of((cmd, sid_strategy(), len, any::<u16>()));
    (proptest::collection::vec(item, 0..6), tail)
        .prop_map(|(items, tail)| Source::Frames(items, tail))
        .boxed()
}

impl Family for StreamFam {
    type Case = StreamCase;
    fn name(&self) -> &'static str {
        "stream"
    }
    fn strategy(&self, _tier: Tier) -> BoxedStrategy<StreamCase> {
        let src = prop_oneof![
            4 => frames_strategy(),
            1 => proptest::collection::vec(any::<u8>(), 0..200).prop_map(Source::Raw),
            // raw bytes biased towards small length fields so that frames complete
            1 => proptest::collection::vec(prop_oneof![Just(0u8), 0u8..12, any::<u8>()], 0..120).prop_map(Source::Raw),
        ];
        let cuts = prop_oneof![
            1 => Just(Cuts::Whole),
            1 => Just(Cuts::ByteAtATime),
            3 => any::<u16>().prop_map(Cuts::Single),
            3 => proptest::collection::vec(any::<u16>(), 1..8).prop_map(Cuts::Multi),
        ];
        (src, cuts).prop_map(|(src, cuts)| StreamCase { src, cuts }).boxed()
    }
    fn fixed_cases(&self, tier: Tier) -> Vec<StreamCase> {
        let mut v = Vec::new();
        // all 256 command bytes x 3 lengths
        for cmd in 0u16..=255 {
            for len in [0usize, 1, 300] {
                v.push(StreamCase {
                    src: Source::Frames(vec![(cmd as u8, 0x0102_0304, len, cmd as u8), (2, 9, 5, 1)], None),
                    cuts: Cuts::Whole,
                });
            }
        }
        // every single cut position of a few short multi-frame streams
        let streams: Vec<Vec<(u8, u32, usize, u8)>> = vec![
            vec![(1, 1, 0, 0), (2, 1, 9, 1), (3, 1, 0, 2)],
            vec![(4, 0, 20, 3), (0, 0, 13, 4), (2, 7, 1, 5), (2, 7, 0, 6)],
            vec![(2, 0xFFFF_FFFF, 7, 7), (200, 5, 8, 8), (9, 0, 0, 9)],
            vec![(2, 1, 30, 1), (2, 2, 30, 2)],
        ];
        let extra = if tier == Tier::Thorough { 400 } else { 0 };
        for s in streams {
            let total: usize = s.iter().map(|f| 7 + f.2).sum();
            for cut in 1..total {
                let i = ((cut << 16) / (total + 1) + 1) as u16;
                // make sure the monotone mapping lands on `cut`
                let mut ii = i;
                while idx(ii, total + 1) < cut {
                    ii += 1;
                }
                v.push(StreamCase { src: Source::Frames(s.clone(), None), cuts: Cuts::Single(ii) });
            }
            v.push(StreamCase { src: Source::Frames(s.clone(), None), cuts: Cuts::ByteAtATime });
            let _ = extra;
        }
        if tier == Tier::Thorough {
            // every cut of a longer stream (<= 512 B)
            let s: Vec<(u8, u32, usize, u8)> = (0..12).map(|i| ((i % 11) as u8, i as u32 * 0x0101_0101, (i * 7) % 60, i as u8)).collect();
            let total: usize = s.iter().map(|f| 7 + f.2).sum();
            for cut in 1..total {
                let mut ii = ((cut << 16) / (total + 1)) as u16;
                while idx(ii, total + 1) < cut {
                    ii += 1;
                }
                v.push(StreamCase { src: Source::Frames(s.clone(), None), cuts: Cuts::Single(ii) });
            }
        }
        v
    }
    fn run(&self, case: &StreamCase, _cx: &CaseCtx) -> CaseResult {
        let whole = build_stream(&case.src);
        let cuts = cut_points(&case.cuts, whole.len());
        let mut out = check_stream(&whole, &cuts)?;
        // "all concatenations of frames": the real encoder appending frame after frame to ONE
        // buffer (the normal tokio-util Encoder usage) must produce the reference concatenation
        if let Source::Frames(items, _) = &case.src {
            check_concat(items)?;
            out.class_if(items.len() >= 2, "encoder-appends>=2");
        }
        Ok(out)
    }
}
