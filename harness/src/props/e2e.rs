//! End-to-end (Lab-S) families shared by several properties: the byte-pipe, end-of-stream,
//! HTTP-proxy, bad-preamble and pool-in-use checks through the real front-ends, the real client,
//! TLS, the real server and loopback targets.

use crate::engine::*;
use crate::ensure;
use crate::lab_mem::keyed;
use crate::lab_sock::refpeer::*;
use crate::lab_sock::world::*;
use crate::lab_sock::*;
use crate::props::c17;
use crate::reference::codec::{self as rc, RFrame};
use crate::reference::http::*;
use proptest::prelude::*;
use serde::{Deserialize, Serialize};
use std::net::{IpAddr, SocketAddr};
use tokio::io::{AsyncReadExt, AsyncWriteExt};
use tokio::net::TcpStream;
use tokio::time::Duration;

// ------------------------------------------------------------------------------------------
// helpers

/// CONNECT through the HTTP front-end. Ok(stream) on 200; Err(status line) otherwise.
pub async fn http_connect(front: SocketAddr, target: &str, glued: &[u8]) -> Result<(TcpStream, Vec<u8>), String> {
    let mut s = TcpStream::connect(front).await.map_err(|e| e.to_string())?;
    let _ = s.set_nodelay(true);
    let mut req = format!("CONNECT {target} HTTP/1.1\r\nHost: {target}\r\n\r\n").into_bytes();
    req.extend_from_slice(glued);
    s.write_all(&req).await.map_err(|e| e.to_string())?;
    // read the status line + headers
    let mut head = Vec::new();
    let mut b = [0u8; 1];
    loop {
        match tokio::time::timeout(Duration::from_secs(40), s.read(&mut b)).await {
            Ok(Ok(1)) => {
                head.push(b[0]);
                if head.ends_with(b"\r\n\r\n") {
                    break;
                }
            }
            _ => return Err(format!("connection ended inside the reply: {:?}", String::from_utf8_lossy(&head))),
        }
    }
    if head.starts_with(b"HTTP/1.1 200") {
        Ok((s, head))
    } else {
        Err(String::from_utf8_lossy(&head).lines().next().unwrap_or("").to_string())
    }
}

async fn read_exact_timeout(s: &mut TcpStream, n: usize, ms: u64) -> Result<Vec<u8>, (Vec<u8>, String)> {
    let mut out = vec![0u8; n];
    let mut got = 0usize;
    let deadline = tokio::time::Instant::now() + Duration::from_millis(ms);
    while got < n {
        match tokio::time::timeout_at(deadline, s.read(&mut out[got..])).await {
            Ok(Ok(0)) => return Err((out[..got].to_vec(), "end-of-stream".into())),
            Ok(Ok(k)) => got += k,
            Ok(Err(e)) => return Err((out[..got].to_vec(), e.to_string())),
            Err(_) => return Err((out[..got].to_vec(), "no progress".into())),
        }
    }
    Ok(out)
}

// ------------------------------------------------------------------------------------------
// family `tunnel` (C01): exact byte pipe through both front-ends

#[derive(Clone, Debug, Serialize, Deserialize)]
pub struct TunnelCase {
    pub via_http: bool,
    pub chunks: Vec<usize>,
    pub pause_every: u8,
    /// bytes the target sends on accept (towards the application) before echoing
    pub greeting: usize,
    /// the application starts reading this many ms after it started writing and then reads in
    /// small sips: with megabytes in flight every buffer between the target and the application
    /// fills up (back-pressure through target -> server -> session -> client -> front-end)
    #[serde(default)]
    pub slow_reader_ms: u16,
    /// Some((ms, MiB)): instead of echoing, the target reads nothing for this long and then reads on
    /// at its own pace while the application uploads this many MiB: the connection between the
    /// server and the target backs up until the kernel takes only parts of what the relay writes
    #[serde(default)]
    pub slow_target: Option<(u16, u8)>,
    /// the application shuts down its sending direction as soon as it has written everything and
    /// goes on reading: what is still on its way back must arrive all the same
    #[serde(default)]
    pub half_close_after_write: bool,
}

pub struct TunnelFam;

impl Family for TunnelFam {
    type Case = TunnelCase;
    fn name(&self) -> &'static str {
        "tunnel"
    }
    fn strategy(&self, _tier: Tier) -> BoxedStrategy<TunnelCase> {
        let chunk = weighted_sizes(vec![(3, 1..=100), (3, 101..=9000), (2, 8191..=8193), (2, 65534..=65537), (1, 70000..=70000), (1, 200_000..=200_000)]);
        let plain = (any::<bool>(), proptest::collection::vec(chunk, 1..8), 0u8..4, prop_oneof![Just(0usize), Just(10), Just(100_000)])
            .prop_map(|(via_http, chunks, pause_every, greeting)| TunnelCase { via_http, chunks, pause_every, greeting, slow_reader_ms: 0, slow_target: None, half_close_after_write: false });
        // megabytes against a reader that starts late
        let big = weighted_sizes(vec![(1, 65536..=65536), (2, 1_000_000..=1_000_000), (1, 2_500_000..=2_500_000)]);
        let pressed = (any::<bool>(), proptest::collection::vec(big, 2..5), prop_oneof![Just(0usize), Just(3_000_000)], prop_oneof![Just(150u16), Just(600)])
            .prop_map(|(via_http, chunks, greeting, slow_reader_ms)| TunnelCase { via_http, chunks, pause_every: 0, greeting, slow_reader_ms, slow_target: None, half_close_after_write: false });
        let stalled_target = (any::<bool>(), prop_oneof![Just(300u16), Just(1500)], prop_oneof![Just(12u8), Just(24)])
            .prop_map(|(via_http, ms, mib)| TunnelCase { via_http, chunks: vec![], pause_every: 0, greeting: 0, slow_reader_ms: 0, slow_target: Some((ms, mib)), half_close_after_write: false });
        let any_plain = (plain, proptest::bool::weighted(0.3)).prop_map(|(mut c, h)| {
            c.half_close_after_write = h;
            c
        });
        let any_pressed = (pressed, proptest::bool::weighted(0.3)).prop_map(|(mut c, h)| {
            c.half_close_after_write = h;
            c
        });
        prop_oneof![28 => any_plain, 4 => any_pressed, 1 => stalled_target].boxed()
    }
    fn fixed_cases(&self, _tier: Tier) -> Vec<TunnelCase> {
        // an upload against a target that does not read at first, through either front-end
        vec![
            TunnelCase { via_http: false, chunks: vec![], pause_every: 0, greeting: 0, slow_reader_ms: 0, slow_target: Some((1500, 24)), half_close_after_write: false },
            // request, half-close, then a long reply (the application's side is done, the reply is not)
            TunnelCase { via_http: false, chunks: vec![200_000], pause_every: 0, greeting: 100_000, slow_reader_ms: 150, slow_target: None, half_close_after_write: true },
            TunnelCase { via_http: true, chunks: vec![200_000], pause_every: 0, greeting: 100_000, slow_reader_ms: 150, slow_target: None, half_close_after_write: true },
            TunnelCase { via_http: true, chunks: vec![], pause_every: 0, greeting: 0, slow_reader_ms: 0, slow_target: Some((1500, 24)), half_close_after_write: false },
        ]
    }
    fn case_budget_s(&self) -> u64 {
        180
    }
    fn run(&self, case: &TunnelCase, _cx: &CaseCtx) -> CaseResult {
        let mut out = Outcome::new();
        let c = case.clone();
        let r = with_world(|w| {
            w.rt.block_on(async {
                let case = c;
                if let Some((stall_ms, mib)) = case.slow_target {
                    // a target that lets the upload back up, then takes it at its own pace; no echo
                    let total = mib as usize * (1 << 20);
                    let l = tokio::net::TcpListener::bind(SocketAddr::new(IpAddr::V4(worker_ip_n(30)), 0)).await.map_err(|e| infra(format!("target bind: {e}")))?;
                    let taddr = l.local_addr().map_err(|e| infra(e.to_string()))?;
                    let got: std::sync::Arc<std::sync::Mutex<Vec<u8>>> = Default::default();
                    let g2 = got.clone();
                    tokio::spawn(async move {
                        let Ok((mut s, _)) = l.accept().await else { return };
                        tokio::time::sleep(Duration::from_millis(stall_ms as u64)).await;
                        let mut b = vec![0u8; 1 << 16];
                        loop {
                            match s.read(&mut b).await {
                                Ok(0) | Err(_) => break,
                                Ok(n) => g2.lock().unwrap().extend_from_slice(&b[..n]),
                            }
                        }
                    });
                    let via = if case.via_http { "HTTP CONNECT" } else { "SOCKS5" };
                    let mut s = if case.via_http {
                        http_connect(w.http, &taddr.to_string(), b"").await.map_err(|e| Fail::plain("C01.api", format!("CONNECT to an accepting target failed: {e}")))?.0
                    } else {
                        socks5_connect(w.socks, &Dest::of(taddr)).await.map_err(|e| Fail::plain("C01.api", format!("SOCKS5 CONNECT to an accepting target failed: {:?}", e)))?
                    };
                    let upload = async {
                        let mut off = 0usize;
                        while off < total {
                            let n = (1usize << 16).min(total - off);
                            if s.write_all(&keyed(1, 0, off as u64, n)).await.is_err() {
                                return false;
                            }
                            off += n;
                        }
                        true
                    };
                    let wrote = tokio::time::timeout(Duration::from_secs(100), upload).await;
                    ensure!(matches!(wrote, Ok(true)), "C01.complete", "the application could not get its {mib} MiB upload accepted within 100 s (via {via}; the target starts reading after {stall_ms} ms)");
                    // everything that was written arrives, in order, unchanged
                    let mut last = (0usize, tokio::time::Instant::now());
                    wait_until(60_000, || {
                        let n = got.lock().unwrap().len();
                        if n != last.0 {
                            last = (n, tokio::time::Instant::now());
                        }
                        n >= total || last.1.elapsed() >= Duration::from_secs(5)
                    })
                    .await;
                    let got = got.lock().unwrap().clone();
                    let n = got.len().min(total);
                    let want = keyed(1, 0, 0, n);
                    if got[..n] != want[..] {
                        let first = got.iter().zip(want.iter()).position(|(a, b)| a != b).unwrap_or(0);
                        return Err(Fail::plain("C01.prefix", format!("a {mib} MiB upload to a target that starts reading after {stall_ms} ms (via {via}): the bytes at the target differ from what was sent, first at offset {first}")));
                    }
                    ensure!(got.len() == total, "C01.complete", "a {mib} MiB upload to a target that starts reading after {stall_ms} ms (via {via}): the target received {} of {total} bytes, then nothing more for 5 s", got.len());
                    return Ok(());
                }
                // a target that greets, then echoes
                let greet = keyed(1, 1, 0, case.greeting);
                let target = GreetEcho::start(IpAddr::V4(worker_ip_n(30)), greet.clone()).await?;
                let mut s = if case.via_http {
                    http_connect(w.http, &target.addr.to_string(), b"").await.map_err(|e| Fail::plain("C01.api", format!("CONNECT to an accepting target failed: {e}")))?.0
                } else {
                    socks5_connect(w.socks, &Dest::of(target.addr)).await.map_err(|e| Fail::plain("C01.api", format!("SOCKS5 CONNECT to an accepting target failed: {:?}", e)))?
                };
                let total: usize = case.chunks.iter().sum();
                let chunks = case.chunks.clone();
                let pause = case.pause_every;
                let half_close = case.half_close_after_write;
                let (mut rd, mut wr) = s.split();
                let writer = async {
                    let mut off = 0u64;
                    for (i, n) in chunks.iter().enumerate() {
                        let d = keyed(1, 0, off, *n);
                        off += *n as u64;
                        if wr.write_all(&d).await.is_err() {
                            return false;
                        }
                        if pause > 0 && i % pause as usize == 0 {
                            tokio::time::sleep(Duration::from_millis(2)).await;
                        }
                    }
                    if half_close {
                        let _ = wr.shutdown().await;
                    }
                    true
                };
                let slow = case.slow_reader_ms;
                let reader = async {
                    let want_total = greet.len() + total;
                    let mut got = Vec::with_capacity(want_total);
                    let mut b = vec![0u8; 65536];
                    if slow > 0 {
                        tokio::time::sleep(Duration::from_millis(slow as u64)).await;
                    }
                    let deadline = tokio::time::Instant::now() + Duration::from_secs(90);
                    let mut sips = 0usize;
                    while got.len() < want_total {
                        if slow > 0 && sips < 40 {
                            // the first reads are small and spaced out
                            sips += 1;
                            tokio::time::sleep(Duration::from_millis(5)).await;
                        }
                        let room = if slow > 0 && sips < 40 { 4096 } else { b.len() };
                        match tokio::time::timeout_at(deadline, rd.read(&mut b[..room])).await {
                            Ok(Ok(0)) => return (got, Some("end-of-stream".to_string())),
                            Ok(Ok(n)) => got.extend_from_slice(&b[..n]),
                            Ok(Err(e)) => return (got, Some(e.to_string())),
                            Err(_) => return (got, Some("stalled for 60 s".to_string())),
                        }
                    }
                    (got, None)
                };
                // the reader gives up after its deadline; a writer that is still stuck in its write then
                // (the relay stopped reading) must not hold the case forever
                let joined = tokio::time::timeout(Duration::from_secs(110), async { tokio::join!(writer, reader) }).await;
                let Ok((wrote, (got, why))) = joined else {
                    return Err(Fail::plain("C01.complete", format!("after 110 s the application was still blocked writing its {total} bytes and the echo had not come back (via {}, chunks {:?})", if case.via_http { "HTTP CONNECT" } else { "SOCKS5" }, case.chunks)));
                };
                ensure!(wrote, "C01.api", "the front-end stopped accepting bytes");
                let mut want = greet.clone();
                want.extend(keyed(1, 0, 0, total));
                let n = got.len().min(want.len());
                if got[..n] != want[..n] {
                    let first = got.iter().zip(want.iter()).position(|(a, b)| a != b).unwrap_or(0);
                    return Err(Fail::plain("C01.prefix", format!("bytes coming back through the tunnel differ from what was sent, first at offset {first} (greeting {} bytes, chunks {:?})", greet.len(), case.chunks)));
                }
                if let Some(why) = why {
                    return Err(Fail::plain(
                        if why == "end-of-stream" { "C01.noend" } else { "C01.complete" },
                        format!("{} of {} bytes came back, then: {why} (via {}, chunks {:?})", got.len(), want.len(), if case.via_http { "HTTP CONNECT" } else { "SOCKS5" }, case.chunks),
                    ));
                }
                // the target saw exactly what the application sent
                let seen = target.received();
                ensure!(seen == keyed(1, 0, 0, total), "C01.complete", "the target received {} bytes, the application sent {total}", seen.len());
                Ok(())
            })
        });
        if let Err(f) = r {
            reset_world();
            return Err(f);
        }
        let total: usize = case.chunks.iter().sum();
        out.nt(total > 65536 || case.greeting > 0);
        out.class_if(total > 65536, "total>64KiB");
        out.class_if(case.via_http, "http-connect");
        out.class_if(!case.via_http, "socks5");
        out.class_if(case.greeting > 65535, "target-sends-first>64KiB");
        out.class_if(case.slow_reader_ms > 0 && total >= 2_000_000, "late-reader>=2MB-in-flight");
        out.class_if(case.slow_target.is_some(), "upload-against-a-stalled-target");
        out.class_if(case.half_close_after_write && case.slow_target.is_none(), "application-half-closes-while-the-reply-is-on-its-way");
        out.nt(case.slow_target.is_some());
        Ok(out)
    }
}

/// A target that sends a greeting on accept, then echoes; records what it received.
pub struct GreetEcho {
    pub addr: SocketAddr,
    rec: std::sync::Arc<std::sync::Mutex<Vec<u8>>>,
    pub accepted: std::sync::Arc<std::sync::atomic::AtomicUsize>,
}

impl GreetEcho {
    pub async fn start(ip: IpAddr, greeting: Vec<u8>) -> Result<Self, Fail> {
        let l = tokio::net::TcpListener::bind(SocketAddr::new(ip, 0)).await.map_err(|e| infra(format!("target bind: {e}")))?;
        let addr = l.local_addr().map_err(|e| infra(e.to_string()))?;
        let rec: std::sync::Arc<std::sync::Mutex<Vec<u8>>> = Default::default();
        let accepted = std::sync::Arc::new(std::sync::atomic::AtomicUsize::new(0));
        let (r2, a2) = (rec.clone(), accepted.clone());
        tokio::spawn(async move {
            loop {
                let Ok((mut s, _)) = l.accept().await else { break };
                a2.fetch_add(1, std::sync::atomic::Ordering::SeqCst);
                let _ = s.set_nodelay(true);
                let g = greeting.clone();
                let r3 = r2.clone();
                tokio::spawn(async move {
                    if s.write_all(&g).await.is_err() {
                        return;
                    }
                    let mut b = vec![0u8; 65536];
                    loop {
                        match s.read(&mut b).await {
                            Ok(0) | Err(_) => break,
                            Ok(n) => {
                                r3.lock().unwrap().extend_from_slice(&b[..n]);
                                if s.write_all(&b[..n]).await.is_err() {
                                    break;
                                }
                            }
                        }
                    }
                });
            }
        });
        Ok(Self { addr, rec, accepted })
    }
    pub fn received(&self) -> Vec<u8> {
        self.rec.lock().unwrap().clone()
    }
}

// ------------------------------------------------------------------------------------------
// family `eof` (C08 end to end)

#[derive(Clone, Debug, Serialize, Deserialize, PartialEq)]
pub enum Closer {
    AppHalfClose,
    AppClose,
    TargetHalfClose,
    TargetClose,
}

#[derive(Clone, Debug, Serialize, Deserialize)]
pub struct EofCase {
    pub via_http: bool,
    pub up: usize,
    pub down: usize,
    pub closer: Closer,
}

pub struct EofFam;

impl Family for EofFam {
    type Case = EofCase;
    fn name(&self) -> &'static str {
        "eof"
    }
    fn strategy(&self, _tier: Tier) -> BoxedStrategy<EofCase> {
        let amount = prop_oneof![Just(0usize), Just(1), Just(3000), Just(70_000), Just(300_000)];
        (any::<bool>(), amount.clone(), amount, prop_oneof![Just(Closer::AppHalfClose), Just(Closer::AppClose), Just(Closer::TargetHalfClose), Just(Closer::TargetClose)])
            .prop_map(|(via_http, up, down, closer)| EofCase { via_http, up, down, closer })
            .boxed()
    }
    fn case_budget_s(&self) -> u64 {
        120
    }
    fn run(&self, case: &EofCase, cx: &CaseCtx) -> CaseResult {
        let mut out = Outcome::new();
        let c = case.clone();
        let r = with_world(|w| {
            w.rt.block_on(async {
                let mut case = c;
                if case.closer == Closer::TargetClose {
                    // a target that closes while bytes from the application sit unread in its socket
                    // makes the kernel send a reset, which may discard data in flight - that is TCP,
                    // not the proxy: a closing target has nothing unread
                    case.up = 0;
                }
                let down = keyed(2, 1, 0, case.down);
                let mode = match case.closer {
                    Closer::TargetHalfClose => TargetMode::SendThenShutdown(down.clone()),
                    Closer::TargetClose => TargetMode::SendThenClose(down.clone()),
                    _ => TargetMode::SendThenShutdown(Vec::new()), // placeholder, replaced below
                };
                let app_closes = matches!(case.closer, Closer::AppHalfClose | Closer::AppClose);
                // (the application half-closes: the target answers once it has everything - the reply travels
                // while the application's direction is already finished)
                let reply_after = case.closer == Closer::AppHalfClose && case.down > 0 && case.up > 0;
                let target = if reply_after {
                    TcpTarget::start(IpAddr::V4(worker_ip_n(31)), TargetMode::ReplyAfter(case.up, down.clone())).await?
                } else if app_closes {
                    TcpTarget::start(IpAddr::V4(worker_ip_n(31)), TargetMode::Sink).await?
                } else {
                    TcpTarget::start(IpAddr::V4(worker_ip_n(31)), mode).await?
                };
                let mut s = if case.via_http {
                    http_connect(w.http, &target.addr.to_string(), b"").await.map_err(|e| Fail::plain("C08.P1", format!("CONNECT failed: {e}")))?.0
                } else {
                    socks5_connect(w.socks, &Dest::of(target.addr)).await.map_err(|e| Fail::plain("C08.P1", format!("SOCKS5 CONNECT failed: {:?}", e)))?
                };
                let up = keyed(2, 0, 0, case.up);
                let via = if case.via_http { "HTTP CONNECT" } else { "SOCKS5" };
                // the front-end said 'connected': wait for the target's accept record to be written
                wait_until(10_000, || target.n_conns() >= 1).await;
                if app_closes {
                    // the application sends `up` bytes and ends its direction
                    s.write_all(&up).await.map_err(|e| Fail::plain("C08.P2", format!("write: {e}")))?;
                    let mut s = if case.closer == Closer::AppHalfClose {
                        let _ = s.shutdown().await;
                        Some(s)
                    } else {
                        drop(s);
                        None
                    };
                    // P2 (safety): every byte sent before the close reaches the target
                    let ok = wait_until(20_000, || target.total_received() >= up.len()).await;
                    let conn = target.conn(0);
                    let got = conn.as_ref().map(|c| c.lock().unwrap().received.clone()).unwrap_or_default();
                    ensure!(
                        ok && got == up,
                        "C08.P2",
                        "the application sent {} bytes and then {:?}; the target received {} of them (via {via})",
                        up.len(),
                        case.closer,
                        got.len()
                    );
                    // P3: the other direction keeps working until it ends too - the target's reply, sent after
                    // the application's half-close, arrives in full
                    if let (true, Some(s)) = (reply_after, s.as_mut()) {
                        match read_exact_timeout(s, down.len(), 20_000).await {
                            Ok(g) => ensure!(g == down, "C08.P3", "the reply that followed the application's half-close arrived altered"),
                            Err((g, why)) => {
                                return Err(Fail::plain(
                                    "C08.P3",
                                    format!("the application sent {} bytes and half-closed, the target then replied with {} bytes; the application received {} of them, then: {why} (via {via})", up.len(), down.len(), g.len()),
                                ));
                            }
                        }
                    }
                    // P1 (liveness): the target then observes end-of-stream
                    let eof = wait_until(1500, || conn.as_ref().is_some_and(|c| c.lock().unwrap().eof)).await;
                    if !eof && !cx.tolerate("C08.P1:e2e:eof-not-propagated") {
                        return Err(Fail::new(
                            "C08.P1",
                            "C08.P1:e2e:eof-not-propagated",
                            format!("the application finished sending ({:?}, {} bytes, via {via}); the target received all bytes but never observed end-of-stream", case.closer, up.len()),
                        ));
                    }
                } else {
                    // the target sends `down` bytes and ends its direction; the application also sends `up`
                    if !up.is_empty() {
                        s.write_all(&up).await.map_err(|e| Fail::plain("C08.P3", format!("write: {e}")))?;
                    }
                    let got = read_exact_timeout(&mut s, down.len(), 20_000).await;
                    match got {
                        Ok(g) => ensure!(g == down, "C08.P2", "bytes from the target arrived altered"),
                        Err((g, why)) => {
                            return Err(Fail::plain(
                                "C08.P2",
                                format!("the target sent {} bytes and then {:?}; the application received {} of them, then: {why} (via {via})", down.len(), case.closer, g.len()),
                            ));
                        }
                    }
                    // P3: the other direction still works after the target half-closed
                    if case.closer == Closer::TargetHalfClose {
                        let ok = wait_until(20_000, || target.total_received() >= up.len()).await;
                        ensure!(ok, "C08.P3", "after the target half-closed, bytes from the application no longer reach it ({} of {})", target.total_received(), up.len());
                    }
                    // P1: the application observes end-of-stream after the data
                    let mut b = [0u8; 16];
                    let eof = matches!(tokio::time::timeout(Duration::from_millis(1500), s.read(&mut b)).await, Ok(Ok(0)));
                    if !eof && !cx.tolerate("C08.P1:e2e:eof-not-propagated") {
                        return Err(Fail::new(
                            "C08.P1",
                            "C08.P1:e2e:eof-not-propagated",
                            format!("the target finished sending ({:?}, {} bytes, via {via}); the application received all bytes but never observed end-of-stream", case.closer, down.len()),
                        ));
                    }
                }
                Ok(())
            })
        });
        if let Err(f) = r {
            reset_world();
            return Err(f);
        }
        out.nt(case.up + case.down > 0);
        out.class_if(case.up >= 70_000 || case.down >= 70_000, "data-in-flight>64KiB");
        out.class_if(case.closer == Closer::AppHalfClose && case.down > 0 && case.up > 0, "reply-after-the-application-half-closed");
        out.class(match case.closer {
            Closer::AppHalfClose => "app-half-close",
            Closer::AppClose => "app-close",
            Closer::TargetHalfClose => "target-half-close",
            Closer::TargetClose => "target-close",
        });
        Ok(out)
    }
}

// ------------------------------------------------------------------------------------------
// family `srv_fin` (C08, server side end to end): a reference client that does send FIN

#[derive(Clone, Debug, Serialize, Deserialize, PartialEq)]
pub enum SrvOrder {
    /// the target sends `down`, half-closes and keeps reading; then the client sends `up` and finishes
    TargetHalfCloseThenClient,
    /// the client sends `up` and finishes while the target is still open (it only reads)
    ClientFirst,
    /// the target sends `down` and closes; the client only reads
    TargetCloses,
    /// the client sends `up` and FIN, stops reading for a while and then reads on; the target, once it
    /// has everything, replies with `down` and closes: the reply backs up inside the server
    ClientFinThenReply,
}

#[derive(Clone, Debug, Serialize, Deserialize)]
pub struct SrvFinCase {
    pub order: SrvOrder,
    pub up: usize,
    pub down: usize,
    /// the client finishes by closing its whole session (TLS connection) instead of a FIN frame
    pub by_session_close: bool,
    /// size of the client's data frames
    pub frame: usize,
    /// ClientFirst only: the client does not wait for the server's SYNACK - open, destination, data
    /// and the end arrive in one piece, the end is processed while the server is still dialling
    #[serde(default)]
    pub early_fin: bool,
    /// a quiet period of this many seconds in the middle of the transfer: between the two halves of
    /// the client's upload (orders in which the client uploads; nothing flows in either direction
    /// meanwhile), or between the two halves of the target's reply (TargetCloses). An open stream
    /// may be silent for as long as it likes; what is sent after the silence still arrives before the end.
    #[serde(default)]
    pub quiet_s: u8,
}

pub struct SrvFinFam;

impl Family for SrvFinFam {
    type Case = SrvFinCase;
    fn name(&self) -> &'static str {
        "srv_fin"
    }
    fn fixed_cases(&self, _tier: Tier) -> Vec<SrvFinCase> {
        // 31 s of silence in the middle of a transfer, in either direction
        vec![
            SrvFinCase { order: SrvOrder::ClientFirst, up: 2000, down: 0, by_session_close: false, frame: 1000, early_fin: false, quiet_s: 31 },
            SrvFinCase { order: SrvOrder::TargetHalfCloseThenClient, up: 2000, down: 100, by_session_close: false, frame: 1000, early_fin: false, quiet_s: 31 },
            SrvFinCase { order: SrvOrder::TargetCloses, up: 0, down: 2000, by_session_close: false, frame: 1000, early_fin: false, quiet_s: 31 },
        ]
    }
    fn strategy(&self, tier: Tier) -> BoxedStrategy<SrvFinCase> {
        let quiet = if tier == Tier::Thorough { prop_oneof![60 => Just(0u8), 1 => Just(4u8), 1 => Just(11), 1 => Just(31), 1 => Just(61)].boxed() } else { prop_oneof![60 => Just(0u8), 1 => Just(4u8), 1 => Just(11)].boxed() };
        let amount = weighted_sizes(vec![(2, 0..=0), (3, 1..=100), (2, 8191..=8193), (2, 65534..=65537), (1, 300_000..=300_000), (1, 3_000_000..=3_000_000)]);
        (
            prop_oneof![3 => Just(SrvOrder::TargetHalfCloseThenClient), 2 => Just(SrvOrder::ClientFirst), 2 => Just(SrvOrder::TargetCloses), 1 => Just(SrvOrder::ClientFinThenReply)],
            amount.clone(),
            amount,
            proptest::bool::weighted(0.3),
            prop_oneof![Just(1usize), Just(1000), Just(16384), Just(65535)],
            proptest::bool::weighted(0.4),
            quiet,
        )
            .prop_map(|(order, up, down, by_session_close, frame, early_fin, quiet_s)| {
                let early_fin = early_fin && order == SrvOrder::ClientFirst && !by_session_close && quiet_s == 0;
                SrvFinCase { early_fin, quiet_s: if order == SrvOrder::ClientFinThenReply { 0 } else { quiet_s }, order, up, down, by_session_close, frame }
            })
            .boxed()
    }
    fn case_budget_s(&self) -> u64 {
        240
    }
    fn run(&self, case: &SrvFinCase, cx: &CaseCtx) -> CaseResult {
        let mut out = Outcome::new();
        let c = case.clone();
        let r = with_world(|w| {
            w.rt.block_on(async {
                let case = c;
                // (a reply that is to back up inside the server must be larger than what the sockets between
                // the server and a client that does not read can hold)
                let down = keyed(4, 1, 0, if case.order == SrvOrder::ClientFinThenReply && case.down >= 300_000 { 16 << 20 } else { case.down });
                let up = keyed(4, 0, 0, case.up);
                let mode = match case.order {
                    SrvOrder::TargetHalfCloseThenClient => TargetMode::SendThenShutdown(down.clone()),
                    SrvOrder::ClientFirst => TargetMode::Sink,
                    SrvOrder::TargetCloses if case.quiet_s > 0 => TargetMode::SendPauseSendThenClose(down[..down.len() / 2].to_vec(), case.quiet_s as u64 * 1000, down[down.len() / 2..].to_vec()),
                    SrvOrder::TargetCloses => TargetMode::SendThenClose(down.clone()),
                    SrvOrder::ClientFinThenReply => TargetMode::ReplyAfterThenClose(case.up.max(1), down.clone()),
                };
                let target = TcpTarget::start(IpAddr::V4(worker_ip_n(33)), mode).await?;
                let mut cl = RefClient::connect(w.server).await?;
                let md5 = format!("{:x}", md5::compute(anytls_rs::padding::DEFAULT_PADDING_SCHEME.as_bytes()));
                const SID: u32 = 1;
                let mut hello = ref_preamble(PASSWORD, 3);
                hello.extend(rc::encode_all(&[
                    RFrame::new(rc::SETTINGS, 0, format!("v=2\nclient=ref\npadding-md5={md5}").into_bytes()),
                    RFrame::ctl(rc::SYN, SID),
                    RFrame::new(rc::PSH, SID, Dest::of(target.addr).encode()),
                ]));
                // (only with a FIN: a client that tears its whole session down before the server has dialled
                // is a session ending, C09's subject, not a stream ending)
                let early = case.early_fin && case.order == SrvOrder::ClientFirst && !case.by_session_close;
                if early {
                    // everything in one piece: the end of the stream is there before the dial has finished
                    let mut frames: Vec<RFrame> = up.chunks(case.frame.max(1)).map(|c| RFrame::new(rc::PSH, SID, c.to_vec())).collect();
                    if !case.by_session_close {
                        frames.push(RFrame::ctl(rc::FIN, SID));
                    }
                    hello.extend(rc::encode_all(&frames));
                }
                cl.send_raw(&hello).await.map_err(|e| infra(format!("reference client write: {e}")))?;
                if !early {
                    let ack = cl.wait_for(10_000, |f| f.cmd == rc::SYNACK && f.sid == SID).await;
                    if ack.is_none() || ack.is_some_and(|f| !f.data.is_empty()) {
                        return Err(infra("the server did not accept the stream to a listening target"));
                    }
                }
                let data_seen = |cl: &RefClient| -> Vec<u8> { cl.seen.iter().filter(|f| f.cmd == rc::PSH && f.sid == SID).flat_map(|f| f.data.iter().copied()).collect() };
                if case.order == SrvOrder::ClientFinThenReply {
                    // up (at least one byte, the target waits for it), FIN, a pause without reading, then read on
                    let up1 = if up.is_empty() { vec![0x42u8] } else { up.clone() };
                    let mut frames: Vec<RFrame> = up1.chunks(case.frame.max(1)).map(|c| RFrame::new(rc::PSH, SID, c.to_vec())).collect();
                    frames.push(RFrame::ctl(rc::FIN, SID));
                    cl.send(&frames).await.map_err(|e| infra(format!("reference client write: {e}")))?;
                    tokio::time::sleep(Duration::from_millis(if down.len() > 1_000_000 { 1500 } else { 300 })).await;
                    let deadline = tokio::time::Instant::now() + Duration::from_secs(40);
                    while data_seen(&cl).len() < down.len() && tokio::time::Instant::now() < deadline && !cl.eof {
                        cl.drain(300).await;
                    }
                    cl.drain(600).await;
                    // whatever end-of-stream signal the server sends, it comes after every byte of the reply
                    let pos_fin = cl.seen.iter().position(|f| f.cmd == rc::FIN && f.sid == SID);
                    let last_psh = cl.seen.iter().rposition(|f| f.cmd == rc::PSH && f.sid == SID);
                    if let (Some(pf), Some(lp)) = (pos_fin, last_psh) {
                        ensure!(lp < pf, "C08.P2", "the server sent FIN for the stream and {} more data frames of the target's {}-byte reply after it (the client had half-closed and read late)", cl.seen[pf..].iter().filter(|f| f.cmd == rc::PSH && f.sid == SID).count(), down.len());
                    }
                    let got = data_seen(&cl);
                    ensure!(got == down, "C08.P2", "the client sent {} bytes and FIN and read late; the target replied with {} bytes and closed; the client received {} of them{}", up1.len(), down.len(), got.len(), if got.len() == down.len() { " (altered)" } else { "" });
                    return Ok(());
                }
                let expect_down = case.order != SrvOrder::ClientFirst;
                if expect_down {
                    // P2 towards the client: every byte the target sent before it (half-)closed arrives
                    let quiet_down = if case.order == SrvOrder::TargetCloses { case.quiet_s as u64 } else { 0 };
                    let deadline = tokio::time::Instant::now() + Duration::from_secs(30 + quiet_down);
                    while data_seen(&cl).len() < down.len() && tokio::time::Instant::now() < deadline && !cl.eof {
                        cl.drain(200).await;
                    }
                    let got = data_seen(&cl);
                    ensure!(
                        got == down,
                        "C08.P2",
                        "the target sent {} bytes{} and then {:?}; the client received {} of them{}",
                        down.len(),
                        if quiet_down > 0 { format!(" (with {quiet_down} s of silence after the first half)") } else { String::new() },
                        case.order,
                        got.len(),
                        if got.len() == down.len() { " (altered)" } else { "" }
                    );
                }
                match case.order {
                    SrvOrder::TargetCloses => {
                        // P1 towards the client: a FIN for the stream follows the data
                        cl.drain(1200).await;
                        let fin = cl.seen.iter().any(|f| f.cmd == rc::FIN && f.sid == SID);
                        if !fin && !cx.tolerate("C08.P1:e2e:eof-not-propagated") {
                            return Err(Fail::new("C08.P1", "C08.P1:e2e:eof-not-propagated", format!("the target sent {} bytes and closed; the client received all bytes but no FIN for the stream", down.len())));
                        }
                        if fin {
                            // only after the data
                            let pos_fin = cl.seen.iter().position(|f| f.cmd == rc::FIN && f.sid == SID).unwrap();
                            let last_psh = cl.seen.iter().rposition(|f| f.cmd == rc::PSH && f.sid == SID);
                            ensure!(last_psh.is_none_or(|p| p < pos_fin), "C08.P2", "data of the stream arrived after its FIN");
                        }
                    }
                    _ => {
                        // the client sends `up` and finishes
                        if !early {
                            let mut frames: Vec<RFrame> = up.chunks(case.frame.max(1)).map(|c| RFrame::new(rc::PSH, SID, c.to_vec())).collect();
                            if case.quiet_s > 0 && frames.len() >= 2 {
                                // first half, silence, then the rest and the end
                                let rest = frames.split_off(frames.len() / 2);
                                cl.send(&frames).await.map_err(|e| Fail::plain("C08.P3", format!("the server stopped reading from the client ({e}) although only the target had finished")))?;
                                let until = tokio::time::Instant::now() + Duration::from_secs(case.quiet_s as u64);
                                while tokio::time::Instant::now() < until && !cl.eof {
                                    cl.drain(500).await;
                                }
                                frames = rest;
                            }
                            if !case.by_session_close {
                                frames.push(RFrame::ctl(rc::FIN, SID));
                            }
                            cl.send(&frames).await.map_err(|e| Fail::plain("C08.P3", format!("the server stopped reading from the client ({e}) although only the target had finished")))?;
                        }
                        if case.by_session_close {
                            use tokio::io::AsyncWriteExt;
                            let _ = cl.tls.shutdown().await;
                            drop(cl);
                        }
                        // P2/P3 towards the target: every byte sent before the end arrives
                        let ok = wait_until(30_000, || target.total_received() >= up.len() || target.conn(0).is_some_and(|c| { let g = c.lock().unwrap(); g.error.is_some() || g.eof })).await;
                        // (the target's accept record is written a moment after the kernel completed the
                        // connection the SYNACK reported)
                        wait_until(10_000, || target.n_conns() >= 1).await;
                        let conn = target.conn(0);
                        if conn.is_none() {
                            return Err(infra("the server reported the connection but the target never accepted one"));
                        }
                        tokio::time::sleep(Duration::from_millis(50)).await;
                        let (got, err) = conn.as_ref().map(|c| { let g = c.lock().unwrap(); (g.received.clone(), g.error.clone()) }).unwrap_or_default();
                        let how = match (case.by_session_close, early) {
                            (true, false) => "closed its session",
                            (false, false) => "sent FIN",
                            (true, true) => "closed its session without waiting for the SYNACK",
                            (false, true) => "sent FIN without waiting for the SYNACK",
                        };
                        // A client that tears its whole session down is not an endpoint finishing its stream:
                        // bytes still inside the server when the session dies may go down with it (that is
                        // C09's subject). What did arrive must be a prefix of what was sent; the rest of the
                        // case (how the target's connection ends) is judged as always.
                        let torn = case.by_session_close && got.len() < up.len() && up.starts_with(&got);
                        ensure!(
                            torn || (ok && got == up),
                            "C08.P2",
                            "the client sent {} bytes{} and {how} ({:?}); the target received {} of them{}",
                            up.len(),
                            if case.quiet_s > 0 { format!(" (with {} s of silence after the first half)", case.quiet_s) } else { String::new() },
                            case.order,
                            got.len(),
                            err.as_ref().map(|e| format!(", then its read failed: {e}")).unwrap_or_default()
                        );
                        // P1 towards the target: it observes end-of-stream (not a reset) after the data
                        // (liveness: generous where it is armed - the machine may be busy -, short where the
                        // listed finding makes it run out every time)
                        let patience = if case.order == SrvOrder::ClientFirst { 1500 } else { 15_000 };
                        let ended = wait_until(patience, || conn.as_ref().is_some_and(|c| { let g = c.lock().unwrap(); g.eof || g.error.is_some() })).await;
                        let err = conn.as_ref().and_then(|c| c.lock().unwrap().error.clone());
                        ensure!(err.is_none(), "C08.P1", "the client sent {} bytes and {how} ({:?}); the target received them but then its connection failed instead of ending: {}", up.len(), case.order, err.unwrap_or_default());
                        if !ended {
                            // the server forwards a client FIN only by dropping the socket once the target has
                            // closed too: with the target still open this is the listed finding
                            let known = case.order == SrvOrder::ClientFirst;
                            if !(known && cx.tolerate("C08.P1:e2e:eof-not-propagated")) {
                                return Err(Fail::new(
                                    "C08.P1",
                                    if known { "C08.P1:e2e:eof-not-propagated" } else { "C08.P1:srv:no-eof-after-both-ended" },
                                    format!("the client sent {} bytes and {how} ({:?}); the target received all bytes but never observed end-of-stream", up.len(), case.order),
                                ));
                            }
                        }
                    }
                }
                Ok(())
            })
        });
        if let Err(f) = r {
            reset_world();
            return Err(f);
        }
        out.nt(case.up + case.down > 0);
        out.class_if(case.up >= 70_000 || case.down >= 70_000, "data-in-flight>64KiB");
        out.class_if(case.by_session_close, "client-ends-by-session-close");
        out.class_if(case.early_fin && case.order == SrvOrder::ClientFirst && !case.by_session_close, "end-arrives-while-the-server-dials");
        out.class_if(case.quiet_s >= 30, ">=30s-of-silence-in-mid-transfer");
        out.class_if(case.quiet_s > 0 && case.quiet_s < 30, "<30s-of-silence-in-mid-transfer");
        out.class(match case.order {
            SrvOrder::TargetHalfCloseThenClient => "target-half-close-then-client-fin",
            SrvOrder::ClientFirst => "client-fin-first",
            SrvOrder::TargetCloses => "target-closes",
            SrvOrder::ClientFinThenReply => "client-fin-then-a-reply-that-backs-up",
        });
        Ok(out)
    }
}

// ------------------------------------------------------------------------------------------
// family `proxy` (C17 end to end)

#[derive(Clone, Debug, Serialize, Deserialize)]
pub struct ProxyCase {
    pub req: ReqGen,
    pub refuse: bool,
    pub cuts: Vec<u16>,
    /// grow the header block to this size (0 = leave)
    pub pad_to: usize,
    /// Some(k): one more segment boundary k bytes before the end of the header block (inside the
    /// terminator for k = 1..3)
    #[serde(default)]
    pub term_cut: Option<u8>,
    /// this many more bytes follow in one burst (behind the header and its body prefix for a
    /// forwarded request, behind the 200 for CONNECT): more than any relay buffer holds at once
    #[serde(default)]
    pub burst: usize,
    /// the burst is written together with the header block (one write, no pause): more body bytes are
    /// readable the moment the relay behind the header starts (forwarded requests only)
    #[serde(default)]
    pub burst_glued: bool,
}

pub struct ProxyFam;

impl Family for ProxyFam {
    type Case = ProxyCase;
    fn name(&self) -> &'static str {
        "proxy"
    }
    fn strategy(&self, _tier: Tier) -> BoxedStrategy<ProxyCase> {
        // header block sizes around the listener's read granularity (1 KiB) and around the 64 KiB cap
        let pad = prop_oneof![
            8 => Just(0usize),
            4 => (1usize..8, 0usize..4).prop_map(|(k, d)| k * 1024 + d - 1),
            1 => (8usize..63, 0usize..4).prop_map(|(k, d)| k * 1024 + d - 1),
            1 => 60_000usize..64_513,
            1 => 65_537usize..70_000,
        ];
        let burst = prop_oneof![12 => Just(0usize), 1 => Just(8192usize), 1 => Just(9000usize), 1 => Just(20_000usize), 1 => Just(70_000usize), 1 => Just(300_000usize)];
        (c17::req_strategy(false), proptest::bool::weighted(0.15), proptest::collection::vec(any::<u16>(), 0..4), pad, proptest::option::weighted(0.4, 1u8..6), burst, any::<bool>())
            .prop_map(|(req, refuse, cuts, pad_to, term_cut, burst, burst_glued)| ProxyCase { req, refuse, cuts, pad_to, term_cut, burst, burst_glued })
            .boxed()
    }
    fn case_budget_s(&self) -> u64 {
        120
    }
    fn run(&self, case: &ProxyCase, _cx: &CaseCtx) -> CaseResult {
        let mut out = Outcome::new();
        let c = case.clone();
        let r = with_world(|w| {
            w.rt.block_on(async {
                let case = c;
                let origin = TcpTarget::start(IpAddr::V4(worker_ip_n(32)), TargetMode::Sink).await?;
                let dest = if case.refuse { w.closed_port } else { origin.addr };
                let mut req = case.req.clone();
                req.host = HostSpec::V4(match dest.ip() {
                    IpAddr::V4(v4) => v4.octets(),
                    _ => [127, 0, 0, 1],
                });
                req.port = Some(dest.port());
                if case.pad_to > 0 {
                    let cur = req.build().header.len();
                    if case.pad_to > cur + 16 {
                        req.headers.push(("X-Pad".to_string(), 0, "p".repeat(case.pad_to - cur - 9)));
                    }
                }
                let b = req.build();
                let too_big = b.header.len() > 65_536;
                let mut bytes = b.header.clone().into_bytes();
                bytes.extend_from_slice(&req.body);
                let glued = case.burst_glued && case.burst > 0 && !b.is_connect && !case.refuse && !too_big;
                if glued {
                    bytes.extend(keyed(9, 0, 0, case.burst));
                }
                let mut s = TcpStream::connect(w.http).await.map_err(|e| infra(format!("connect to the HTTP listener: {e}")))?;
                let _ = s.set_nodelay(true);
                let mut pts: Vec<usize> = case.cuts.iter().map(|c| idx(*c, bytes.len() + 1)).collect();
                if let Some(k) = case.term_cut {
                    pts.push(b.header.len().saturating_sub(k as usize));
                }
                pts.sort_unstable();
                pts.dedup();
                pts.push(bytes.len());
                let mut from = 0usize;
                for p in pts {
                    if p > from {
                        if s.write_all(&bytes[from..p]).await.is_err() {
                            break;
                        }
                        from = p;
                        tokio::time::sleep(Duration::from_millis(3)).await;
                    }
                }
                let desc = format!("request line {:?} ({} header bytes, {} body bytes)", b.header.lines().next().unwrap_or(""), b.header.len(), req.body.len());
                if too_big {
                    // must be refused: no tunnel
                    let mut sink = vec![0u8; 4096];
                    let _ = tokio::time::timeout(Duration::from_secs(10), s.read(&mut sink)).await;
                    tokio::time::sleep(Duration::from_millis(30)).await;
                    ensure!(origin.n_conns() == 0, "C17.target", "a header block of {} bytes (> 64 KiB) was accepted and a tunnel opened", b.header.len());
                    return Ok(());
                }
                if b.is_connect {
                    // reply first
                    let mut head = Vec::new();
                    let mut one = [0u8; 1];
                    loop {
                        match tokio::time::timeout(Duration::from_secs(40), s.read(&mut one)).await {
                            Ok(Ok(1)) => {
                                head.push(one[0]);
                                if head.ends_with(b"\r\n\r\n") {
                                    break;
                                }
                            }
                            _ => break,
                        }
                    }
                    let status = String::from_utf8_lossy(&head).lines().next().unwrap_or("").to_string();
                    if case.refuse {
                        ensure!(status.contains(" 502"), "C17.connect", "CONNECT to a refusing destination answered {:?} ({desc})", status);
                    } else {
                        ensure!(status.contains(" 200"), "C17.connect", "CONNECT to an accepting destination answered {:?} ({desc})", status);
                        let ok = wait_until(3000, || origin.n_conns() == 1).await;
                        ensure!(ok, "C17.connect", "200 was sent but the destination has not accepted a connection ({desc})");
                        // early data + later data, exactly once, in order
                        let mut later = b"-later-bytes".to_vec();
                        later.extend(keyed(9, 0, 0, case.burst));
                        s.write_all(&later).await.map_err(|e| Fail::plain("C17.body", format!("tunnel write: {e}")))?;
                        let mut want = req.body.clone();
                        want.extend_from_slice(&later);
                        let ok = wait_until(20_000, || origin.total_received() >= want.len()).await;
                        let got = origin.conn(0).map(|c| c.lock().unwrap().received.clone()).unwrap_or_default();
                        ensure!(
                            ok && got == want,
                            "C17.body",
                            "{} bytes followed the CONNECT header in the same write and {} more were sent after the 200 in one burst; the destination received {} bytes{} ({desc})",
                            req.body.len(),
                            later.len(),
                            got.len(),
                            if got == b"-later-bytes" { " - the bytes that arrived with the header were dropped" } else { "" }
                        );
                    }
                } else if case.refuse {
                    let mut head = vec![0u8; 12];
                    let r = tokio::time::timeout(Duration::from_secs(40), s.read_exact(&mut head)).await;
                    ensure!(matches!(r, Ok(Ok(_))) && head.ends_with(b"502"), "C17.connect", "request to a refusing destination answered {:?} ({desc})", String::from_utf8_lossy(&head));
                } else {
                    // the origin receives the rewritten request followed by the body
                    let ok = wait_until(10_000, || origin.n_conns() == 1).await;
                    ensure!(ok, "C17.target", "the origin named by the request never got a connection ({desc})");
                    tokio::time::sleep(Duration::from_millis(60)).await;
                    wait_until(3000, || origin.conn(0).is_some_and(|c| c.lock().unwrap().received.windows(4).any(|w| w == b"\r\n\r\n"))).await;
                    tokio::time::sleep(Duration::from_millis(40)).await;
                    let mut req = req.clone();
                    if case.burst > 0 {
                        // more body bytes in one burst; the origin's count must reach them (or stop growing)
                        let more = keyed(9, 0, 0, case.burst);
                        if !glued {
                            s.write_all(&more).await.map_err(|e| Fail::plain("C17.body", format!("write of the body burst: {e}")))?;
                        }
                        req.body.extend_from_slice(&more);
                        let mut last = (origin.total_received(), tokio::time::Instant::now());
                        let floor = req.body.len();
                        wait_until(20_000, || {
                            let n = origin.total_received();
                            if n != last.0 {
                                last = (n, tokio::time::Instant::now());
                            }
                            n >= floor && last.1.elapsed() >= Duration::from_millis(250)
                        })
                        .await;
                    }
                    let got = origin.conn(0).map(|c| c.lock().unwrap().received.clone()).unwrap_or_default();
                    c17::check_forwarded(&req, &b, &got)?;
                }
                Ok(())
            })
        });
        if let Err(f) = r {
            reset_world();
            return Err(f);
        }
        let b = case.req.build();
        out.nt(true);
        out.class_if(b.is_connect, "connect");
        out.class_if(!b.is_connect, "forwarded-request");
        out.class_if(case.refuse, "refusing-destination");
        out.class_if(!case.req.body.is_empty(), "bytes-behind-header");
        out.class_if(case.pad_to > 65_536, "header>64KiB");
        out.class_if(case.burst >= 8192, "burst>=8KiB-behind-header");
        out.class_if(case.burst >= 8192 && case.burst_glued, "burst-in-the-same-write-as-the-header");
        out.class_if(!case.cuts.is_empty() || case.term_cut.is_some(), "segmented");
        out.class_if(case.term_cut.is_some_and(|k| k <= 3), "cut-inside-terminator");
        out.class_if(case.pad_to > 0 && case.pad_to < 60_000, "header-size-near-KiB-multiple");
        Ok(out)
    }
}

// ------------------------------------------------------------------------------------------
// family `badauth` (C06 end to end): RefClient -> real server

#[derive(Clone, Debug, Serialize, Deserialize)]
pub struct BadAuthCase {
    /// None = the right hash
    pub flip_bit: Option<u8>,
    pub declared: u16,
    /// truncate the preamble (incl. padding) after this many bytes (monotone index); None = complete
    pub truncate: Option<u16>,
    pub one_by_one: bool,
    /// seconds of silence between the (bad / unfinished) preamble and the session frames behind it:
    /// no amount of waiting may turn an unauthenticated connection into a session
    #[serde(default)]
    pub pause_s: u8,
    /// Some((k, related)): the server of this case is configured with password k of a list of
    /// passwords with surrounding blanks / line breaks / differing only in case; the client presents
    /// the hash of that very password (related = 0) or of a related one: trimmed (1), lower-cased
    /// (2), with the final character dropped (3), with a NUL appended (4)
    #[serde(default)]
    pub odd_password: Option<(u8, u8)>,
    /// Some((cut, secs)): the preamble (flip / truncation as above) is delivered in two pieces with
    /// this many seconds between them, the cut anywhere inside it - a slow but conforming client when
    /// the preamble is right
    #[serde(default)]
    pub split_pause: Option<(u16, u8)>,
    /// Some(n): n bytes that are not the beginning of the hash come first, then a pause of 12 s, then a
    /// complete right preamble and session: the first 32 bytes received were not the hash
    #[serde(default)]
    pub junk_first: Option<u8>,
    /// n > 0: the case runs against a server of its own that has first turned away n connections (wrong
    /// hash, half a hash, TLS without a byte, a bare TCP probe - in groups of eight at a time): what
    /// the server has seen before must not change who gets a session
    #[serde(default)]
    pub crowd_before: u16,
}

const ODD_PASSWORDS: [&str; 5] = ["  correct horse ", "hunter2\n", "\tTabbed Pass\r\n", "   ", "MiXeD case"];

fn related_password(pw: &str, how: u8) -> String {
    match how % 5 {
        0 => pw.to_string(),
        1 => pw.trim().to_string(),
        2 => pw.to_lowercase(),
        3 => pw[..pw.len() - 1].to_string(),
        _ => format!("{pw}\0"),
    }
}

pub struct BadAuthFam;

impl Family for BadAuthFam {
    type Case = BadAuthCase;
    fn name(&self) -> &'static str {
        "badauth"
    }
    fn fixed_cases(&self, _tier: Tier) -> Vec<BadAuthCase> {
        // an unfinished preamble (nothing at all / half a hash / padding not completed), a long silence,
        // then a complete session behind it
        vec![
            BadAuthCase { flip_bit: None, declared: 30, truncate: Some(0), one_by_one: false, pause_s: 6, odd_password: None, split_pause: None, junk_first: None, crowd_before: 0 },
            BadAuthCase { flip_bit: None, declared: 30, truncate: Some(16000), one_by_one: false, pause_s: 6, odd_password: None, split_pause: None, junk_first: None, crowd_before: 0 },
            BadAuthCase { flip_bit: None, declared: 30, truncate: Some(60000), one_by_one: false, pause_s: 6, odd_password: None, split_pause: None, junk_first: None, crowd_before: 0 },
            // hashes of related passwords: the trimmed form of a password configured with blanks around it
            BadAuthCase { flip_bit: None, declared: 30, truncate: None, one_by_one: false, pause_s: 0, odd_password: Some((0, 1)), split_pause: None, junk_first: None, crowd_before: 0 },
            BadAuthCase { flip_bit: None, declared: 30, truncate: None, one_by_one: false, pause_s: 0, odd_password: Some((1, 1)), split_pause: None, junk_first: None, crowd_before: 0 },
            BadAuthCase { flip_bit: None, declared: 30, truncate: None, one_by_one: false, pause_s: 0, odd_password: Some((3, 1)), split_pause: None, junk_first: None, crowd_before: 0 },
            BadAuthCase { flip_bit: None, declared: 30, truncate: None, one_by_one: false, pause_s: 0, odd_password: Some((1, 0)), split_pause: None, junk_first: None, crowd_before: 0 },
            // a right preamble in two slow pieces (cut inside the hash / inside the padding) is still right
            BadAuthCase { flip_bit: None, declared: 30, truncate: None, one_by_one: false, pause_s: 0, odd_password: None, split_pause: Some((16000, 12)), junk_first: None, crowd_before: 0 },
            BadAuthCase { flip_bit: None, declared: 300, truncate: None, one_by_one: false, pause_s: 0, odd_password: None, split_pause: Some((40000, 12)), junk_first: None, crowd_before: 0 },
            // junk, a long pause, then a right preamble: what came first was not the hash
            BadAuthCase { flip_bit: None, declared: 30, truncate: None, one_by_one: false, pause_s: 0, odd_password: None, split_pause: None, junk_first: Some(5), crowd_before: 0 },
            BadAuthCase { flip_bit: None, declared: 30, truncate: None, one_by_one: false, pause_s: 0, odd_password: None, split_pause: None, junk_first: Some(31), crowd_before: 0 },
            // a server that has turned away 140 / 300 connections still admits the holder of the password
            BadAuthCase { flip_bit: None, declared: 30, truncate: None, one_by_one: false, pause_s: 0, odd_password: None, split_pause: None, junk_first: None, crowd_before: 140 },
            BadAuthCase { flip_bit: None, declared: 0, truncate: None, one_by_one: true, pause_s: 0, odd_password: None, split_pause: None, junk_first: None, crowd_before: 300 },
            // ... and still turns away the next one
            BadAuthCase { flip_bit: Some(255), declared: 30, truncate: None, one_by_one: false, pause_s: 0, odd_password: None, split_pause: None, junk_first: None, crowd_before: 140 },
        ]
    }
    fn strategy(&self, tier: Tier) -> BoxedStrategy<BadAuthCase> {
        let pause = if tier == Tier::Thorough { prop_oneof![16 => Just(0u8), 2 => Just(6u8), 1 => Just(12u8), 1 => Just(35u8), 1 => Just(65u8)].boxed() } else { prop_oneof![14 => Just(0u8), 1 => Just(6u8)].boxed() };
        let odd = proptest::option::weighted(0.2, (0u8..5, 0u8..5));
        let slow = if tier == Tier::Thorough { 0.06 } else { 0.02 };
        let split = proptest::option::weighted(slow, (any::<u16>(), if tier == Tier::Thorough { prop_oneof![Just(3u8), Just(12), Just(25)].boxed() } else { prop_oneof![Just(3u8), Just(12)].boxed() }));
        let junk = if tier == Tier::Thorough { proptest::option::weighted(0.03, 1u8..32).boxed() } else { Just(None::<u8>).boxed() };
        let crowd = if tier == Tier::Thorough { prop_oneof![60 => Just(0u16), 1 => Just(20u16), 1 => Just(140), 1 => Just(300), 1 => Just(700)].boxed() } else { prop_oneof![100 => Just(0u16), 1 => Just(20u16), 1 => Just(140)].boxed() };
        (proptest::option::weighted(0.6, any::<u8>()), prop_oneof![Just(0u16), Just(1), Just(30), Just(255), Just(256), Just(4000), Just(65535)], proptest::option::weighted(0.25, any::<u16>()), any::<bool>(), pause, odd, split, junk, crowd)
            .prop_map(|(flip_bit, declared, truncate, one_by_one, pause_s, odd_password, split_pause, junk_first, crowd_before)| {
                if crowd_before > 0 {
                    // mostly followed by a right preamble (three in four)
                    BadAuthCase { flip_bit: flip_bit.filter(|b| b % 4 == 0), declared, truncate: None, one_by_one, pause_s: 0, odd_password: None, split_pause: None, junk_first: None, crowd_before }
                } else if junk_first.is_some() {
                    BadAuthCase { flip_bit: None, declared, truncate: None, one_by_one: false, pause_s: 0, odd_password: None, split_pause: None, junk_first, crowd_before: 0 }
                } else {
                    BadAuthCase { flip_bit, declared, truncate, one_by_one, pause_s, odd_password, split_pause, junk_first: None, crowd_before: 0 }
                }
            })
            .boxed()
    }
    fn case_budget_s(&self) -> u64 {
        200
    }
    fn run(&self, case: &BadAuthCase, _cx: &CaseCtx) -> CaseResult {
        let mut out = Outcome::new();
        let c = case.clone();
        let r: Result<bool, Fail> = with_world(|w| {
            w.rt.block_on(async {
                let case = c;
                let target = TcpTarget::start(IpAddr::V4(worker_ip_n(33)), TargetMode::Echo).await?;
                // the server: the world's, or one of its own configured with an odd password
                let (server, configured, presented) = match case.odd_password {
                    None if case.crowd_before > 0 => (start_real_server_with(anytls_rs::padding::DEFAULT_PADDING_SCHEME, PASSWORD).await?, PASSWORD.to_string(), PASSWORD.to_string()),
                    None => (w.server, PASSWORD.to_string(), PASSWORD.to_string()),
                    Some((k, how)) => {
                        let configured = ODD_PASSWORDS[k as usize % ODD_PASSWORDS.len()].to_string();
                        let presented = related_password(&configured, how);
                        (start_real_server_with(anytls_rs::padding::DEFAULT_PADDING_SCHEME, &configured).await?, configured, presented)
                    }
                };
                let mut pre = ref_preamble(&presented, case.declared as usize);
                if let Some(b) = case.flip_bit {
                    pre[(b / 8) as usize] ^= 1 << (b % 8);
                }
                let full = pre.len();
                if let Some(t) = case.truncate {
                    pre.truncate(idx(t, full));
                }
                let complete = pre.len() == full;
                let accepted = case.flip_bit.is_none() && complete && presented == configured;
                // The right hash followed by only part of the announced padding is not a wrong preamble:
                // the bytes that come next complete the padding (their content is not checked), and whatever
                // follows is parsed as frames - a holder of the password has sent a preamble in two pieces.
                // What becomes of such a connection is not judged (when the pieces happen to line up on a
                // frame boundary a session results, legitimately).
                let unjudged = case.flip_bit.is_none() && presented == configured && !complete && pre.len() >= 32;
                if case.crowd_before > 0 {
                    // connections the server turns away (or that go away by themselves), eight at a time
                    let hash = ref_hash(&configured);
                    let mut k = 0u16;
                    while k < case.crowd_before {
                        let mut hs = Vec::new();
                        for j in k..(k + 8).min(case.crowd_before) {
                            let mut wrong = ref_preamble(&configured, 30);
                            wrong[(j % 32) as usize] ^= 1 << (j % 8);
                            let half = hash[..16].to_vec();
                            hs.push(tokio::spawn(async move {
                                match j % 4 {
                                    0 => {
                                        if let Ok(mut c) = RefClient::connect(server).await {
                                            let _ = c.send_raw(&wrong).await;
                                            let _ = c.drain(2000).await;
                                        }
                                    }
                                    1 => {
                                        if let Ok(mut c) = RefClient::connect(server).await {
                                            let _ = c.send_raw(&half).await;
                                            let _ = c.tls.shutdown().await;
                                            let _ = c.drain(2000).await;
                                        }
                                    }
                                    2 => {
                                        if let Ok(c) = RefClient::connect(server).await {
                                            drop(c);
                                        }
                                    }
                                    _ => {
                                        if let Ok(t) = tokio::net::TcpStream::connect(server).await {
                                            drop(t);
                                        }
                                    }
                                }
                            }));
                        }
                        for h in hs {
                            let _ = h.await;
                        }
                        k += 8;
                    }
                    tokio::time::sleep(Duration::from_millis(100)).await;
                }
                let mut rc_ = match RefClient::connect(server).await {
                    Ok(c) => c,
                    Err(e) if case.crowd_before > 0 => {
                        // the server owes everyone a TLS handshake, whatever it has seen before
                        tokio::time::sleep(Duration::from_millis(300)).await;
                        match RefClient::connect(server).await {
                            Ok(c) => c,
                            Err(_) => return Err(Fail::plain("C06.e2e-pos", format!("after {} connections that the server turned away, the next connection does not even get its TLS handshake ({}): a peer presenting the right hash gets no session", case.crowd_before, e.detail))),
                        }
                    }
                    Err(e) => return Err(e),
                };
                if let Some(n) = case.junk_first {
                    // junk that is not the beginning of the hash, a long pause, then everything right
                    let hash = ref_hash(&configured);
                    let junk: Vec<u8> = (0..n.clamp(1, 31)).map(|i| hash[i as usize] ^ 0x5a).collect();
                    let _ = rc_.send_raw(&junk).await;
                    tokio::time::sleep(Duration::from_secs(12)).await;
                    let _ = rc_.send_raw(&ref_preamble(&configured, case.declared as usize)).await;
                    let dest = Dest::of(target.addr).encode();
                    let _ = rc_.send(&[RFrame::new(rc::SETTINGS, 0, b"v=2\nclient=ref\npadding-md5=x".to_vec()), RFrame::ctl(rc::SYN, 1), RFrame::new(rc::PSH, 1, dest), RFrame::new(rc::PSH, 1, b"payload-behind-preamble".to_vec())]).await;
                    let _ = rc_.drain(3000).await;
                    ensure!(rc_.raw_in == 0, "C06.e2e-neg", "{} bytes that are not the hash, 12 s of silence, then a right preamble: the server wrote {} application bytes - the first 32 bytes it received were not the hash", junk.len(), rc_.raw_in);
                    tokio::time::sleep(Duration::from_millis(50)).await;
                    ensure!(target.n_conns() == 0, "C06.e2e-neg", "{} bytes that are not the hash, 12 s of silence, then a right preamble: an outbound connection was made", junk.len());
                    return Ok(false);
                }
                if let Some((cut, secs)) = case.split_pause {
                    let at = idx(cut, pre.len() + 1).clamp(1.min(pre.len()), pre.len());
                    let _ = rc_.send_raw(&pre[..at]).await;
                    tokio::time::sleep(Duration::from_secs(secs as u64)).await;
                    let _ = rc_.send_raw(&pre[at..]).await;
                } else if case.one_by_one && pre.len() <= 300 {
                    for b in &pre {
                        let _ = rc_.send_raw(&[*b]).await;
                    }
                } else {
                    let _ = rc_.send_raw(&pre).await;
                }
                if !accepted && case.pause_s > 0 {
                    tokio::time::sleep(Duration::from_secs(case.pause_s as u64)).await;
                }
                // a valid session behind the preamble: settings, SYN, destination, payload
                let dest = Dest::of(target.addr).encode();
                let frames = vec![
                    RFrame::new(rc::SETTINGS, 0, b"v=2\nclient=ref\npadding-md5=x".to_vec()),
                    RFrame::ctl(rc::SYN, 1),
                    RFrame::new(rc::PSH, 1, dest),
                    RFrame::new(rc::PSH, 1, b"payload-behind-preamble".to_vec()),
                ];
                let _ = rc_.send(&frames).await;
                if unjudged {
                    let _ = rc_.tls.shutdown().await;
                    let _ = rc_.drain(1000).await;
                    return Ok(false);
                }
                if accepted {
                    // positive control: the target gets the connection and the bytes
                    let ok = wait_until(10_000, || target.total_received() >= 23).await;
                    ensure!(ok, "C06.e2e-pos", "a valid preamble with declared padding {} did not lead to a tunnel ({} connections at the target)", case.declared, target.n_conns());
                    let got = target.conn(0).map(|c| c.lock().unwrap().received.clone()).unwrap_or_default();
                    ensure!(got == b"payload-behind-preamble", "C06.skip", "after a preamble with declared padding {} the target received {:?} - frame parsing did not start right behind the padding", case.declared, String::from_utf8_lossy(&got));
                    let f = rc_.wait_for(5000, |f| f.cmd == rc::SYNACK).await;
                    ensure!(f.is_some_and(|f| f.data.is_empty()), "C06.e2e-pos", "no success SYNACK for an authenticated session");
                } else {
                    // the close is the positive event after which the negatives are evaluated
                    if !complete {
                        // a truncated preamble: we must end the connection ourselves for the server to finish
                        let _ = rc_.tls.shutdown().await;
                    }
                    let _ = rc_.drain(3000).await;
                    let who = if presented != configured { format!(" (server password {:?}, the client presented the hash of the related password {:?})", configured, presented) } else { String::new() };
                    ensure!(rc_.eof, "C06.e2e-neg", "the server did not close a connection with a bad preamble (flipped bit {:?}, truncated to {} of {} bytes){who}", case.flip_bit, pre.len(), full);
                    ensure!(rc_.raw_in == 0, "C06.e2e-neg", "the server wrote {} application bytes to an unauthenticated peer{who}", rc_.raw_in);
                    tokio::time::sleep(Duration::from_millis(50)).await;
                    ensure!(target.n_conns() == 0, "C06.e2e-neg", "an outbound connection was made for an unauthenticated peer (flipped bit {:?}, truncated: {})", case.flip_bit, !complete);
                }
                Ok(accepted)
            })
        });
        let accepted = match r {
            Ok(a) => a,
            Err(mut f) => {
                reset_world();
                if case.crowd_before > 0 && f.oracle != "INFRA" {
                    f.detail = format!("{} [after {} connections turned away by the same server]", f.detail, case.crowd_before);
                }
                return Err(f);
            }
        };
        out.nt(!accepted || case.declared >= 256 || case.crowd_before > 0);
        out.class_if(case.crowd_before >= 128, ">=128-connections-turned-away-before");
        out.class_if(accepted, "accepted");
        out.class_if(case.flip_bit.is_some(), "one-bit-off");
        out.class_if(case.truncate.is_some(), "truncated");
        out.class_if(case.declared >= 256, "L>=256");
        out.class_if(!accepted && case.pause_s > 0, "silence-before-frames");
        out.class_if(case.split_pause.is_some_and(|p| p.1 >= 12) && accepted, "right-preamble-in-two-slow-pieces");
        out.class_if(case.junk_first.is_some(), "junk-then-silence-then-a-right-preamble");
        out.class_if(case.odd_password.is_some_and(|(k, how)| related_password(ODD_PASSWORDS[k as usize % ODD_PASSWORDS.len()], how) != ODD_PASSWORDS[k as usize % ODD_PASSWORDS.len()]), "hash-of-a-related-password");
        out.class_if(case.odd_password.is_some_and(|(k, how)| related_password(ODD_PASSWORDS[k as usize % ODD_PASSWORDS.len()], how) == ODD_PASSWORDS[k as usize % ODD_PASSWORDS.len()]), "password-with-blanks-accepted");
        Ok(out)
    }
}

// ------------------------------------------------------------------------------------------
// family `inuse` (C12 client level): a session carrying a live stream is never reaped

#[derive(Clone, Debug, Serialize, Deserialize)]
pub struct InUseCase {
    pub min_idle: usize,
    pub streams: u8,
    /// how long the streams stay in use, in 100 ms steps
    pub hold: u8,
}

pub struct InUseFam;

impl Family for InUseFam {
    type Case = InUseCase;
    fn name(&self) -> &'static str {
        "inuse"
    }
    fn strategy(&self, _tier: Tier) -> BoxedStrategy<InUseCase> {
        (0usize..3, 1u8..4, 35u8..50).prop_map(|(min_idle, streams, hold)| InUseCase { min_idle, streams, hold }).boxed()
    }
    fn case_budget_s(&self) -> u64 {
        120
    }
    fn run(&self, case: &InUseCase, cx: &CaseCtx) -> CaseResult {
        let mut out = Outcome::new();
        let c = case.clone();
        let r = with_world(|w| {
            w.rt.block_on(async {
                let case = c;
                // check interval 1 s, idle timeout 2 s: the streams are held for 3.5 - 5 s
                let pool = anytls_rs::client::SessionPoolConfig { check_interval: Duration::from_secs(1), idle_timeout: Duration::from_secs(2), min_idle_sessions: case.min_idle };
                let client = real_client(w.server, anytls_rs::padding::DEFAULT_PADDING_SCHEME, pool)?;
                let socks = start_socks5(client.clone()).await?;
                let mut conns = Vec::new();
                for i in 0..case.streams {
                    let s = socks5_connect(socks, &Dest::of(w.echo_a.addr)).await.map_err(|e| Fail::plain("C12.live2", format!("request #{i} failed (reply {:?})", e)))?;
                    conns.push(s);
                }
                for step in 0..case.hold {
                    for (i, s) in conns.iter_mut().enumerate() {
                        let msg = format!("step{step:03}-conn{i}");
                        let ok = async {
                            s.write_all(msg.as_bytes()).await.ok()?;
                            read_exact_timeout(s, msg.len(), 3000).await.ok()
                        }
                        .await;
                        if ok.as_deref() != Some(msg.as_bytes()) {
                            let sig = "C12.inuse:session-pooled-while-in-use";
                            if cx.tolerate(sig) {
                                return Ok(true);
                            }
                            return Err(Fail::new(
                                "C12.inuse",
                                sig,
                                format!(
                                    "stream #{i} stopped echoing {:.1} s after it was opened although nobody closed it (check interval 1 s, idle timeout 2 s, min idle {}, {} streams in use): pool housekeeping tore down a session that carries an open stream",
                                    step as f64 * 0.1,
                                    case.min_idle,
                                    case.streams
                                ),
                            ));
                        }
                    }
                    tokio::time::sleep(Duration::from_millis(100)).await;
                }
                Ok(false)
            })
        });
        let hit = match r {
            Ok(h) => h,
            Err(f) => {
                reset_world();
                return Err(f);
            }
        };
        out.nt(true);
        out.class_if(hit, "known-finding-hit");
        out.class_if(case.min_idle == 0, "min_idle=0");
        out.class_if(case.streams >= 2, "streams>=2");
        Ok(out)
    }
}
