//! C10 — opening a stream reports the server's verdict exactly once.
//!
//! Lab-M family `verdict`: the real `Client::create_proxy_stream` runs on an in-memory session
//! placed in the client's pool (hook H3) against a scripted reference server that answers each
//! SYN according to a generated plan, in virtual time.

use crate::engine::*;
use crate::lab_mem::pipe::PipeParams;
use crate::lab_mem::*;
use crate::reference::codec::{self as rc, RFrame};
use anytls_rs::client::Client;
use proptest::prelude::*;
use serde::{Deserialize, Serialize};
use std::sync::Arc;
use tokio::io::{AsyncReadExt, AsyncWriteExt};
use tokio::time::{Duration, Instant};

pub fn property() -> Property {
    Property {
        id: "C10",
        level: "exploration",
        rule: "family `verdict` (Lab-M, virtual time): 1-6 create_proxy_stream calls racing on one in-memory session; for every call the scripted server's answer plan is generated: success / error text (ASCII, UTF-8, invalid UTF-8, 1 byte) / none, at 0, 1 ms, 29.999 s, 30 s, 30.001 s after the SYN, optionally duplicated (ok,err / err,ok / ok,ok), optionally preceded by answers addressed to another pending id or to an unknown id; optional session death (peer EOF / read error / Alert) at a generated instant; ServerSettings v=1/2/absent. A reference verdict function of the answer timeline says what each call must return and when. Non-trivial = an answer within 1 ms of the deadline, or duplicated/stray answers, or >= 2 racing opens, or death during the wait. Distinct = distinct serialized case. Three cases in ten start their calls without waiting for each other's SYN, over a client->server transport of 16 / 64 / unbounded capacity and with generated pre-emptions at the H1 points, so that open_stream calls overlap; which id belongs to which call is read from the destination each stream carries (port 80+i), an id carrying two destinations or a call without an id of its own is a violation. Family `front` (Lab-S, shared with C07/C16): requests through the real SOCKS5 and HTTP front-ends and the real client to a reference server that accepts, refuses (ordinary / unusual reason text), drops the connection on SYN or rejects the password: the application is told 'succeeded' / 200 only when the server accepted the stream, and a failure otherwise. One case in seven (without a death, sequential start) stalls the link 100 / 5000 / 29000 ms after the calls were made - the scripted server stops reading, no reset - while another stream of the session uploads 2 MB: the uploader sits in its write holding the session's write path; answers still arrive; every call must still complete as the model says. In half of the overlapping cases the peer sends FIN frames for ids that were never opened while the calls are inside open_stream (the receive loop works on the session's tables while streams are being registered); the calls must complete as the model says all the same.",
        assumptions: vec![
            "tokio paused clock / current-thread scheduler; the 30 s SYNACK deadline is the documented bound",
            "H3 verif_session_pool to place an in-memory session in the real client's pool",
            "an answer arriving exactly at the deadline may go either way",
        ],
        families: vec![(Box::new(VerdictFam), 300_000, 4_000_000), (Box::new(crate::props::front::FrontFam), 120, 2_000)],
    }
}

#[derive(Clone, Debug, Serialize, Deserialize, PartialEq)]
pub enum Ans {
    Ok,
    /// error text bytes
    Err(Vec<u8>),
}

#[derive(Clone, Debug, Serialize, Deserialize)]
pub struct Plan {
    /// answers for this call's own id: (delay in ms after the SYN was seen, answer)
    pub answers: Vec<(u64, Ans)>,
    /// a stray answer sent right after this SYN: Some((to_unknown_id, answer)); to_unknown_id=false
    /// addresses the previous still-pending call instead
    pub stray: Option<(bool, Ans)>,
}

#[derive(Clone, Debug, Serialize, Deserialize)]
pub enum Death {
    PeerEof,
    ReadErr,
    Alert,
}

#[derive(Clone, Debug, Serialize, Deserialize)]
pub struct VerdictCase {
    pub calls: Vec<Plan>,
    pub death: Option<(u64, Death)>,
    /// 0 = no ServerSettings, 1 / 2 = version sent
    pub server_v: u8,
    pub host_len: u8,
    /// Some((capacity, yields)): the calls are started without waiting for each other's SYN, over a
    /// transport of this capacity and with these forced pre-emptions at the H1 points - their
    /// open_stream calls really overlap (which id belongs to which call is read from the destinations)
    #[serde(default)]
    pub overlap: Option<(usize, Vec<u8>)>,
    /// Some(ms): the link to the server stalls this many ms after the calls were made (nothing is read
    /// any more, no reset) while an upload on another stream of the session is under way - the uploader
    /// sits in its write holding the session's write path. Answers still arrive. (Only without a death.)
    #[serde(default)]
    pub stall_upload: Option<u16>,
    /// overlapping calls only: while the calls are inside open_stream the peer sends FIN frames for
    /// ids that were never opened (the receive loop has to look them up and drop them) - a second
    /// actor working on the session's tables while streams are being registered
    #[serde(default)]
    pub fin_noise: bool,
}

pub struct VerdictFam;

fn delay_strategy() -> BoxedStrategy<u64> {
    prop_oneof![
        3 => Just(0u64),
        2 => Just(1u64),
        2 => Just(29_999u64),
        1 => Just(30_000u64),
        2 => Just(30_001u64),
        2 => 2u64..29_000,
        1 => 30_002u64..40_000,
    ]
    .boxed()
}

fn ans_strategy() -> BoxedStrategy<Ans> {
    prop_oneof![
        4 => Just(Ans::Ok),
        1 => Just(Ans::Err(b"x".to_vec())),
        2 => Just(Ans::Err(b"Failed to connect to 10.0.0.1:80: Connection refused".to_vec())),
        1 => Just(Ans::Err("目标不可达 ünreachable".as_bytes().to_vec())),
        1 => Just(Ans::Err(vec![0xff, 0xfe, b'b', b'a', b'd'])),
        // long reasons: multi-byte characters and invalid bytes around any plausible cut-off
        1 => (200usize..700).prop_map(|n| Ans::Err("é".repeat(n).into_bytes())),
        1 => (250usize..300).prop_map(|n| Ans::Err(vec![0xff; n])),
        1 => Just(Ans::Err(format!("{}{}", "x".repeat(255), "名前解決に失敗しました").into_bytes())),
    ]
    .boxed()
}

const DEADLINE_MS: u64 = 30_000;

#[derive(Debug)]
enum Expect {
    MustOk,
    MustErr(Option<Vec<u8>>),
    Timeout,
    Either,
}

/// Reference verdict: first outcome for the call's id.
fn expect(answers: &[(u64, Ans)], death_ms: Option<u64>) -> (Expect, u64) {
    // earliest answer (stable order)
    let first = answers.iter().min_by_key(|(t, _)| *t);
    let d = death_ms.unwrap_or(u64::MAX);
    match first {
        Some((t, a)) if *t < DEADLINE_MS && *t < d => (
            match a {
                Ans::Ok => Expect::MustOk,
                Ans::Err(text) => Expect::MustErr(Some(text.clone())),
            },
            *t,
        ),
        Some((t, _)) if *t == d && *t < DEADLINE_MS => (Expect::Either, *t),
        _ if d < DEADLINE_MS => (Expect::MustErr(None), DEADLINE_MS), // death first: Err, no later than the deadline
        Some((t, _)) if *t == DEADLINE_MS && d >= DEADLINE_MS => (Expect::Either, DEADLINE_MS),
        _ if d == DEADLINE_MS => (Expect::Either, DEADLINE_MS),
        _ => (Expect::Timeout, DEADLINE_MS),
    }
}

impl Family for VerdictFam {
    type Case = VerdictCase;
    fn name(&self) -> &'static str {
        "verdict"
    }
    fn strategy(&self, _tier: Tier) -> BoxedStrategy<VerdictCase> {
        let plan = (
            proptest::collection::vec((delay_strategy(), ans_strategy()), 0..3),
            proptest::option::weighted(0.25, (any::<bool>(), ans_strategy())),
        )
            .prop_map(|(answers, stray)| Plan { answers, stray });
        let death = proptest::option::weighted(0.3, (delay_strategy(), prop_oneof![Just(Death::PeerEof), Just(Death::ReadErr), Just(Death::Alert)]));
        let overlap = proptest::option::weighted(
            0.3,
            (prop_oneof![Just(16usize), Just(64), Just(1usize << 20)], proptest::collection::vec(prop_oneof![3 => Just(0u8), 2 => Just(1u8), 1 => Just(2u8), 1 => Just(3u8)], 0..40)),
        );
        let stall = proptest::option::weighted(0.15, prop_oneof![Just(100u16), Just(5000), Just(29_000)]);
        (proptest::collection::vec(plan, 1..=6), death, 0u8..3, prop_oneof![Just(9u8), Just(1), Just(255)], overlap, stall, any::<bool>())
            .prop_map(|(calls, death, server_v, host_len, overlap, stall, fin_noise)| {
                let stall_upload = if death.is_none() && overlap.is_none() { stall } else { None };
                VerdictCase { calls, death, server_v, host_len, fin_noise: fin_noise && overlap.is_some(), overlap, stall_upload }
            })
            .boxed()
    }
    fn run(&self, case: &VerdictCase, _cx: &CaseCtx) -> CaseResult {
        let mut out = Outcome::new();
        let c = case.clone();
        let res: Result<(), Fail> = run_virtual(async move {
            let case = c;
            let tls = Arc::new(tokio_rustls::TlsConnector::from(anytls_rs::util::tls::create_client_config().expect("client tls config")));
            let name = tokio_rustls::rustls::pki_types::ServerName::try_from("localhost").unwrap();
            let client = Arc::new(Client::new("pw", "127.0.0.1:1".to_string(), name, tls, default_padding()));
            client.stop_session_pool_cleanup().await;
            let pool = client.verif_session_pool();
            let overlap = case.overlap.clone();
            if let Some((_, yields)) = &overlap {
                install_schedule(yields.clone());
            }
            let stall_upload = if case.death.is_none() && overlap.is_none() { case.stall_upload } else { None };
            let mut l = link(PipeParams { capacity: overlap.as_ref().map(|o| o.0).unwrap_or(if stall_upload.is_some() { 1 << 16 } else { 1 << 22 }), ..Default::default() }, PipeParams::default());
            let sess = client_session(&mut l, default_padding(), None);
            sess.set_seq(pool.next_seq());
            within(WATCHDOG, sess.clone().start_client()).await;
            let in_h = l.s2c.clone();
            let ScriptPeer { mut r, mut w, .. } = ScriptPeer::server_side(&mut l);

            if case.server_v > 0 {
                let _ = w.write_all(&rc::encode(&RFrame::new(rc::SERVER_SETTINGS, 0, format!("v={}", case.server_v).into_bytes()))).await;
            }
            let t0 = Instant::now();
            // the scripted server: a timeline of sends, filled in as SYNs are seen
            let n = case.calls.len();
            let (syn_tx, mut syn_rx) = tokio::sync::mpsc::unbounded_channel::<u32>();
            let (psh_tx, mut psh_rx) = tokio::sync::mpsc::unbounded_channel::<(u32, Vec<u8>)>();
            tokio::spawn(async move {
                let mut p = rc::RParser::new();
                let mut buf = vec![0u8; 4096];
                loop {
                    match r.read(&mut buf).await {
                        Ok(0) | Err(_) => break,
                        Ok(k) => {
                            for f in p.feed(&buf[..k]) {
                                if f.cmd == rc::SYN {
                                    let _ = syn_tx.send(f.sid);
                                }
                                if f.cmd == rc::PSH {
                                    let _ = psh_tx.send((f.sid, f.data.clone()));
                                }
                            }
                        }
                    }
                }
            });
            // start the racing calls one after the other at t0 (each takes the session from the pool)
            let host = "h".repeat(case.host_len as usize);
            let mut handles = Vec::new();
            let mut ids: Vec<u32> = Vec::new();
            let mut timeline: Vec<(u64, usize, Vec<u8>)> = Vec::new(); // (at ms, order, bytes)
            let mut order = 0usize;
            let mut own: Vec<Vec<(u64, Ans)>> = Vec::new();
            if overlap.is_some() {
                // every call takes the session from the pool and goes into open_stream; the next one is
                // started as soon as the pool is empty again - nobody waits for a SYN to reach the wire
                for i in 0..n {
                    pool.add_idle_session(sess.clone()).await;
                    let cl = client.clone();
                    let h = host.clone();
                    handles.push(tokio::spawn(async move {
                        let r = cl.create_proxy_stream((h, 80 + i as u16)).await;
                        (Instant::now(), r.map(|(st, _s)| st.id()).map_err(|e| e.to_string()))
                    }));
                    if case.fin_noise {
                        let _ = w.write_all(&rc::encode(&RFrame::ctl(rc::FIN, 0x6000_0000 + i as u32))).await;
                    }
                    for _ in 0..200 {
                        if pool.idle_count().await == 0 {
                            break;
                        }
                        tokio::task::yield_now().await;
                    }
                }
                // which stream id carries which call's destination (host of host_len bytes, port 80 + i)
                let dest_len = 2 + case.host_len as usize + 2;
                let mut per_id: std::collections::BTreeMap<u32, Vec<u8>> = Default::default();
                let mut by_call: Vec<Option<u32>> = vec![None; n];
                while by_call.iter().any(|c| c.is_none()) {
                    let Some((sid, data)) = within(Duration::from_millis(200), psh_rx.recv()).await.flatten() else {
                        let missing: Vec<usize> = by_call.iter().enumerate().filter(|(_, c)| c.is_none()).map(|(i, _)| i).collect();
                        return Err(Fail::plain("C10.once", format!("{n} overlapping calls: the destination of call(s) {:?} never reached the server under an id of its own (destination bytes per stream id: {:?})", missing, per_id.iter().map(|(k, v)| (*k, v.len())).collect::<Vec<_>>())));
                    };
                    let acc = per_id.entry(sid).or_default();
                    acc.extend_from_slice(&data);
                    if acc.len() > dest_len {
                        return Err(Fail::plain("C10.cross", format!("{n} overlapping calls: stream id {sid} carries {} destination bytes - more than one call was given this id", acc.len())));
                    }
                    if acc.len() == dest_len {
                        let port = u16::from_be_bytes([acc[dest_len - 2], acc[dest_len - 1]]) as usize;
                        if (80..80 + n).contains(&port) && by_call[port - 80].is_none() {
                            by_call[port - 80] = Some(sid);
                        }
                    }
                }
                while syn_rx.try_recv().is_ok() {}
                ids = by_call.into_iter().map(|c| c.unwrap()).collect();
                let enc = |id: u32, a: &Ans| rc::encode(&RFrame::new(rc::SYNACK, id, match a { Ans::Ok => Vec::new(), Ans::Err(t) => t.clone() }));
                for (i, plan) in case.calls.iter().enumerate() {
                    own.push(plan.answers.clone());
                    if let Some((unknown, a)) = &plan.stray {
                        if *unknown {
                            timeline.push((0, order, enc(0x7000_0000 + i as u32, a)));
                            order += 1;
                        } else if i > 0 {
                            own[i - 1].push((0, a.clone()));
                            timeline.push((0, order, enc(ids[i - 1], a)));
                            order += 1;
                        }
                    }
                    for (t, a) in &plan.answers {
                        timeline.push((*t, order, enc(ids[i], a)));
                        order += 1;
                    }
                }
            } else {
                for (i, plan) in case.calls.iter().enumerate() {
                    pool.add_idle_session(sess.clone()).await;
                    let cl = client.clone();
                    let h = host.clone();
                    handles.push(tokio::spawn(async move {
                        let r = cl.create_proxy_stream((h, 80 + i as u16)).await;
                        (Instant::now(), r.map(|(st, _s)| st.id()).map_err(|e| e.to_string()))
                    }));
                    // wait until this call's SYN has been seen by the server
                    let id = match within(Duration::from_millis(1), syn_rx.recv()).await.flatten() {
                        Some(id) => id,
                        None => return Err(Fail::plain("C10.once", format!("call #{i}: no SYN reached the server"))),
                    };
                    ids.push(id);
                    own.push(plan.answers.clone());
                    let enc = |id: u32, a: &Ans| rc::encode(&RFrame::new(rc::SYNACK, id, match a { Ans::Ok => Vec::new(), Ans::Err(t) => t.clone() }));
                    if let Some((unknown, a)) = &plan.stray {
                        if *unknown {
                            timeline.push((0, order, enc(0x7000_0000 + i as u32, a)));
                            order += 1;
                        } else if i > 0 {
                            // addressed to the previous call: it is an answer *for that id*, so the model counts it there
                            own[i - 1].push((0, a.clone()));
                            timeline.push((0, order, enc(ids[i - 1], a)));
                            order += 1;
                        }
                    }
                    for (t, a) in &plan.answers {
                        timeline.push((*t, order, enc(id, a)));
                        order += 1;
                    }
                }
            }
            if let Some(ms) = stall_upload {
                // another stream of the session, uploading; the link stalls under it
                let c2s_h = l.c2s.clone();
                let s2 = sess.clone();
                tokio::spawn(async move {
                    let Ok((st, _rx)) = s2.open_stream().await else { return };
                    tokio::time::sleep_until(t0 + Duration::from_millis(ms as u64)).await;
                    c2s_h.freeze_reader(true);
                    for _ in 0..64 {
                        if s2.write_data_frame(st.id(), bytes::Bytes::from(vec![0x77u8; 32 * 1024])).await.is_err() {
                            break;
                        }
                    }
                });
            }
            let death_ms = case.death.as_ref().map(|d| d.0);
            // play the timeline
            timeline.sort_by_key(|(t, o, _)| (*t, *o));
            let death = case.death.clone();
            let sess2 = sess.clone();
            let player = tokio::spawn(async move {
                let mut died = false;
                let mut ti = 0usize;
                loop {
                    let next_t = timeline.get(ti).map(|x| x.0);
                    let d = if died { None } else { death.as_ref().map(|d| d.0) };
                    let (at, is_death) = match (next_t, d) {
                        (None, None) => break,
                        (Some(t), None) => (t, false),
                        (None, Some(d)) => (d, true),
                        // at the same instant the answer is sent first, then the session dies
                        (Some(t), Some(d)) => if d < t { (d, true) } else { (t, false) },
                    };
                    tokio::time::sleep_until(t0 + Duration::from_millis(at)).await;
                    if is_death {
                        died = true;
                        match death.as_ref().unwrap().1 {
                            Death::PeerEof => in_h.eof_now(),
                            Death::ReadErr => in_h.read_err_now(crate::lab_mem::pipe::ErrKind::ConnectionReset),
                            Death::Alert => {
                                let _ = w.write_all(&rc::encode(&RFrame::new(rc::ALERT, 0, b"bye".to_vec()))).await;
                            }
                        }
                    } else {
                        let _ = w.write_all(&timeline[ti].2).await;
                        ti += 1;
                    }
                }
                let _ = sess2;
                w
            });

            // judge
            for (i, h) in handles.into_iter().enumerate() {
                let (exp, _) = expect(&own[i], death_ms);
                let res = within(WATCHDOG, h).await;
                let (done_at, r) = match res {
                    Some(Ok(x)) => x,
                    Some(Err(e)) => return Err(Fail::plain("C10.once", format!("call #{i} panicked: {e}"))),
                    None => return Err(Fail::new("C10.once", "C10.once:hang", format!("call #{i} (stream id {}) never completed (one virtual hour); expected {:?}", ids[i], exp))),
                };
                let took = done_at.duration_since(t0).as_millis() as u64;
                let tag = format!("call #{i} (stream id {}, answers {:?}, death {:?}) returned {:?} after {took} ms", ids[i], own[i], case.death, r);
                if took > DEADLINE_MS + 50 {
                    return Err(Fail::new("C10.once", "C10.once:late", format!("{tag}: later than the 30 s deadline")));
                }
                match exp {
                    Expect::MustOk => match &r {
                        Ok(id) if *id == ids[i] => {}
                        Ok(id) => return Err(Fail::plain("C10.cross", format!("{tag}: returned stream id {id}"))),
                        Err(_) => return Err(Fail::plain("C10.ok", format!("{tag}: the first outcome for its id was a success answer in time, the call must succeed"))),
                    },
                    Expect::MustErr(text) => match &r {
                        Ok(_) => return Err(Fail::plain("C10.ok", format!("{tag}: the call must fail (first outcome: {})", if text.is_some() { "an error answer" } else { "session death" }))),
                        Err(e) => {
                            if let Some(t) = text {
                                let want = String::from_utf8_lossy(&t).to_string();
                                if !e.contains(&want) {
                                    return Err(Fail::plain("C10.reason", format!("{tag}: the error does not carry the server's reason {:?}", want)));
                                }
                            } else {
                                // "with an error when the session dies first, and with a timeout error
                                // otherwise": a call whose session died must report that death - when it
                                // happens (close() takes at most its 1 s shutdown bound), not by running
                                // into the 30 s timeout
                                let d = death_ms.unwrap_or(0);
                                if took > d + 2_000 || e.contains("timeout") {
                                    return Err(Fail::plain(
                                        "C10.dead",
                                        format!("{tag}: the session died at {d} ms but the call only completed at {took} ms{}", if e.contains("timeout") { " with a timeout error" } else { "" }),
                                    ));
                                }
                            }
                        }
                    },
                    Expect::Timeout => match &r {
                        Ok(_) => return Err(Fail::plain("C10.timeout", format!("{tag}: no answer arrived in time, the call must time out"))),
                        Err(e) => {
                            if took < DEADLINE_MS {
                                return Err(Fail::plain("C10.cross", format!("{tag}: failed before the deadline although nothing was addressed to it and the session was alive ({e})")));
                            }
                        }
                    },
                    Expect::Either => {
                        if let Ok(id) = &r {
                            if *id != ids[i] {
                                return Err(Fail::plain("C10.cross", format!("{tag}: returned stream id {id}")));
                            }
                        }
                    }
                }
            }
            let _ = within(WATCHDOG, player).await;
            let _ = n;
            Ok(())
        });
        res?;
        let near = case.calls.iter().any(|p| p.answers.iter().any(|(t, _)| (29_999..=30_001).contains(t)));
        let dup = case.calls.iter().any(|p| p.answers.len() >= 2 || p.stray.is_some());
        let death_during = case.death.as_ref().is_some_and(|d| d.0 < DEADLINE_MS);
        out.nt(near || dup || case.calls.len() >= 2 || death_during);
        out.class_if(near, "answer-near-deadline");
        out.class_if(dup, "duplicate-or-stray");
        out.class_if(case.calls.len() >= 2, "racing>=2");
        out.class_if(case.calls.len() >= 2 && case.overlap.is_some(), "overlapping-open_stream");
        out.class_if(case.fin_noise && case.overlap.is_some(), "peer-FINs-for-unknown-ids-during-the-opens");
        out.class_if(case.stall_upload.is_some() && case.death.is_none() && case.overlap.is_none(), "link-stalled-under-an-upload");
        out.class_if(death_during, "death-during-wait");
        out.class_if(case.calls.iter().any(|p| p.answers.is_empty()), "no-answer");
        Ok(out)
    }
}
