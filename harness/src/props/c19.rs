//! C19 — a padding scheme pushed by the server takes effect on the client.
//!
//! Every history runs in a fresh child process (`vcheck c19-child <case json>`), because the state
//! that matters (the process-wide default padding factory) cannot be reset. The child drives one
//! real Client against the scripted reference server, which terminates TLS itself and reports the
//! plaintext it saw; the parent judges those observations with the reference scheme reader.

use crate::engine::*;
use crate::ensure_sig;
use crate::lab_sock::refpeer::*;
use crate::lab_sock::*;
use crate::reference::codec as rc;
use anytls_rs::client::SessionPoolConfig;
use anytls_rs::padding::PaddingFactory;
use bytes::Bytes;
use proptest::prelude::*;
use serde::{Deserialize, Serialize};
use std::sync::Arc;
use tokio::time::Duration;

pub fn property() -> Property {
    Property {
        id: "C19",
        level: "exploration",
        rule: "process-level histories, each in a fresh child process: whether the built-in default scheme was used before (as bin/client.rs does) or the client was configured with its own scheme; 1-4 sessions of one real Client against the scripted reference server (which sees the client's plaintext), the server's scheme per connection chosen from a family of schemes with pairwise distinct fixed sizes per line (so that a packet's total size names the scheme and the line that shaped it) or an unparsable scheme (no stop, non-numeric stop, binary); 1-5 small writes per session. Oracles: adopt - after a push, the remaining packets of that session below stop are sized by the pushed scheme; next - every later session announces the pushed scheme's md5, shapes preamble and packets by it and is not pushed again; again - the same for the 2nd, 3rd push; bad - an unparsable push leaves shaping, md5 and stream service untouched. Non-trivial = a push after the default was initialised, or a second push, or a second session. Distinct = distinct serialized case. The serverpush family also varies how the server's scheme text ends (nothing, LF, CRLF, two spaces, LF LF) and compares the pushed bytes with that exact text (the md5 the server will compare the next announcement with). Family `midwrite` (Lab-M; the process-wide default scheme makes its cases take turns): client session with scheme Fam(a), destination written, then the peer stops reading, a write of 0 / 300 / 5000 / 20000 / 70000 bytes is parked in a transport of capacity 64 / 256 / 4096, the peer sends UpdatePaddingScheme(Fam(b)), reads again; the following packets (payloads 1-1500) must put exactly Fam(b)'s line-k size on the transport.",
        assumptions: vec![
            "the reference server's view of the plaintext (frame sequence); a packet = the frames up to and including its padding frame (all sizes are chosen so that every packet below stop ends in exactly one padding frame)",
            "one child process per history; kernel loopback",
        ],
        families: vec![(Box::new(PushFam), 200, 4_000), (Box::new(ServerPushFam), 20_000, 1_000_000), (Box::new(MidWriteFam), 3_000, 100_000)],
    }
}

/// Scheme family: index j -> line k (1..=10) has the fixed size base(j) + 100k, line 0 = 20+j, stop = 11.
pub fn fam_scheme(j: u8) -> String {
    let base = 2000 + 1500 * j as usize;
    let mut s = "stop=11".to_string();
    s.push_str(&format!("\n0={0}-{0}", 20 + j as usize));
    for k in 1..=10 {
        s.push_str(&format!("\n{k}={0}-{0}", base + 100 * k));
    }
    s
}

/// A client scheme with the smallest stop: `stop=1`, line 0 = 19 - no session packet is padded, so the
/// session is already past its own stop when a push with a larger stop arrives (client_scheme >= 100).
pub fn small_scheme() -> String {
    "stop=1\n0=19-19".to_string()
}

pub fn client_scheme_text(cs: u8) -> String {
    if cs >= 100 { small_scheme() } else { fam_scheme(cs) }
}

fn fam_size(j: u8, k: usize) -> usize {
    2000 + 1500 * j as usize + 100 * k
}

#[derive(Clone, Debug, Serialize, Deserialize, PartialEq)]
pub enum ServerScheme {
    /// the built-in default scheme (what a server without a configured scheme runs)
    Builtin,
    /// a member of the scheme family
    Fam(u8),
    /// unparsable: 0 = no stop, 1 = non-numeric stop, 2 = binary
    Bad(u8),
}

impl ServerScheme {
    fn bytes(&self) -> Vec<u8> {
        match self {
            ServerScheme::Builtin => anytls_rs::padding::DEFAULT_PADDING_SCHEME.as_bytes().to_vec(),
            ServerScheme::Fam(j) => fam_scheme(*j).into_bytes(),
            ServerScheme::Bad(0) => b"1=100-200\n2=300-400".to_vec(),
            ServerScheme::Bad(1) => b"stop=eight\n1=100-200".to_vec(),
            ServerScheme::Bad(_) => vec![0xff, 0xfe, 0x00, 0x01, b's', b't', b'o', b'p', 0x80],
        }
    }
}

#[derive(Clone, Debug, Serialize, Deserialize)]
pub struct PushCase {
    /// true: the client is built with PaddingFactory::default() (as the binary does);
    /// false: with its own scheme Fam(client_scheme) and the default is never touched by the harness
    pub default_used: bool,
    pub client_scheme: u8,
    /// per session: the server's scheme and the number of data writes
    pub sessions: Vec<(ServerScheme, u8)>,
}

#[derive(Clone, Debug, Serialize, Deserialize, Default)]
pub struct ConnObs {
    pub auth_ok: bool,
    pub preamble_padding: Option<usize>,
    pub md5: Option<String>,
    /// (cmd, sid, payload length) of every frame in order
    pub frames: Vec<(u8, u32, usize)>,
    pub pushed: usize,
    pub echoes_ok: usize,
    pub open_ok: bool,
}

#[derive(Clone, Debug, Serialize, Deserialize, Default)]
pub struct ChildOut {
    pub conns: Vec<ConnObs>,
    pub error: Option<String>,
}

/// Entry point of the child process.
pub fn child_main(case_json: &str) {
    let case: PushCase = serde_json::from_str(case_json).expect("case json");
    let out = run_real(async move { child(&case).await });
    println!("{}", serde_json::to_string(&out).unwrap());
}

async fn child(case: &PushCase) -> ChildOut {
    let mut out = ChildOut::default();
    let beh = Behaviour { synack: true, echo: true, heartbeat: true, server_settings: true, scheme: None, schemes: case.sessions.iter().map(|s| s.0.bytes()).collect(), heartbeat_limit: None, uot_echo: None, ..Default::default() };
    let srv = match RefServer::start(PASSWORD, beh).await {
        Ok(s) => s,
        Err(f) => {
            out.error = Some(format!("INFRA {}", f.detail));
            return out;
        }
    };
    let padding: Arc<PaddingFactory> = if case.default_used { PaddingFactory::default() } else { Arc::new(PaddingFactory::new(client_scheme_text(case.client_scheme).as_bytes()).unwrap()) };
    let cfg = anytls_rs::util::tls::create_client_config().unwrap();
    let connector = Arc::new(tokio_rustls::TlsConnector::from(cfg));
    let name = tokio_rustls::rustls::pki_types::ServerName::IpAddress(srv.addr.ip().into());
    let client = anytls_rs::client::Client::with_pool_config(PASSWORD, srv.addr.to_string(), name, connector, padding, SessionPoolConfig::default());
    for (si, (_scheme, writes)) in case.sessions.iter().enumerate() {
        let mut obs = ConnObs::default();
        let r = tokio::time::timeout(Duration::from_secs(40), client.create_proxy_stream(("10.9.8.7".to_string(), 80))).await;
        match r {
            Ok(Ok((stream, session))) => {
                obs.open_ok = true;
                for w in 0..*writes {
                    let msg = format!("s{si}w{w}-payload");
                    if session.write_data_frame(stream.id(), Bytes::from(msg.clone().into_bytes())).await.is_err() {
                        break;
                    }
                    // wait for the echo: everything sent so far has been processed by the server
                    let mut got = vec![0u8; msg.len()];
                    let reader = stream.reader().clone();
                    let mut g = reader.lock().await;
                    if let Ok(Ok(())) = tokio::time::timeout(Duration::from_secs(10), g.read_exact(&mut got)).await {
                        if got == msg.as_bytes() {
                            obs.echoes_ok += 1;
                        }
                    }
                }
                // force the next request onto a fresh session
                let _ = session.close().await;
            }
            Ok(Err(e)) => out.error = Some(format!("session {si}: create_proxy_stream failed: {e}")),
            Err(_) => out.error = Some(format!("session {si}: create_proxy_stream timed out")),
        }
        tokio::time::sleep(Duration::from_millis(50)).await;
        if let Some(log) = srv.conn(si) {
            let l = log.lock().unwrap();
            obs.auth_ok = l.auth_ok;
            obs.preamble_padding = l.preamble_padding;
            obs.md5 = l.settings.get("padding-md5").cloned();
            obs.frames = l.frames.iter().map(|f| (f.cmd, f.sid, f.data.len())).collect();
            obs.pushed = l.pushed;
        }
        out.conns.push(obs);
        if out.error.is_some() {
            break;
        }
    }
    out
}

pub struct PushFam;

/// Run one history in a fresh child process and return what the reference server observed.
pub fn run_child(case: &PushCase) -> Result<ChildOut, Fail> {
    let exe = std::env::current_exe().map_err(|e| infra(format!("current_exe: {e}")))?;
    let json = serde_json::to_string(case).unwrap();
    let o = std::process::Command::new(exe).arg("c19-child").arg(&json).output().map_err(|e| infra(format!("spawn child: {e}")))?;
    if !o.status.success() {
        return Err(Fail::new("C19.bad", "C19.child-died", format!("the child process died: {:?}; stderr: {}", o.status, String::from_utf8_lossy(&o.stderr).chars().take(600).collect::<String>())));
    }
    let text = String::from_utf8_lossy(&o.stdout);
    let line = text.lines().last().unwrap_or("");
    serde_json::from_str(line).map_err(|e| infra(format!("child output not parseable: {e}: {line:?}")))
}

pub fn fam_md5(j: u8) -> String {
    md5_of(fam_scheme(j).as_bytes())
}

pub fn fam_line_size(j: u8, k: usize) -> usize {
    fam_size(j, k)
}

pub fn split_packets(frames: &[(u8, u32, usize)]) -> Vec<(usize, bool, bool)> {
    packets(frames)
}

/// Split the frames into packets. The child's call pattern is known: the first packet starts with
/// the settings frame (settings + SYN + destination), every keep-alive request and every data
/// frame after the destination is a write call of its own, i.e. starts a new packet; padding
/// frames belong to the packet they follow.
/// Returns (total bytes incl. headers, has a padding frame, carries a data write of the harness).
fn packets(frames: &[(u8, u32, usize)]) -> Vec<(usize, bool, bool)> {
    let mut v: Vec<(usize, bool, bool)> = Vec::new();
    let mut psh_seen = 0usize;
    for (cmd, _sid, len) in frames {
        let mut starts = false;
        let mut is_write = false;
        match *cmd {
            rc::SETTINGS => starts = true,
            // until the destination (first data frame) has gone out the session is still buffering:
            // a keep-alive request issued that early rides in packet 1 together with settings and SYN
            rc::HEART_REQ => starts = psh_seen >= 1,
            rc::PSH => {
                psh_seen += 1;
                if psh_seen >= 2 {
                    starts = true;
                    is_write = true;
                }
            }
            _ => {}
        }
        if starts || v.is_empty() {
            v.push((0, false, false));
        }
        let last = v.last_mut().unwrap();
        last.0 += 7 + len;
        if *cmd == rc::WASTE {
            last.1 = true;
        }
        if is_write {
            last.2 = true;
        }
    }
    v
}

fn md5_of(b: &[u8]) -> String {
    format!("{:x}", md5::compute(b))
}

pub fn judge(case: &PushCase, out: &ChildOut, cx: &CaseCtx) -> Result<(bool, bool), Fail> {
    if let Some(e) = &out.error {
        if e.starts_with("INFRA") {
            return Err(infra(e.clone()));
        }
    }
    // the scheme the client is expected to be using when a session starts
    #[derive(Clone, PartialEq, Debug)]
    enum Cur {
        Default,
        Fam(u8),
        /// the small-stop client scheme: no session packet is padded
        Small,
    }
    let mut cur = if case.default_used {
        Cur::Default
    } else if case.client_scheme >= 100 {
        Cur::Small
    } else {
        Cur::Fam(case.client_scheme)
    };
    let default_md5 = md5_of(anytls_rs::padding::DEFAULT_PADDING_SCHEME.as_bytes());
    let mut pushes = 0usize;
    let mut nt_push_after_default = false;
    let mut nt_second_push = false;
    for (si, (sscheme, writes)) in case.sessions.iter().enumerate() {
        let Some(obs) = out.conns.get(si) else {
            return Err(Fail::new("C19.bad", "C19.service", format!("session {si} was never established: {:?}", out.error)));
        };
        let tag = format!("session {si} (client expected to use {:?}, server scheme {:?}, default used before: {})", cur, sscheme, case.default_used);
        ensure_sig!(obs.auth_ok && obs.open_ok, "C19.bad", "C19.service", "{tag}: could not be opened ({:?})", out.error);
        ensure_sig!(obs.echoes_ok == *writes as usize, "C19.bad", "C19.service", "{tag}: {} of {} writes were echoed - stream service disturbed", obs.echoes_ok, writes);
        // what this session must announce
        let want_md5 = match &cur {
            Cur::Default => default_md5.clone(),
            Cur::Fam(j) => md5_of(fam_scheme(*j).as_bytes()),
            Cur::Small => md5_of(small_scheme().as_bytes()),
        };
        let next_sig = if pushes >= 1 { "C19.next:later-session-announces-old-scheme" } else { "C19.next" };
        if obs.md5.as_deref() != Some(want_md5.as_str()) {
            if !cx.tolerate(next_sig) {
                return Err(Fail::new(
                    "C19.next",
                    next_sig,
                    format!("{tag}: announced padding-md5 {:?}, expected {want_md5} ({} push(es) so far in this process)", obs.md5, pushes),
                ));
            }
            // keep judging with what the client evidently uses
            if let Some(j) = (0u8..8).find(|j| obs.md5.as_deref() == Some(md5_of(fam_scheme(*j).as_bytes()).as_str())) {
                cur = Cur::Fam(j);
            } else if obs.md5.as_deref() == Some(default_md5.as_str()) {
                cur = Cur::Default;
            } else if obs.md5.as_deref() == Some(md5_of(small_scheme().as_bytes()).as_str()) {
                cur = Cur::Small;
            }
        }
        if cur == Cur::Small {
            let pp = obs.preamble_padding.unwrap_or(usize::MAX);
            if pp != 19 && !cx.tolerate(next_sig) {
                return Err(Fail::new("C19.next", next_sig, format!("{tag}: preamble padding {pp}, scheme line 0 prescribes 19")));
            }
        }
        if let Cur::Fam(j) = &cur {
            let pp = obs.preamble_padding.unwrap_or(usize::MAX);
            if pp != 20 + *j as usize && !cx.tolerate(next_sig) {
                return Err(Fail::new("C19.next", next_sig, format!("{tag}: preamble padding {pp}, scheme line 0 prescribes {}", 20 + *j as usize)));
            }
        }
        // does the server push?
        let announced = obs.md5.clone().unwrap_or_default();
        let push_expected = md5_of(&sscheme.bytes()) != announced;
        ensure_sig!(
            (obs.pushed > 0) == push_expected,
            "C19.next",
            "C19.harness:push-count",
            "{tag}: the reference server pushed {} time(s), expected push: {push_expected}",
            obs.pushed
        );
        let pk = packets(&obs.frames);
        // packet 1 is shaped by the scheme in use at session start; packets >= 2 by the pushed one (if parsable)
        let after = match (push_expected, sscheme) {
            (true, ServerScheme::Fam(j)) => Cur::Fam(*j),
            (true, ServerScheme::Builtin) => Cur::Default,
            _ => cur.clone(),
        };
        if push_expected && matches!(sscheme, ServerScheme::Fam(_) | ServerScheme::Builtin) {
            pushes += 1;
            if case.default_used {
                nt_push_after_default = true;
            }
            if pushes >= 2 {
                nt_second_push = true;
            }
        }
        for (pi, (total, padded, has_write)) in pk.iter().enumerate() {
            let k = pi + 1;
            // Packet 1 (settings + SYN + destination) is shaped by the scheme in force at session
            // start. Packets carrying a harness write were sent after create_proxy_stream returned,
            // i.e. after the push had been processed (the reference server sends the push before the
            // SYNACK). Anything else (the monitor's keep-alive at start-up) may fall on either side.
            let fits = |c: &Cur| -> bool {
                match c {
                    Cur::Fam(j) => *padded && *total == fam_size(*j, k),
                    Cur::Default => *total < 2000,
                    Cur::Small => !*padded && *total < 1900,
                }
            };
            let ok = if k == 1 {
                fits(&cur)
            } else if *has_write {
                fits(&after)
            } else {
                fits(&cur) || fits(&after)
            };
            if !ok {
                let (oracle, sig) = if push_expected && k >= 2 {
                    if matches!(sscheme, ServerScheme::Bad(_)) {
                        ("C19.bad", "C19.bad:shaping".to_string())
                    } else if pushes >= 2 {
                        ("C19.again", "C19.again:later-push-not-adopted".to_string())
                    } else if case.default_used {
                        ("C19.adopt", "C19.adopt:default-already-initialised".to_string())
                    } else {
                        ("C19.adopt", "C19.adopt".to_string())
                    }
                } else {
                    ("C19.next", next_sig.to_string())
                };
                if !cx.tolerate(&sig) {
                    return Err(Fail::new(
                        oracle,
                        sig,
                        format!(
                            "{tag}: packet {k} is {total} bytes (padded: {padded}, carries a write: {has_write}); expected shaping by {:?} (line {k}{}); packet sizes {:?}",
                            if k == 1 { &cur } else { &after },
                            if let Cur::Fam(j) = if k == 1 { &cur } else { &after } { format!(" = {}", fam_size(*j, k)) } else { String::new() },
                            pk.iter().map(|p| p.0).collect::<Vec<_>>()
                        ),
                    ));
                }
            }
        }
        cur = after;
    }
    Ok((nt_push_after_default, nt_second_push))
}

impl Family for PushFam {
    type Case = PushCase;
    fn name(&self) -> &'static str {
        "push"
    }
    fn strategy(&self, _tier: Tier) -> BoxedStrategy<PushCase> {
        let ss = prop_oneof![5 => (0u8..4).prop_map(ServerScheme::Fam), 1 => Just(ServerScheme::Builtin), 1 => (0u8..3).prop_map(ServerScheme::Bad)];
        (any::<bool>(), prop_oneof![4 => 0u8..4, 1 => Just(100u8)], proptest::collection::vec((ss, 1u8..5), 1..=4)).prop_map(|(default_used, client_scheme, sessions)| PushCase { default_used, client_scheme, sessions }).boxed()
    }
    fn fixed_cases(&self, _tier: Tier) -> Vec<PushCase> {
        vec![
            // no push at all: control
            PushCase { default_used: false, client_scheme: 1, sessions: vec![(ServerScheme::Fam(1), 3), (ServerScheme::Fam(1), 2)] },
            // one push into a client with its own scheme
            PushCase { default_used: false, client_scheme: 0, sessions: vec![(ServerScheme::Fam(2), 3), (ServerScheme::Fam(2), 2)] },
            // the binary's situation
            PushCase { default_used: true, client_scheme: 0, sessions: vec![(ServerScheme::Fam(1), 3), (ServerScheme::Fam(1), 2)] },
            // unparsable pushes
            PushCase { default_used: false, client_scheme: 3, sessions: vec![(ServerScheme::Bad(0), 2), (ServerScheme::Bad(1), 2), (ServerScheme::Bad(2), 2)] },
            // a client whose own scheme stops after packet 1, pushed a scheme with a larger stop
            PushCase { default_used: false, client_scheme: 100, sessions: vec![(ServerScheme::Fam(1), 4), (ServerScheme::Fam(1), 2)] },
            // a client with its own scheme against a server that runs the built-in one, and back
            PushCase { default_used: false, client_scheme: 2, sessions: vec![(ServerScheme::Builtin, 3), (ServerScheme::Builtin, 2), (ServerScheme::Fam(1), 2), (ServerScheme::Builtin, 2)] },
        ]
    }
    fn case_budget_s(&self) -> u64 {
        200
    }
    fn run(&self, case: &PushCase, cx: &CaseCtx) -> CaseResult {
        let mut out = Outcome::new();
        let child = run_child(case)?;
        let (a, b) = judge(case, &child, cx)?;
        out.nt(a || b || case.sessions.len() >= 2);
        out.class_if(a, "push-after-default-initialised");
        out.class_if(b, "second-push");
        out.class_if(case.sessions.len() >= 2, "sessions>=2");
        out.class_if(case.sessions.iter().any(|s| matches!(s.0, ServerScheme::Bad(_))), "unparsable-push");
        Ok(out)
    }
}

// ------------------------------------------------------------------------------------------
// family `serverpush` (Lab-M): the real server session pushes its scheme exactly when the
// client's announced md5 differs, and pushes exactly its raw scheme

use crate::lab_mem::pipe::PipeParams;
use crate::lab_mem::*;
use crate::reference::codec::RFrame;

#[derive(Clone, Debug, Serialize, Deserialize)]
pub struct ServerPushCase {
    pub server_scheme: u8,
    /// what the client announces: Some(j) = md5 of Fam(j); None = no padding-md5 key at all
    pub announce: Option<u8>,
    pub version: u8,
    /// how the server's scheme text ends (a scheme file usually ends in a line break):
    /// 0 = nothing, 1 = LF, 2 = CRLF, 3 = two spaces, 4 = LF LF; the client may announce the md5 of
    /// exactly that text (same scheme) or of another one
    #[serde(default)]
    pub ending: u8,
}

const ENDINGS: [&str; 5] = ["", "\n", "\r\n", "  ", "\n\n"];

pub struct ServerPushFam;

impl Family for ServerPushFam {
    type Case = ServerPushCase;
    fn name(&self) -> &'static str {
        "serverpush"
    }
    fn strategy(&self, _tier: Tier) -> BoxedStrategy<ServerPushCase> {
        (0u8..4, proptest::option::weighted(0.9, 0u8..4), 0u8..4, prop_oneof![2 => Just(0u8), 1 => 1u8..5]).prop_map(|(server_scheme, announce, version, ending)| ServerPushCase { server_scheme, announce, version, ending }).boxed()
    }
    fn run(&self, case: &ServerPushCase, _cx: &CaseCtx) -> CaseResult {
        let mut out = Outcome::new();
        let c = case.clone();
        let res: Result<(), Fail> = run_virtual(async move {
            let case = c;
            let mut l = link(PipeParams::default(), PipeParams::default());
            let ending = ENDINGS[case.ending as usize % ENDINGS.len()];
            let scheme = format!("{}{ending}", fam_scheme(case.server_scheme));
            let (_srv, _rx, _t) = server_session(&mut l, padding(&scheme));
            let mut peer = ScriptPeer::client_side(&mut l);
            let mut settings = String::new();
            if case.version > 0 {
                settings.push_str(&format!("v={}\n", case.version));
            }
            settings.push_str("client=ref");
            if let Some(j) = case.announce {
                // the same scheme is announced as the md5 of the server's exact text
                settings.push_str(&format!("\npadding-md5={}", md5_of(format!("{}{}", fam_scheme(j), if j == case.server_scheme { ending } else { "" }).as_bytes())));
            }
            peer.send(&[RFrame::new(rc::SETTINGS, 0, settings.into_bytes())]).await.ok();
            let frames = peer.drain(Duration::from_millis(200)).await;
            let pushes: Vec<&RFrame> = frames.iter().filter(|f| f.cmd == rc::UPDATE_PADDING).collect();
            let differs = case.announce.is_some_and(|j| j != case.server_scheme);
            if differs {
                crate::ensure!(pushes.len() == 1, "C19.adopt", "client announced another scheme's md5 but the server sent {} UpdatePaddingScheme frames", pushes.len());
                crate::ensure!(
                    pushes[0].data == scheme.as_bytes() && pushes[0].sid == 0,
                    "C19.adopt",
                    "the pushed scheme ({} bytes, md5 {}) is not the server's scheme text ({} bytes, md5 {} - the md5 the server will compare the next session's announcement with)",
                    pushes[0].data.len(),
                    md5_of(&pushes[0].data),
                    scheme.len(),
                    md5_of(scheme.as_bytes())
                );
            } else {
                crate::ensure!(pushes.is_empty(), "C19.next", "the server pushed its scheme although the client announced the same md5 (or none)");
            }
            let ss = frames.iter().filter(|f| f.cmd == rc::SERVER_SETTINGS).count();
            crate::ensure!((ss == 1) == (case.version >= 2), "C19.next", "ServerSettings frames: {ss} for client version {}", case.version);
            Ok(())
        });
        res?;
        out.nt(case.announce.is_some_and(|j| j != case.server_scheme));
        out.class_if(case.announce.is_some_and(|j| j != case.server_scheme), "md5-differs");
        out.class_if(case.announce == Some(case.server_scheme), "md5-equal");
        out.class_if(case.ending % 5 != 0, "scheme-text-ends-in-whitespace");
        Ok(out)
    }
}

// ------------------------------------------------------------------------------------------
// family `midwrite` (Lab-M): the push arrives while the session is in the middle of a write

#[derive(Clone, Debug, Serialize, Deserialize)]
pub struct MidWriteCase {
    /// the client's own scheme Fam(a) and the pushed scheme Fam(b), a != b
    pub a: u8,
    pub b: u8,
    /// size of the write that is parked in the transport when the push arrives (0 = nothing is parked)
    pub parked: usize,
    /// transport capacity (bytes in flight) while the peer is not reading
    pub capacity: usize,
    /// payload sizes of the packets written after the push has been processed
    pub later: Vec<usize>,
}

pub struct MidWriteFam;

impl Family for MidWriteFam {
    type Case = MidWriteCase;
    fn name(&self) -> &'static str {
        "midwrite"
    }
    fn strategy(&self, _tier: Tier) -> BoxedStrategy<MidWriteCase> {
        (0u8..4, 1u8..4, prop_oneof![Just(0usize), Just(300), Just(5000), Just(20_000), Just(70_000)], prop_oneof![Just(64usize), Just(256), Just(4096)], proptest::collection::vec(prop_oneof![Just(1usize), Just(50), 1usize..1500], 1..5))
            .prop_map(|(a, d, parked, capacity, later)| MidWriteCase { a, b: (a + d) % 4, parked, capacity, later })
            .boxed()
    }
    fn run(&self, case: &MidWriteCase, _cx: &CaseCtx) -> CaseResult {
        let mut out = Outcome::new();
        let c = case.clone();
        // A push replaces the *process-wide* default scheme and the session switches to that default:
        // cases of this family must not run side by side in one process (they take about a millisecond).
        static ONE_AT_A_TIME: std::sync::Mutex<()> = std::sync::Mutex::new(());
        let _turn = ONE_AT_A_TIME.lock().unwrap_or_else(|e| e.into_inner());
        let res: Result<(), Fail> = run_virtual(async move {
            use tokio::io::AsyncReadExt;
            let case = c;
            let (sa, sb) = (fam_scheme(case.a), fam_scheme(case.b));
            let mut l = link(PipeParams { capacity: case.capacity, ..Default::default() }, PipeParams::default());
            let h = l.c2s.clone();
            let sess = client_session(&mut l, padding(&sa), None);
            // the peer: reads only when told to, can send frames
            let mut sr = l.s_r.take().unwrap();
            let mut sw = l.s_w.take().unwrap();
            let go = Arc::new(tokio::sync::Notify::new());
            let go2 = go.clone();
            let reading = Arc::new(std::sync::atomic::AtomicBool::new(true));
            let reading2 = reading.clone();
            tokio::spawn(async move {
                let mut b = vec![0u8; 65536];
                loop {
                    if !reading2.load(std::sync::atomic::Ordering::SeqCst) {
                        go2.notified().await;
                        continue;
                    }
                    match tokio::time::timeout(Duration::from_millis(5), sr.read(&mut b)).await {
                        Ok(Ok(0)) | Ok(Err(_)) => break,
                        _ => {}
                    }
                }
            });
            within(WATCHDOG, sess.clone().start_client()).await;
            let (st, _rx) = match within(WATCHDOG, sess.open_stream()).await {
                Some(Ok(x)) => x,
                _ => return Err(Fail::plain("C19.adopt", "open_stream failed")),
            };
            sess.disable_buffering();
            // packet 1: settings + SYN + destination, shaped by the client's own scheme
            let r = within(WATCHDOG, sess.write_data_frame(st.id(), Bytes::from_static(b"\x01\x7f\x00\x00\x01\x00\x50"))).await;
            crate::ensure!(matches!(r, Some(Ok(()))), "C19.adopt", "the first write failed");
            settle(Duration::from_millis(50)).await;
            // the peer stops reading; a write is parked in the transport; the push arrives
            reading.store(false, std::sync::atomic::Ordering::SeqCst);
            settle(Duration::from_millis(20)).await;
            let parked = if case.parked > 0 {
                let s2 = sess.clone();
                let sid = st.id();
                let n = case.parked;
                Some(tokio::spawn(async move { s2.write_data_frame(sid, Bytes::from(vec![0x5a; n])).await.map_err(|e| e.to_string()) }))
            } else {
                None
            };
            settle(Duration::from_millis(50)).await;
            {
                use tokio::io::AsyncWriteExt;
                let _ = sw.write_all(&rc::encode(&RFrame::new(rc::UPDATE_PADDING, 0, sb.clone().into_bytes()))).await;
            }
            settle(Duration::from_millis(200)).await;
            // the peer reads again, the parked write gets through
            reading.store(true, std::sync::atomic::Ordering::SeqCst);
            go.notify_waiters();
            go.notify_one();
            if let Some(p) = parked {
                match within(WATCHDOG, p).await {
                    Some(Ok(Ok(()))) => {}
                    other => return Err(Fail::plain("C19.adopt", format!("the write that was under way when the push arrived did not complete: {:?}", other))),
                }
            }
            settle(Duration::from_millis(200)).await;
            crate::ensure!(!sess.is_closed(), "C19.bad", "the session closed itself around the push");
            // later packets of this session: shaped by the pushed scheme (line k is one fixed size, distinct
            // for every scheme of the family)
            let size = |j: u8, k: usize| 2000 + 1500 * j as usize + 100 * k;
            // which packet index the session is at: 1 was the destination, the parked write (if any) took
            // one index per frame it was split into
            let mut k = 1 + if case.parked > 0 { rc::psh_frames(1, &vec![0u8; case.parked]).len() } else { 0 };
            for (i, n) in case.later.iter().enumerate() {
                k += 1;
                if k >= 11 {
                    break;
                }
                let before = h.raw_len();
                let r = within(WATCHDOG, sess.write_data_frame(st.id(), Bytes::from(vec![0x33; *n]))).await;
                crate::ensure!(matches!(r, Some(Ok(()))), "C19.adopt", "a write after the push failed");
                settle(Duration::from_millis(100)).await;
                let got = h.raw_len() - before;
                let (want_b, want_a) = (size(case.b, k).max(n + 7), size(case.a, k).max(n + 7));
                if got != want_b {
                    return Err(Fail::plain(
                        "C19.adopt",
                        format!(
                            "packet {k} (write #{i} after the push, {n} payload bytes) put {got} bytes on the transport; the pushed scheme Fam({}) prescribes {want_b}{} - the push arrived while a {}-byte write was {} (transport capacity {})",
                            case.b,
                            if got == want_a { format!(", the session's original scheme Fam({}) prescribes {want_a}: the session did not switch", case.a) } else { String::new() },
                            case.parked,
                            if case.parked > 0 { "parked in the transport" } else { "not under way" },
                            case.capacity
                        ),
                    ));
                }
            }
            Ok(())
        });
        res?;
        out.nt(case.parked > case.capacity);
        out.class_if(case.parked > case.capacity, "push-arrives-during-a-parked-write");
        out.class_if(case.parked == 0, "push-arrives-between-writes");
        Ok(out)
    }
}
