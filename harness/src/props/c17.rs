//! C17 — the HTTP proxy forwards each request to its authority, unchanged in substance.
//!
//! Family `rewrite` (pure, hook H6): generated well-formed proxy requests through the private
//! parser + rewriter, judged against the reference reading (harness/src/reference/http.rs).

use crate::engine::*;
use crate::ensure;
use crate::reference::http::*;
use proptest::prelude::*;

pub fn property() -> Property {
    Property {
        id: "C17",
        level: "exploration",
        rule: "family `rewrite` (pure, hook H6): requests generated from an RFC 7230 grammar restricted to what senders generate (lower-case scheme, no userinfo, single SP, CRLF, US-ASCII/UTF-8): methods (tokens, CONNECT in any case), targets (authority-form host:port / [v6]:port / bare host; absolute-form http:// and https:// with and without port, path, query, empty path, query without path; origin-form + Host; `*`), HTTP/1.0 and 1.1, 0-40 header lines with duplicates and odd spacing, Host spelled in any letter case and at any position, header blocks up to ~64 KiB, body prefix 0-4 KiB. Oracles: target = authority per the reference (defaults 80/443, brackets stripped); forwarded bytes parse to the same method, origin-form target, version, the same header lines in order with only Host re-spelled to a value denoting the same host (and port if given; a Host line may be added only when there was none); body bytes kept exactly once. Non-trivial = non-CONNECT with >= 1 header besides Host, or a body prefix, or an IPv6/ported host, or a header block > 60 KiB. Distinct = distinct serialized case. One proxy case in three sends a burst of 8192, 9000, 20000, 70000 or 300000 more bytes in one write behind the header block (forwarded requests) or behind the 200 (CONNECT): the origin must receive all of them exactly once and in order. In every second burst case of a forwarded request the burst is written together with the header block, in one write: more body bytes are readable the moment the relay behind the header starts.",
        assumptions: vec![
            "reference request builder/parser in harness/src/reference/http.rs (RFC 7230 §5.3/§5.4)",
            "H6 verif_parse_and_rewrite calls the private parse_http_request + build_forward_request unchanged",
        ],
        families: vec![(Box::new(RewriteFam), 150_000, 4_000_000), (Box::new(crate::props::e2e::ProxyFam), 500, 3_000)],
    }
}

pub struct RewriteFam;

fn host_strategy() -> BoxedStrategy<HostSpec> {
    prop_oneof![
        5 => "[a-z][a-z0-9-]{0,12}(\\.[a-z][a-z0-9-]{0,8}){0,3}".prop_map(HostSpec::Name),
        1 => "[a-z0-9]{1,63}".prop_map(HostSpec::Name),
        2 => any::<[u8; 4]>().prop_map(HostSpec::V4),
        2 => prop_oneof![
            Just([0u16, 0, 0, 0, 0, 0, 0, 1]),
            Just([0u16; 8]),
            Just([0x2001, 0xdb8, 0, 0, 0, 0, 0, 0x80]),
            Just([0, 0, 0, 0, 0, 0xffff, 0x7f00, 1]),
            any::<[u16; 8]>(),
        ]
        .prop_map(HostSpec::V6),
    ]
    .boxed()
}

pub fn req_strategy(big: bool) -> BoxedStrategy<ReqGen> {
    let method = prop_oneof![
        6 => prop_oneof![Just("GET"), Just("POST"), Just("HEAD"), Just("PUT"), Just("DELETE"), Just("OPTIONS"), Just("PATCH"), Just("M-SEARCH"), Just("get")].prop_map(|s| s.to_string()),
        3 => prop_oneof![Just("CONNECT"), Just("connect"), Just("Connect")].prop_map(|s| s.to_string()),
    ];
    let form = prop_oneof![
        3 => Just(TargetForm::AbsoluteHttp),
        1 => Just(TargetForm::AbsoluteHttps),
        3 => Just(TargetForm::Origin),
        1 => Just(TargetForm::Asterisk),
    ];
    let port = prop_oneof![3 => Just(None), 1 => Just(Some(80u16)), 1 => Just(Some(443u16)), 1 => Just(Some(8080u16)), 1 => Just(Some(1u16)), 1 => Just(Some(65535u16)), 1 => any::<u16>().prop_map(Some)];
    let path = prop_oneof![
        2 => Just(String::new()),
        2 => Just("/".to_string()),
        4 => "/[a-zA-Z0-9._~%-]{0,12}(/[a-zA-Z0-9._~-]{0,8}){0,3}(\\?[a-z0-9=&%:/.-]{0,20})?",
        // the full pchar / query alphabets of RFC 3986 (sub-delims, ':' and '@' included)
        3 => "/[a-zA-Z0-9._~!$&'()*+,;=:@-]{0,12}(/[a-zA-Z0-9._~!$&'()*+,;=:@-]{0,8}){0,2}(\\?[a-zA-Z0-9._~!$&'()*+,;=:@/?-]{0,24})?",
        1 => Just("/users/@me?reply_to=bob@203.0.113.9:9000".to_string()),
        1 => "\\?[a-z0-9=&@:]{0,12}",
        1 => Just("/redirect?u=http://other.example/x:y".to_string()),
    ];
    let hname = prop_oneof![
        6 => "[A-Z][a-z]{1,8}(-[A-Z][a-z]{1,8}){0,2}",
        1 => Just("Hostname".to_string()),
        1 => Just("X-Forwarded-Host".to_string()),
        1 => Just("Proxy-Connection".to_string()),
        1 => Just("hosting".to_string()),
    ];
    let hval = prop_oneof![4 => "[ -~]{0,40}", 1 => "[a-z]{0,8}: [a-z]{0,8}", 1 => "üñí [a-z]{0,10}", 1 => Just("host: evil.example".to_string())];
    let max_headers = if big { 40 } else { 8 };
    // (the Host header has a generator of its own below: a random name that happens to spell it is renamed)
    let hname = hname.prop_map(|n| if n.eq_ignore_ascii_case("host") { "Hosts".to_string() } else { n });
    let headers = proptest::collection::vec((hname, 0u8..4, hval.prop_map(|v| v.trim().to_string())), 0..max_headers);
    let host_name = prop_oneof![4 => Just("Host"), 2 => Just("host"), 1 => Just("HOST"), 1 => Just("hOsT")].prop_map(|s| s.to_string());
    let host_header = proptest::option::weighted(0.7, (any::<u8>(), host_name, 0u8..4));
    let body = prop_oneof![3 => Just(Vec::new()), 2 => proptest::collection::vec(any::<u8>(), 1..64), 1 => proptest::collection::vec(any::<u8>(), 1000..4096)];
    (method, form, host_strategy(), port, path, any::<bool>(), headers, host_header, body)
        .prop_map(|(method, form, host, port, path, version11, headers, host_header, body)| ReqGen { method, form, host, port, path, version11, headers, host_header, body })
        .boxed()
}

/// The pure oracle (also used by the end-to-end family and the fuzz target).
pub fn check_rewrite(req: &ReqGen, pad_to: usize) -> CaseResult {
    let mut out = Outcome::new();
    let mut req = req.clone();
    if pad_to > 0 {
        // grow the header block towards the size cap with one long header
        let cur = req.build().header.len();
        if pad_to > cur + 16 {
            req.headers.push(("X-Pad".to_string(), 0, "p".repeat(pad_to - cur - 9)));
        }
    }
    let b = req.build();
    let res = anytls_rs::client::http_proxy::verif_parse_and_rewrite(&b.header, req.body.clone());
    let o = match res {
        Ok(o) => o,
        Err(e) => {
            return Err(Fail::new(
                "C17.target",
                "C17.target:refused",
                format!("a well-formed request was refused: {e}; request line {:?}, host line {:?}", b.header.lines().next().unwrap_or(""), b.host_line.map(|i| b.lines[i].clone())),
            ));
        }
    };
    ensure!(o.is_connect == b.is_connect, "C17.connect", "is_connect = {} for method {:?}", o.is_connect, req.method);
    ensure!(
        same_host(&o.host, &b.expect_host) && o.port == b.expect_port,
        "C17.target",
        "tunnel destination {}:{} but the request names {}:{} (request line {:?}, host line {:?})",
        o.host,
        o.port,
        b.expect_host,
        b.expect_port,
        b.header.lines().next().unwrap_or(""),
        b.host_line.map(|i| b.lines[i].clone())
    );
    ensure!(o.body == req.body, "C17.body", "body prefix changed: {} bytes in, {} bytes kept", req.body.len(), o.body.len());
    if !b.is_connect {
        let mut all = o.forward.clone();
        all.extend_from_slice(&o.body);
        check_forwarded(&req, &b, &all)?;
    }
    let v6 = matches!(req.host, HostSpec::V6(_));
    out.nt((!b.is_connect && !req.headers.is_empty()) || !req.body.is_empty() || v6 || req.port.is_some() || b.header.len() > 60 * 1024);
    out.class_if(b.is_connect, "connect");
    out.class_if(v6, "ipv6");
    out.class_if(req.port.is_some(), "ported");
    out.class_if(!req.body.is_empty(), "body-prefix");
    out.class_if(b.header.len() > 60 * 1024, "header>60KiB");
    out.class_if(matches!(req.form, TargetForm::AbsoluteHttp | TargetForm::AbsoluteHttps) && !b.is_connect, "absolute-form");
    out.class_if(b.host_line.is_some() && !["Host", "host"].contains(&req.host_header.as_ref().map(|h| h.1.as_str()).unwrap_or("Host")), "host-odd-case");
    Ok(out)
}


/// What the origin must have received for a non-CONNECT request: the rewritten header block
/// (same method, origin-form target, version, header lines in order, only Host re-spelled)
/// followed by exactly the body bytes.
pub fn check_forwarded(req: &ReqGen, b: &Built, bytes: &[u8]) -> Result<(), Fail> {
        let p = parse_forwarded(bytes).map_err(|e| Fail::plain("C17.forward", format!("forwarded request does not parse: {e}")))?;
        ensure!(
            p.rest == req.body,
            "C17.body",
            "{} body bytes followed the header, the origin received {} behind the forwarded header",
            req.body.len(),
            p.rest.len()
        );
        ensure!(p.method == req.method, "C17.forward", "method {:?} forwarded as {:?}", req.method, p.method);
        ensure!(
            p.target == b.origin_target,
            "C17.forward",
            "request-target forwarded as {:?}, origin-form of the request is {:?} (request line {:?})",
            p.target,
            b.origin_target,
            b.header.lines().next().unwrap_or("")
        );
        let version = if req.version11 { "HTTP/1.1" } else { "HTTP/1.0" };
        ensure!(p.version == version, "C17.forward", "version {version} forwarded as {:?}", p.version);
        // header lines in order; Host may be re-spelled; a Host line may be appended only if there was none
        let mut want = b.lines.clone();
        let mut got = p.lines.clone();
        let host_ok = |line: &str| -> bool {
            let Some((n, v)) = line.split_once(':') else { return false };
            if !n.eq_ignore_ascii_case("host") {
                return false;
            }
            match parse_host_value(v) {
                Some((h, port)) => same_host(&h, &b.expect_host) && port.is_none_or(|p| p == b.expect_port),
                None => false,
            }
        };
        match b.host_line {
            Some(i) => {
                ensure!(got.len() == want.len(), "C17.forward", "{} header lines sent, {} forwarded", want.len(), got.len());
                ensure!(
                    host_ok(&got[i]),
                    "C17.forward",
                    "Host line forwarded as {:?}, which does not denote {}:{}",
                    got[i],
                    b.expect_host,
                    b.expect_port
                );
                want.remove(i);
                got.remove(i);
            }
            None => {
                if got.len() == want.len() + 1 {
                    let last = got.pop().unwrap();
                    ensure!(host_ok(&last), "C17.forward", "added header line {:?} is not a Host line for {}:{}", last, b.expect_host, b.expect_port);
                }
            }
        }
        ensure!(
            got == want,
            "C17.forward",
            "header lines changed: first difference at line #{} (sent {:?}, forwarded {:?})",
            got.iter().zip(want.iter()).position(|(a, b)| a != b).unwrap_or(got.len().min(want.len())),
            want.iter().zip(got.iter()).find(|(a, b)| a != b).map(|x| x.0.clone()),
            want.iter().zip(got.iter()).find(|(a, b)| a != b).map(|x| x.1.clone())
        );
        Ok(())
}

#[derive(Clone, Debug, serde::Serialize, serde::Deserialize)]
pub struct RewriteCase {
    pub req: ReqGen,
    pub pad_to: usize,
}

impl Family for RewriteFam {
    type Case = RewriteCase;
    fn name(&self) -> &'static str {
        "rewrite"
    }
    fn strategy(&self, _tier: Tier) -> BoxedStrategy<RewriteCase> {
        let pad = prop_oneof![12 => Just(0usize), 1 => 60_000usize..64_513, 1 => 1000usize..60_000];
        (req_strategy(true), pad).prop_map(|(req, pad_to)| RewriteCase { req, pad_to }).boxed()
    }
    fn run(&self, case: &RewriteCase, _cx: &CaseCtx) -> CaseResult {
        check_rewrite(&case.req, case.pad_to)
    }
}
