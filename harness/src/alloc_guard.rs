//! Counting wrapper around the system allocator: records the largest single allocation
//! request made on each thread, so that an oracle can fail a case that asks for absurd
//! amounts of memory (no legitimate frame, scheme or header needs more than a few hundred KiB).

use std::alloc::{GlobalAlloc, Layout, System};
use std::cell::Cell;

pub struct Guard;

thread_local! {
    static MAX_REQ: Cell<usize> = const { Cell::new(0) };
}

unsafe impl GlobalAlloc for Guard {
    unsafe fn alloc(&self, l: Layout) -> *mut u8 {
        note(l.size());
        unsafe { System.alloc(l) }
    }
    unsafe fn dealloc(&self, p: *mut u8, l: Layout) {
        unsafe { System.dealloc(p, l) }
    }
    unsafe fn alloc_zeroed(&self, l: Layout) -> *mut u8 {
        note(l.size());
        unsafe { System.alloc_zeroed(l) }
    }
    unsafe fn realloc(&self, p: *mut u8, l: Layout, n: usize) -> *mut u8 {
        note(n);
        unsafe { System.realloc(p, l, n) }
    }
}

#[inline]
fn note(n: usize) {
    let _ = MAX_REQ.try_with(|m| {
        if n > m.get() {
            m.set(n);
        }
    });
}

/// Reset this thread's high-water mark.
pub fn reset() {
    MAX_REQ.with(|m| m.set(0));
}

/// Largest single request on this thread since the last reset.
pub fn max_request() -> usize {
    MAX_REQ.with(|m| m.get())
}

/// No legitimate frame, scheme or header needs a single allocation larger than this.
pub const LIMIT: usize = 64 << 20;
