//! verif-harness: property-based testing and fuzzing machinery for jxo-me/anytls-rs.
//! See /verif/DESIGN.md.

pub mod alloc_guard;
pub mod engine;
pub mod fuzz_entry;
pub mod fuzzrun;
pub mod gens;
pub mod lab_mem;
pub mod lab_sock;
pub mod props;
pub mod reference;
pub mod stall;

#[global_allocator]
static GLOBAL: alloc_guard::Guard = alloc_guard::Guard;
