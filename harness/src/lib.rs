//! verif-harness: property-based testing and fuzzing machinery for jxo-me/anytls-rs.
//! See /verif/DESIGN.md.

pub mod engine;
pub mod props;
pub mod reference;
