//! Corpus replay (both tiers) and bounded libFuzzer campaigns (thorough tier) for the byte-level
//! entry points of a property.

use crate::engine::*;
use crate::fuzz_entry;
use std::collections::BTreeSet;
use std::path::{Path, PathBuf};
use std::time::Instant;

fn files_in(dir: &Path) -> Vec<PathBuf> {
    let mut v: Vec<PathBuf> = std::fs::read_dir(dir).map(|r| r.filter_map(|e| e.ok().map(|e| e.path())).filter(|p| p.is_file()).collect()).unwrap_or_default();
    v.sort();
    v
}

fn fnv(data: &[u8]) -> u64 {
    let mut h = 0xcbf29ce484222325u64;
    for b in data {
        h ^= *b as u64;
        h = h.wrapping_mul(0x100000001b3);
    }
    h
}

/// Run one saved input through its target's oracle (used by `vcheck replay` for .bin files).
pub fn replay_bin(target: &str, path: &Path) -> Result<CaseResult, String> {
    let data = std::fs::read(path).map_err(|e| e.to_string())?;
    for (name, _prop, entry, _, _) in fuzz_entry::targets() {
        if name == target {
            let _ = take_panics();
            let r = std::panic::catch_unwind(|| entry(&data));
            let panics = take_panics();
            return Ok(match r {
                Ok(Ok(o)) if panics.is_empty() => Ok(o),
                Ok(Ok(_)) => Err(Fail::plain("panic", format!("a task panicked: {}", panics[0]))),
                Ok(Err(f)) => Err(f),
                Err(_) => Err(Fail::plain("panic", format!("panic: {}", panics.first().cloned().unwrap_or_default()))),
            });
        }
    }
    Err(format!("no fuzz target {target}"))
}

pub fn run(rc: &RunCtx, prop: &Property) -> Vec<FamilyReport> {
    let mut reports = Vec::new();
    let fuzz_dir = rc.verif_dir.join("harness").join("fuzz");
    let project_dir = rc.verif_dir.join("harness");
    let my: Vec<_> = fuzz_entry::targets().into_iter().filter(|t| t.1 == prop.id).collect();
    if my.is_empty() || !fuzz_dir.exists() {
        return reports;
    }
    // 1. corpus + kept artifacts through the oracle, in-process
    for (name, _p, entry, _max_len, _runs) in &my {
        let t0 = Instant::now();
        let mut rep = FamilyReport { family: format!("fuzz-corpus:{name}"), ..Default::default() };
        let mut files = files_in(&fuzz_dir.join("corpus").join(name));
        files.extend(files_in(&fuzz_dir.join("kept").join(name)));
        for f in files {
            let Ok(data) = std::fs::read(&f) else { continue };
            rep.evaluations += 1;
            let _ = take_panics();
            let r = std::panic::catch_unwind(|| entry(&data));
            let panics = take_panics();
            let res = match r {
                Ok(Ok(o)) if panics.is_empty() => Ok(o),
                Ok(Ok(_)) => Err(Fail::new(&format!("{}.panic", prop.id), format!("{}.panic:task", prop.id), format!("a task panicked: {}", panics[0]))),
                Ok(Err(fl)) => Err(fl),
                Err(_) => Err(Fail::new(&format!("{}.panic", prop.id), format!("{}.panic:case", prop.id), format!("panic: {}", panics.first().cloned().unwrap_or_default()))),
            };
            match res {
                Ok(o) => {
                    if o.nontrivial {
                        rep.nontrivial_hashes.insert(fnv(&data));
                    }
                    for c in o.classes {
                        *rep.classes.entry(c.to_string()).or_default() += 1;
                    }
                    if rep.samples.len() < 2 {
                        rep.samples.push(serde_json::json!({"file": f.file_name().map(|s| s.to_string_lossy().to_string()), "bytes": data.len()}));
                    }
                }
                Err(fl) => {
                    if rc.known.is_known(prop.id, &fl.sig) {
                        *rep.excluded_known.entry(fl.sig.clone()).or_default() += 1;
                        continue;
                    }
                    let dst = rc.verif_dir.join("replays").join(format!("{}-fuzz-{}-{:016x}.bin", prop.id, name, fnv(&data)));
                    let _ = std::fs::create_dir_all(dst.parent().unwrap());
                    let _ = std::fs::write(&dst, &data);
                    rep.violation = Some(Violation { fail: fl, replay_path: dst });
                    break;
                }
            }
        }
        rep.wall_s = t0.elapsed().as_secs_f64();
        reports.push(rep);
    }
    if rc.tier != Tier::Thorough || reports.iter().any(|r| r.violation.is_some()) {
        return reports;
    }
    // 2. bounded campaigns (thorough)
    let build = std::process::Command::new("cargo")
        .args(["+nightly", "fuzz", "build"])
        .current_dir(&project_dir)
        .env("CARGO_NET_OFFLINE", "true")
        .output();
    match build {
        Ok(o) if o.status.success() => {}
        Ok(o) => {
            println!("INCONCLUSIVE property={}: cargo fuzz build failed:\n{}", prop.id, String::from_utf8_lossy(&o.stderr).lines().rev().take(30).collect::<Vec<_>>().into_iter().rev().collect::<Vec<_>>().join("\n"));
            std::process::exit(2);
        }
        Err(e) => {
            println!("INCONCLUSIVE property={}: cannot start cargo fuzz: {e}", prop.id);
            std::process::exit(2);
        }
    }
    let handles: Vec<_> = my
        .iter()
        .flat_map(|(name, _p, _e, max_len, runs)| {
            // two campaigns per target: from the committed corpus and from an empty one
            [true, false].into_iter().map(move |seeded| (name.to_string(), *max_len, *runs / 2, seeded))
        })
        .map(|(name, max_len, runs, seeded)| {
            let fuzz_dir = fuzz_dir.clone();
            let project_dir = project_dir.clone();
            let seed = rc.seed;
            let prop_id = prop.id.to_string();
            let verif_dir = rc.verif_dir.clone();
            std::thread::spawn(move || {
                let t0 = Instant::now();
                let work = fuzz_dir.join("corpus-work").join(format!("{name}-{}-{}", if seeded { "seeded" } else { "empty" }, std::process::id()));
                let _ = std::fs::remove_dir_all(&work);
                let _ = std::fs::create_dir_all(&work);
                let art = fuzz_dir.join("artifacts").join(&name);
                let before: BTreeSet<PathBuf> = files_in(&art).into_iter().collect();
                let mut cmd = std::process::Command::new("cargo");
                cmd.args(["+nightly", "fuzz", "run", &name]).arg(&work);
                if seeded {
                    cmd.arg(fuzz_dir.join("corpus").join(&name));
                }
                cmd.arg("--")
                    .arg(format!("-runs={runs}"))
                    .arg(format!("-seed={}", (seed % 0xFFFF_FFFE) + 1))
                    .arg(format!("-max_len={max_len}"))
                    .arg("-len_control=0")
                    .arg("-max_total_time=900")
                    .arg("-timeout=60")
                    .arg("-rss_limit_mb=4096")
                    .arg("-malloc_limit_mb=1024")
                    .arg("-print_final_stats=1");
                cmd.current_dir(&project_dir).env("CARGO_NET_OFFLINE", "true");
                let out = cmd.output();
                let mut rep = FamilyReport { family: format!("libfuzzer:{name}:{}", if seeded { "seeded" } else { "empty" }), ..Default::default() };
                if let Ok(o) = out {
                    let err = String::from_utf8_lossy(&o.stderr).to_string();
                    for line in err.lines() {
                        if let Some(v) = line.strip_prefix("stat::number_of_executed_units:") {
                            rep.evaluations = v.trim().parse().unwrap_or(0);
                        }
                        if let Some(v) = line.strip_prefix("stat::new_units_added:") {
                            let n: u64 = v.trim().parse().unwrap_or(0);
                            // units that reached new coverage: distinct and non-trivial by construction
                            for i in 0..n {
                                rep.nontrivial_hashes.insert(fnv(format!("{name}-{seeded}-{i}").as_bytes()));
                            }
                        }
                    }
                    rep.samples.push(serde_json::json!({"target": name, "corpus": if seeded { "committed" } else { "empty" }, "runs_requested": runs, "executed": rep.evaluations}));
                    if !o.status.success() {
                        let after: Vec<PathBuf> = files_in(&art).into_iter().filter(|p| !before.contains(p)).collect();
                        if let Some(a) = after.first() {
                            let data = std::fs::read(a).unwrap_or_default();
                            let dst = verif_dir.join("replays").join(format!("{prop_id}-fuzz-{name}-{:016x}.bin", fnv(&data)));
                            let _ = std::fs::create_dir_all(dst.parent().unwrap());
                            let _ = std::fs::write(&dst, &data);
                            let msg = err.lines().filter(|l| l.contains("panicked") || l.contains("ERROR") || l.contains("SUMMARY")).take(4).collect::<Vec<_>>().join(" | ");
                            rep.violation = Some(Violation { fail: Fail::new(&format!("{prop_id}.fuzz"), format!("{prop_id}.fuzz:{name}"), format!("libFuzzer target {name} stopped on an input ({} bytes): {msg}", data.len())), replay_path: dst });
                        } else if rep.evaluations == 0 {
                            rep.violation = None;
                            rep.classes.insert("campaign-did-not-run".into(), 1);
                        }
                    }
                }
                let _ = std::fs::remove_dir_all(&work);
                rep.wall_s = t0.elapsed().as_secs_f64();
                rep
            })
        })
        .collect();
    for h in handles {
        if let Ok(r) = h.join() {
            reports.push(r);
        }
    }
    reports
}
