//! Generator for padding-scheme texts: everything `PaddingFactory::new` accepts.

use proptest::prelude::*;
use serde::{Deserialize, Serialize};

#[derive(Clone, Debug, Serialize, Deserialize)]
pub enum PartGen {
    Check,
    Range(u64, u64),
    /// A part the scheme parser skips.
    Junk(u8),
}

#[derive(Clone, Debug, Serialize, Deserialize)]
pub struct SchemeGen {
    pub stop: u32,
    /// (packet index, parts); a duplicated index means a duplicated line (the last one wins).
    pub lines: Vec<(u32, Vec<PartGen>)>,
    pub crlf: bool,
    pub junk_line: bool,
}

const JUNK: [&str; 8] = ["abc", "5", "0-0", "-3-4", "", " ", "7-", "x-9"];

impl SchemeGen {
    /// The built-in scheme of the crate.
    pub fn builtin() -> Self {
        use PartGen::*;
        let r = |a, b| Range(a, b);
        SchemeGen {
            stop: 8,
            lines: vec![
                (0, vec![r(30, 30)]),
                (1, vec![r(100, 400)]),
                (2, vec![r(400, 500), Check, r(500, 1000), Check, r(500, 1000), Check, r(500, 1000), Check, r(500, 1000)]),
                (3, vec![r(9, 9), r(500, 1000)]),
                (4, vec![r(500, 1000)]),
                (5, vec![r(500, 1000)]),
                (6, vec![r(500, 1000)]),
                (7, vec![r(500, 1000)]),
            ],
            crlf: false,
            junk_line: false,
        }
    }
    pub fn text(&self) -> String {
        let nl = if self.crlf { "\r\n" } else { "\n" };
        let mut out = format!("stop={}", self.stop);
        for (k, parts) in &self.lines {
            out.push_str(nl);
            let ps: Vec<String> = parts
                .iter()
                .map(|p| match p {
                    PartGen::Check => "c".to_string(),
                    PartGen::Range(a, b) => format!("{a}-{b}"),
                    PartGen::Junk(j) => JUNK[*j as usize % JUNK.len()].to_string(),
                })
                .collect();
            out.push_str(&format!("{k}={}", ps.join(",")));
        }
        if self.junk_line {
            out.push_str(nl);
            out.push_str("this line has no equals sign");
            out.push_str(nl);
            out.push_str("note=ignored");
        }
        out
    }
}

pub fn size_any() -> BoxedStrategy<u64> {
    prop_oneof![
        4 => prop_oneof![Just(1u64), Just(2), Just(6), Just(7), Just(8), Just(9), Just(29), Just(30), Just(31)],
        4 => 100u64..=1000,
        1 => Just(16384u64),
        2 => 65528u64..=65536,
        1 => prop_oneof![Just(65537u64), Just(70000), Just(131072)],
        1 => prop_oneof![Just(1_000_000u64), Just((1u64 << 31) - 1), Just(1u64 << 31), Just((1u64 << 31) + 1), Just((1u64 << 32) - 1), Just(3_000_000_000u64), Just(i64::MAX as u64)],
    ]
    .boxed()
}

/// Sizes every one of which can be honoured by a single record (<= 65528).
pub fn size_satisfiable() -> BoxedStrategy<u64> {
    prop_oneof![
        4 => prop_oneof![Just(1u64), Just(2), Just(6), Just(7), Just(8), Just(9), Just(14), Just(15), Just(16), Just(29), Just(30), Just(31)],
        4 => 32u64..=1200,
        1 => Just(16384u64),
        1 => 65500u64..=65528,
    ]
    .boxed()
}

pub fn scheme(size: BoxedStrategy<u64>, max_lines: usize) -> BoxedStrategy<SchemeGen> {
    let part = {
        let size2 = size.clone();
        prop_oneof![
            2 => Just(PartGen::Check),
            6 => (size.clone(), size2, 0u8..4).prop_map(|(a, b, m)| match m {
                0 => PartGen::Range(a, a),          // range of one
                1 => PartGen::Range(a.max(b), a.min(b)), // reversed
                _ => PartGen::Range(a.min(b), a.max(b)),
            }),
            1 => any::<u8>().prop_map(PartGen::Junk),
        ]
    };
    // lines 0..7 are each present with probability 0.8; up to two extra (possibly duplicate) lines
    let parts = proptest::collection::vec(part, 0..6);
    let base = proptest::collection::vec(proptest::option::weighted(0.8, parts.clone()), 0..=max_lines.min(8));
    let extra = proptest::collection::vec((0u32..9, parts), 0..3);
    let stop = prop_oneof![
        1 => Just(0u32), 1 => Just(1u32), 2 => Just(2u32), 2 => Just(3u32), 3 => Just(4u32), 3 => Just(8u32), 1 => Just(100u32), 1 => Just(u32::MAX),
    ];
    (stop, base, extra, any::<bool>(), proptest::bool::weighted(0.2))
        .prop_map(|(stop, base, extra, crlf, junk_line)| {
            let mut lines: Vec<(u32, Vec<PartGen>)> = base.into_iter().enumerate().filter_map(|(k, p)| p.map(|p| (k as u32, p))).collect();
            lines.extend(extra);
            SchemeGen { stop, lines, crlf, junk_line }
        })
        .boxed()
}
