pub mod scheme;
