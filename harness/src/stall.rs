//! Schedule perturbation for the multi-threaded loopback lab: a process-wide `tracing` subscriber
//! that does not log anything but, at a generated fraction of the crate's own trace/debug events,
//! blocks the calling runtime thread for a generated number of microseconds. The crate is
//! instrumented densely, so this widens the window between almost any two statements on one thread
//! while the other runtime threads keep running - interleavings that a quiet machine practically
//! never produces. Nothing in /repo changes; with the rate at 0 (the default) every event is
//! declined in `enabled` and costs a relaxed load.

use std::sync::atomic::{AtomicU32, AtomicU64, Ordering};
use tracing::span::{Attributes, Id, Record};
use tracing::{Event, Metadata, Subscriber};

/// stalls per 1024 events (0 = off)
static RATE: AtomicU32 = AtomicU32::new(0);
static MAX_US: AtomicU32 = AtomicU32::new(0);
static SEED: AtomicU64 = AtomicU64::new(0);
static COUNTER: AtomicU64 = AtomicU64::new(0);
pub static STALLS: AtomicU64 = AtomicU64::new(0);

struct Staller;

fn mix(mut x: u64) -> u64 {
    x ^= x >> 33;
    x = x.wrapping_mul(0xff51afd7ed558ccd);
    x ^= x >> 33;
    x = x.wrapping_mul(0xc4ceb9fe1a85ec53);
    x ^ (x >> 33)
}

impl Subscriber for Staller {
    fn enabled(&self, m: &Metadata<'_>) -> bool {
        RATE.load(Ordering::Relaxed) > 0 && m.is_event() && m.target().starts_with("anytls_rs::client")
    }
    fn register_callsite(&self, m: &'static Metadata<'static>) -> tracing::subscriber::Interest {
        if m.is_event() && m.target().starts_with("anytls_rs::client") {
            tracing::subscriber::Interest::sometimes()
        } else {
            tracing::subscriber::Interest::never()
        }
    }
    fn new_span(&self, _: &Attributes<'_>) -> Id {
        Id::from_u64(1)
    }
    fn record(&self, _: &Id, _: &Record<'_>) {}
    fn record_follows_from(&self, _: &Id, _: &Id) {}
    fn event(&self, _e: &Event<'_>) {
        let rate = RATE.load(Ordering::Relaxed) as u64;
        if rate == 0 {
            return;
        }
        let n = COUNTER.fetch_add(1, Ordering::Relaxed);
        let h = mix(SEED.load(Ordering::Relaxed) ^ n.wrapping_mul(0x9e3779b97f4a7c15));
        if (h & 1023) < rate {
            let max = MAX_US.load(Ordering::Relaxed).max(1) as u64;
            STALLS.fetch_add(1, Ordering::Relaxed);
            std::thread::sleep(std::time::Duration::from_micros((h >> 10) % max + 1));
        }
    }
    fn enter(&self, _: &Id) {}
    fn exit(&self, _: &Id) {}
}

/// Install the subscriber (once per process; a no-op if something else is installed already).
pub fn install() {
    static ONCE: std::sync::Once = std::sync::Once::new();
    ONCE.call_once(|| {
        let _ = tracing::subscriber::set_global_default(Staller);
    });
}

/// Stall at `rate` of 1024 client-side events for up to `max_us` microseconds (rate 0 = off).
pub fn configure(rate: u32, max_us: u32, seed: u64) {
    install();
    SEED.store(seed, Ordering::Relaxed);
    MAX_US.store(max_us, Ordering::Relaxed);
    RATE.store(rate.min(1024), Ordering::Relaxed);
}
