//! Byte-level entry points: decode libFuzzer's bytes into structured arguments and run the same
//! oracles as the proptest families. Used by the cargo-fuzz targets in /verif/fuzz (thorough tier)
//! and by the corpus/artifact replay inside vcheck (quick tier).

use crate::engine::*;
use crate::lab_mem::pipe::PipeParams;
use crate::props::{c03, c04, c06, c17, c20};

/// Minimal data provider.
pub struct Bytes<'a> {
    d: &'a [u8],
    p: usize,
}

impl<'a> Bytes<'a> {
    pub fn new(d: &'a [u8]) -> Self {
        Self { d, p: 0 }
    }
    pub fn u8(&mut self) -> u8 {
        let v = self.d.get(self.p).copied().unwrap_or(0);
        self.p += 1;
        v
    }
    pub fn u16(&mut self) -> u16 {
        u16::from_be_bytes([self.u8(), self.u8()])
    }
    pub fn u32(&mut self) -> u32 {
        u32::from_be_bytes([self.u8(), self.u8(), self.u8(), self.u8()])
    }
    pub fn take(&mut self, n: usize) -> &'a [u8] {
        let a = self.p.min(self.d.len());
        let b = (self.p + n).min(self.d.len());
        self.p += n;
        &self.d[a..b]
    }
    pub fn rest(&mut self) -> &'a [u8] {
        let a = self.p.min(self.d.len());
        self.p = self.d.len();
        &self.d[a..]
    }
    pub fn left(&self) -> usize {
        self.d.len().saturating_sub(self.p)
    }
}

fn frag(b: &mut Bytes) -> PipeParams {
    let sizes = [1usize, 2, 6, 7, 8, 13, 4096, 16384];
    let n = (b.u8() % 4) as usize;
    let mut r = Vec::new();
    for _ in 0..n {
        r.push(sizes[(b.u8() % 8) as usize]);
    }
    let caps = [64usize, 1024, 65536, 1 << 20];
    PipeParams { capacity: caps[(b.u8() % 4) as usize], write_sizes: vec![], read_sizes: r, delay_ms: 0 }
}

/// C03: the rest of the input is a byte stream, the head selects the cut positions.
pub fn codec_diff(data: &[u8]) -> CaseResult {
    let mut b = Bytes::new(data);
    let ncuts = (b.u8() % 6) as usize;
    let mut cuts = Vec::new();
    for _ in 0..ncuts {
        cuts.push(b.u16());
    }
    let whole = b.rest();
    let mut pts: Vec<usize> = cuts.iter().map(|c| idx(*c, whole.len() + 1)).filter(|p| *p > 0 && *p < whole.len()).collect();
    pts.sort_unstable();
    pts.dedup();
    let r = c03::check_stream(whole, &pts)?;
    // also: the first frame of the stream, re-encoded, must round-trip
    let (frames, _) = crate::reference::codec::parse(whole);
    if let Some(f) = frames.first() {
        if f.cmd <= 10 {
            c03::check_frame(&c03::FrameCase { cmd: f.cmd, sid: f.sid, len: f.data.len(), seed: f.data.first().copied().unwrap_or(0) })?;
        }
    }
    Ok(r)
}

/// C04: head = op list, tail = scheme text (must be accepted by the scheme parser, else skipped).
pub fn scheme_wire(data: &[u8]) -> CaseResult {
    let mut b = Bytes::new(data);
    let nops = (b.u8() % 10) as usize;
    let mut ops = Vec::new();
    for _ in 0..nops {
        let k = b.u8();
        ops.push(match k % 5 {
            0 => c04::Op::Open,
            1 => c04::Op::Unbuffer,
            4 => c04::Op::Heart,
            _ => {
                let cls = b.u8() % 5;
                let raw = b.u16() as usize;
                let len = match cls {
                    0 => raw % 41,
                    1 => raw % 1500,
                    2 => raw % 20000,
                    3 => 65528 + raw % 13,
                    _ => 65541 + raw % 80000,
                };
                c04::Op::Data(b.u16(), len)
            }
        });
    }
    let seed = b.u32() as u64;
    let text = String::from_utf8_lossy(b.rest()).to_string();
    if anytls_rs::padding::PaddingFactory::new(text.as_bytes()).is_err() {
        return Ok(Outcome::new());
    }
    let mut out = Outcome::new();
    c04::drive(&text, &ops, seed, &mut out)?;
    Ok(out)
}

/// C06: head = fragmentation, rest = the byte stream handed to authenticate_client.
pub fn auth_preamble(data: &[u8]) -> CaseResult {
    use crate::lab_mem::*;
    use sha2::{Digest, Sha256};
    use tokio::io::{AsyncReadExt, AsyncWriteExt};
    let mut b = Bytes::new(data);
    let mut p = frag(&mut b);
    // the whole stream is written before the reader starts: the pipe must hold it
    p.capacity = 1 << 22;
    let mode = b.u8();
    let expected: [u8; 32] = Sha256::digest(b"fuzz-password").into();
    let mut stream = b.rest().to_vec();
    if mode % 2 == 0 && stream.len() >= 32 {
        // half of the inputs start from the right hash so that the padding logic is reached
        stream[..32].copy_from_slice(&expected);
    }
    let s2 = stream.clone();
    let (res, rest) = run_virtual(async move {
        let (mut w, mut r, _h) = crate::lab_mem::pipe::pipe(p);
        w.write_all(&s2).await.unwrap();
        drop(w);
        let pad = default_padding();
        let res = within(WATCHDOG, anytls_rs::authenticate_client(&mut r, &expected, &pad)).await;
        let mut rest = Vec::new();
        let _ = within(WATCHDOG, r.read_to_end(&mut rest)).await;
        (res.map(|r| r.is_ok()), rest)
    });
    let Some(ok) = res else {
        return Err(Fail::plain("C06.iff", "authenticate_client did not return on a stream ended by EOF"));
    };
    let hash_ok = stream.len() >= 32 && stream[..32] == expected;
    let l = if stream.len() >= 34 { u16::from_be_bytes([stream[32], stream[33]]) as usize } else { usize::MAX };
    let holds = stream.len() >= 34 && stream.len() >= 34 + l;
    if ok != (hash_ok && holds) {
        return Err(Fail::plain("C06.iff", format!("authenticate_client accepted={ok}; hash matches: {hash_ok}, stream holds declared padding: {holds} (stream {} bytes)", stream.len())));
    }
    if ok && rest[..] != stream[34 + l..] {
        return Err(Fail::plain("C06.skip", format!("declared padding {l}: {} bytes left instead of {}", rest.len(), stream.len() - 34 - l)));
    }
    let _ = c06::property; // same oracle as the `preamble` family
    let mut o = Outcome::new();
    o.nt(hash_ok);
    Ok(o)
}

/// C17: structured decode into a request; the raw tail is used for header values and body.
pub fn http_rewrite(data: &[u8]) -> CaseResult {
    use crate::reference::http::*;
    let mut b = Bytes::new(data);
    let methods = ["GET", "POST", "HEAD", "PUT", "DELETE", "OPTIONS", "CONNECT", "connect", "PATCH", "M-SEARCH"];
    let method = methods[(b.u8() % 10) as usize].to_string();
    let form = match b.u8() % 4 {
        0 => TargetForm::AbsoluteHttp,
        1 => TargetForm::AbsoluteHttps,
        2 => TargetForm::Origin,
        _ => TargetForm::Asterisk,
    };
    let host = match b.u8() % 3 {
        0 => HostSpec::V4([b.u8(), b.u8(), b.u8(), b.u8()]),
        1 => HostSpec::V6([b.u16(), b.u16(), b.u16(), b.u16(), b.u16(), b.u16(), b.u16(), b.u16()]),
        _ => {
            let n = 1 + (b.u8() % 20) as usize;
            let raw = b.take(n);
            let mut s: String = raw.iter().map(|c| (b'a' + c % 26) as char).collect();
            if s.is_empty() {
                s.push('h');
            }
            HostSpec::Name(s)
        }
    };
    let port = match b.u8() % 4 {
        0 => None,
        1 => Some(80),
        2 => Some(443),
        _ => Some(b.u16()),
    };
    let clean = |raw: &[u8]| -> String { raw.iter().map(|c| if (0x21..0x7f).contains(c) && *c != b':' { *c as char } else { 'x' }).collect() };
    let path = match b.u8() % 4 {
        0 => String::new(),
        1 => "/".to_string(),
        2 => format!("/{}", clean(b.take(12)).replace(['?', '#'], "_")),
        _ => format!("?{}", clean(b.take(8)).replace(['?', '#', '/'], "_")),
    };
    let version11 = b.u8() % 2 == 0;
    let nh = (b.u8() % 6) as usize;
    let mut headers = Vec::new();
    for _ in 0..nh {
        let name: String = {
            let n = 1 + (b.u8() % 10) as usize;
            let s: String = b.take(n).iter().map(|c| (b'A' + c % 26) as char).collect();
            if s.eq_ignore_ascii_case("host") || s.is_empty() { "X-H".to_string() } else { s }
        };
        let vl = (b.u8() % 30) as usize;
        let value: String = b.take(vl).iter().map(|c| if (0x20..0x7f).contains(c) { *c as char } else { ' ' }).collect::<String>().trim().to_string();
        headers.push((name, b.u8() % 4, value));
    }
    let host_header = match b.u8() % 4 {
        0 => None,
        k => Some((b.u8(), ["Host", "host", "HOST", "hOsT"][k as usize % 4].to_string(), b.u8() % 4)),
    };
    let body = b.rest().to_vec();
    let req = ReqGen { method, form, host, port, path, version11, headers, host_header, body };
    c17::check_rewrite(&req, 0)
}

/// C20: head = fragmentation, rest = hostile bytes for an established session.
pub fn session_bytes(data: &[u8], server_role: bool) -> CaseResult {
    let mut b = Bytes::new(data);
    let p = frag(&mut b);
    let hostile = b.rest();
    c20::check_session_bytes(server_role, hostile, &p, None)
}

/// C20: head = parser selector + cuts, rest = the bytes.
pub fn parser_stream(data: &[u8], which: u8) -> CaseResult {
    let mut b = Bytes::new(data);
    let n = (b.u8() % 5) as usize;
    let mut cuts = Vec::new();
    for _ in 0..n {
        cuts.push(b.u16());
    }
    let bytes = b.rest();
    let mut pts: Vec<usize> = cuts.iter().map(|c| idx(*c, bytes.len() + 1)).collect();
    pts.sort_unstable();
    pts.dedup();
    c20::check_parser(which, bytes, &pts)
}

pub type Entry = fn(&[u8]) -> CaseResult;

/// C20: the bytes are the header block as read from the local application.
pub fn http_head_raw(d: &[u8]) -> CaseResult {
    c20::check_http_head(d)
}

fn sb_server(d: &[u8]) -> CaseResult {
    session_bytes(d, true)
}
fn sb_client(d: &[u8]) -> CaseResult {
    session_bytes(d, false)
}
fn p0(d: &[u8]) -> CaseResult {
    parser_stream(d, 0)
}
fn p1(d: &[u8]) -> CaseResult {
    // alternate between the request parser and the packet reader
    parser_stream(d, if d.first().copied().unwrap_or(0) % 2 == 0 { 1 } else { 2 })
}

/// (target name, property, entry, max_len, runs in the thorough tier)
pub fn targets() -> Vec<(&'static str, &'static str, Entry, usize, u64)> {
    vec![
        ("codec_diff", "C03", codec_diff as Entry, 20_000, 3_000_000),
        ("scheme_wire", "C04", scheme_wire as Entry, 512, 400_000),
        ("auth_preamble", "C06", auth_preamble as Entry, 2048, 1_000_000),
        ("http_rewrite", "C17", http_rewrite as Entry, 2048, 2_000_000),
        ("session_bytes_server", "C20", sb_server as Entry, 2048, 600_000),
        ("session_bytes_client", "C20", sb_client as Entry, 2048, 600_000),
        ("socks_addr_stream", "C20", p0 as Entry, 512, 1_000_000),
        ("uot_stream", "C20", p1 as Entry, 512, 1_000_000),
        ("http_head_raw", "C20", http_head_raw as Entry, 1024, 2_000_000),
    ]
}

/// Write a small seed corpus for every target (valid inputs built with the reference encoders).
pub fn gen_corpus(dir: &std::path::Path) {
    use crate::reference::codec::{self as rc, RFrame};
    let w = |target: &str, name: &str, data: Vec<u8>| {
        let d = dir.join(target);
        let _ = std::fs::create_dir_all(&d);
        let _ = std::fs::write(d.join(name), data);
    };
    // frames
    let frames = vec![
        RFrame::new(rc::SETTINGS, 0, b"v=2\nclient=ref\npadding-md5=0123456789abcdef0123456789abcdef".to_vec()),
        RFrame::ctl(rc::SYN, 2),
        RFrame::new(rc::PSH, 2, vec![1, 10, 0, 0, 1, 0, 80]),
        RFrame::new(rc::PSH, 2, b"hello world".to_vec()),
        RFrame::new(rc::WASTE, 0, vec![0; 30]),
        RFrame::ctl(rc::HEART_REQ, 0),
        RFrame::ctl(rc::HEART_RESP, 0),
        RFrame::ctl(rc::SYNACK, 2),
        RFrame::new(rc::SYNACK, 3, b"refused".to_vec()),
        RFrame::new(rc::SERVER_SETTINGS, 0, b"v=2".to_vec()),
        RFrame::new(rc::UPDATE_PADDING, 0, b"stop=3\n0=10-10\n1=100-200\n2=300-400,c,500-600".to_vec()),
        RFrame::ctl(rc::FIN, 2),
        RFrame::new(rc::ALERT, 0, b"bye".to_vec()),
    ];
    let all = rc::encode_all(&frames);
    let mut v = vec![2u8, 0x10, 0x00, 0x80, 0x00];
    v.extend_from_slice(&all);
    w("codec_diff", "frames-two-cuts", v);
    w("codec_diff", "one-frame", [vec![0u8], rc::encode(&frames[3])].concat());
    // a data frame larger than common read sizes, cut twice inside its payload, then a small frame
    let mut big = vec![2u8, 0x40, 0x00, 0xC0, 0x00];
    big.extend_from_slice(&rc::encode(&RFrame::new(rc::PSH, 5, (0..9000u32).map(|i| (i * 7 + 1) as u8).collect::<Vec<u8>>())));
    big.extend_from_slice(&rc::encode(&RFrame::new(rc::PSH, 5, b"tail".to_vec())));
    w("codec_diff", "large-frame-cut-inside", big);
    for (i, f) in frames.iter().enumerate() {
        let mut head = vec![1u8, 2, 3, 1];
        head.extend_from_slice(&rc::encode(f));
        w("session_bytes_server", &format!("frame{i}"), head.clone());
        w("session_bytes_client", &format!("frame{i}"), head);
    }
    let mut head = vec![0u8, 3];
    head.extend_from_slice(&all);
    w("session_bytes_server", "all", head.clone());
    w("session_bytes_client", "all", head);
    // hostile and plain header blocks
    for (i, h) in ["GET http://h:80/p?q HTTP/1.1\r\nHost: h\r\nAccept: */*\r\n\r\nbody", "CONNECT [::1]:443 HTTP/1.1\r\nHost: [::1]:443\r\n\r\n", "GET / HTTP/1.1\r\nhos\u{e9}: x\r\nHost: a:b:c\r\n\r\n", "GET http://]:/ HTTP/1.1\r\n\r\n"].iter().enumerate() {
        w("http_head_raw", &format!("head{i}"), h.as_bytes().to_vec());
    }
    // schemes
    for (i, s) in [anytls_rs::padding::DEFAULT_PADDING_SCHEME, "stop=0", "stop=3\n1=70000-70000\n2=c,5-9,c,2147483648-4294967295", "stop=100\r\n1=7-8,c,9-9\r\n1=30-31"].iter().enumerate() {
        let mut v = vec![4u8, 0, 1, 2, 1, 0, 200, 0, 0, 2, 3, 0, 5, 0, 0, 4, 0, 0, 0, 7];
        v.extend_from_slice(s.as_bytes());
        w("scheme_wire", &format!("scheme{i}"), v);
    }
    // preambles
    {
        use sha2::{Digest, Sha256};
        let h: [u8; 32] = Sha256::digest(b"fuzz-password").into();
        for (i, l) in [0u16, 5, 300].iter().enumerate() {
            let mut v = vec![1u8, 0, 2, 1];
            v.extend_from_slice(&h);
            v.extend_from_slice(&l.to_be_bytes());
            v.extend(std::iter::repeat_n(0u8, *l as usize));
            v.extend_from_slice(&rc::encode(&frames[0]));
            w("auth_preamble", &format!("valid{i}"), v);
        }
    }
    // http: structured bytes
    for i in 0u8..8 {
        let v: Vec<u8> = (0..64u8).map(|k| k.wrapping_mul(i + 3).wrapping_add(i)).collect();
        w("http_rewrite", &format!("seed{i}"), v);
    }
    // parsers
    w("socks_addr_stream", "v4", vec![1, 0, 3, 1, 10, 0, 0, 1, 0, 80, 9, 9]);
    w("socks_addr_stream", "name", [vec![0u8, 3, 9], b"localhost".to_vec(), vec![1, 187]].concat());
    w("socks_addr_stream", "v6", [vec![2u8, 0, 5, 0, 9, 4], vec![0u8; 15], vec![1, 0, 53]].concat());
    w("uot_stream", "req-v4", vec![0, 0, 1, 1, 127, 0, 0, 1, 0, 53]);
    w("uot_stream", "pkt", vec![1, 0, 0, 5, b'h', b'e', b'l', b'l', b'o', 0, 1, b'x']);
    println!("corpus written to {}", dir.display());
}
