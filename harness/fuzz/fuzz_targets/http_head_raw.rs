#![no_main]
use libfuzzer_sys::fuzz_target;

// The semantic oracle lives inside the target: the same function as the proptest family uses.
fuzz_target!(|data: &[u8]| {
    if let Err(f) = verif_harness::fuzz_entry::http_head_raw(data) {
        panic!("{} [{}]: {}", f.oracle, f.sig, f.detail);
    }
});
