#!/usr/bin/env python3
"""Regenerates MANIFEST.json from the table below (keeps the manifest consistent and valid)."""
import json, subprocess, sys

CHECKS = {
 # id: (level, technique, text, note, design_ref)
 "C03": ("exploration", "property-based differential testing against a reference codec (proptest) + chunking metamorphic relation",
         "Generated frames and byte streams (all 256 command bytes, boundary ids and lengths incl. >65535, every single-cut position of short streams, random multi-cuts, raw bytes) are run through the real FrameCodec and compared with an independent reference codec; sampling, exhaustive only on the small enumerated grids.",
         "trusts the reference codec written from the protocol description and bytes/tokio-util", "DESIGN.md §3 C03"),
}
CHECKS["C04"] = ("exploration", "property-based testing with a reference wire parser (proptest): generated schemes x generated API call sequences on the real client session over a recording in-memory transport; erase-padding equality",
         "Generated padding schemes (everything the scheme parser accepts, sizes 1..2^63-1) and call sequences; after every call the recorded wire must parse under the reference codec and, with padding erased, equal the reference encoding of the submitted frames. Sampling.",
         "trusts the reference codec/scheme reader, tokio's paused clock and current-thread scheduler, the harness pipe", "DESIGN.md §3 C04")
CHECKS["C05"] = ("exploration", "property-based testing against a nondeterministic reference acceptor for packet shapes (proptest)",
         "Generated satisfiable schemes and single-writer call sequences with payload sizes around the range bounds; each packet's logged write lengths must be explained by the reference acceptor for its line; preamble padding and server-side no-padding checked in separate families. Sampling.",
         "trusts the reference acceptor (DESIGN Appendix A.1); a packet = the transport writes logged during one API call of a single writer", "DESIGN.md §3 C05")
NOT_YET = {}

def main():
    props = [json.loads(l) for l in open('/verif/properties.jsonl')]
    ids = [p['id'] for p in props]
    hooks = subprocess.run(['git','-C','/repo','log','--format=%h %s','--grep=^verif-hooks'],capture_output=True,text=True).stdout.strip().splitlines()
    checks=[]
    for i in ids:
        if i in CHECKS:
            level, tech, text, note, ref = CHECKS[i]
            checks.append({
                "property_id": i,
                "quick_cmd": f"./check {i} quick",
                "thorough_cmd": f"./check {i} thorough",
                "evidence_file": f"/verif/evidence/{i}.json",
                "replay_cmd_template": f"./check {i} --replay {{path}}",
                "engine": "vcheck",
                "level_claimed": {"category": level, "text": text, "design_ref": ref},
                "level_note": note,
                "technique": tech,
            })
    na = [{"property_id": i, "reason": NOT_YET.get(i, "check not built yet in this session (work in progress; see DESIGN.md §8 build order) - the technique applies, nothing is claimed until the check exists")} for i in ids if i not in CHECKS]
    m = {
        "version": 1,
        "setup_cmd": "./check --build",
        "hooks": {
            "guard": "cargo feature verif-hooks",
            "enable": "harness/Cargo.toml depends on anytls-rs = { path = \"/repo\", features = [\"verif-hooks\"] }; every ./check rebuilds from /repo's working tree",
            "baseline_off_cmd": "cd /repo && cargo test --workspace --no-fail-fast --offline",
            "source_commits": [h.split()[0] for h in hooks],
            "add_only": True,
        },
        "engines": [
            {"name": "vcheck", "path": "harness/", "serves_properties": [c["property_id"] for c in checks],
             "kind_free_text": "proptest-driven runner (harness/src/engine.rs): fixed-work tiers, 16 seeded workers, shrinking to JSON replay files, known-findings handling, evidence writer"},
        ],
        "checks": checks,
        "not_applicable": na,
        "notes": "Property-based testing and fuzzing only. Exit 0 = held on everything explored, 1 = VIOLATION line, 2 = inconclusive (build/infrastructure). Known findings: /verif/known_findings.json.",
    }
    json.dump(m, open('/verif/MANIFEST.json','w'), indent=1)
    print("checks:", len(checks), "not_applicable:", len(na))

main()
