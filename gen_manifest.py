#!/usr/bin/env python3
"""Regenerates MANIFEST.json from the table below (keeps the manifest consistent and valid)."""
import json, subprocess, sys

CHECKS = {
 # id: (level, technique, text, note, design_ref)
 "C03": ("exploration", "property-based differential testing against a reference codec (proptest) + chunking metamorphic relation",
         "Generated frames and byte streams (all 256 command bytes, boundary ids and lengths incl. >65535, multi-frame streams with payloads over the whole 0..65535 range, every single-cut position of short streams, random multi-cuts, raw bytes) are run through the real FrameCodec and compared with an independent reference codec; sampling, exhaustive only on the small enumerated grids.",
         "trusts the reference codec written from the protocol description and bytes/tokio-util", "DESIGN.md §3 C03"),
}
CHECKS["C04"] = ("exploration", "property-based testing with a reference wire parser (proptest): generated schemes x generated API call sequences on the real client session over a recording in-memory transport; erase-padding equality",
         "Generated padding schemes (everything the scheme parser accepts, sizes 1..2^63-1) and call sequences (incl. answers to a peer's keep-alive requests), also over transports that accept only short writes or hold only a few hundred bytes in flight while a second writer (the answer to a keep-alive request) is active, or that keep everything until flush; after every call the recorded wire must parse under the reference codec and, with padding erased, equal the reference encoding of the submitted frames. Family after_error: one write or flush of the transport fails once and the transport recovers - anything the session writes afterwards must follow a complete frame and be a submitted frame. Sampling.",
         "trusts the reference codec/scheme reader, tokio's paused clock and current-thread scheduler, the harness pipe", "DESIGN.md §3 C04")
CHECKS["C05"] = ("exploration", "property-based testing against a nondeterministic reference acceptor for packet shapes (proptest)",
         "Generated satisfiable schemes and single-writer call sequences (local writes and answers to the peer's keep-alive requests) with payload sizes around the range bounds; each packet's logged write lengths must be explained by the reference acceptor for its line; preamble padding and server-side no-padding checked in separate families. Sampling.",
         "trusts the reference acceptor (DESIGN Appendix A.1); a packet = the transport writes logged during one API call of a single writer", "DESIGN.md §3 C05")

def _c(i, level, tech, text, note):
    CHECKS[i] = (level, tech, text, note, f"DESIGN.md §3 {i}")

_c("C01", "exploration", "property-based testing (proptest) on real sessions over a harness-owned in-memory transport: position-keyed round trip, prefix invariant, virtual-time watchdog",
   "1-4 streams between a real client and a real server session; generated chunk sizes around the 16-bit boundary, fragmentation, capacity, transports that stall for seconds and recover, padding scheme, write/read API, forced pre-emptions; every read is checked against position-keyed content, completion under a one-hour virtual watchdog; streams optionally ended by FIN or session close with late readers (nothing queued may be lost at the end). Plus end-to-end tunnels through SOCKS5 / HTTP CONNECT, real client, TLS, real server to a greeting+echo target on loopback, with late readers and 12/24 MiB uploads against a target that does not read at first. Sampling.",
   "trusts tokio's paused clock and current-thread scheduler and the harness pipe; the server session is wired as handle_connection wires it")
_c("C02", "exploration", "model-based property testing (proptest): generated frame histories from a scripted reference peer vs an id->instance model; instance-keyed payloads",
   "Generated SYN/PSH/FIN/SYNACK histories over a small id pool (stray, stale, duplicate, reused ids) against a real session in either role (client role also with foreign frames still in flight while open_stream runs under forced pre-emptions; local sends on any instance judged at the scripted peer), plus 2-8 concurrent streams between two real sessions; every byte is keyed by the stream instance it belongs to. Sampling.",
   "trusts the reference codec and the instance model; frames still in flight when an id is opened are not counted as stray (they are let to be processed first)")
_c("C06", "exploration", "property-based testing (proptest) of authenticate_client over a fragmenting reader with exhaustive small grids (256 bit flips, 32 prefixes, every truncation length) + end-to-end negatives against the real server on loopback + libFuzzer target auth_preamble",
   "iff-predicate on acceptance, exact consumed-bytes count for every declared padding length (all 65536 in thorough), termination on EOF. End to end: a reference client over TLS sends a wrong / truncated / correct preamble (optionally followed by 6-65 s of silence, or cut in two with 3-25 s between the pieces, or preceded by bytes that are not the hash, or sent to a server that has just turned away 20-700 other connections; also against servers configured with passwords that have blanks around them, presenting hashes of related passwords) and then a complete valid session; a target connection, a stream or any application byte back is allowed iff the hash was right.",
   "trusts sha2, the harness pipe and the reference client; kernel loopback for the end-to-end family")
_c("C08", "exploration", "property-based testing (proptest): scripted reference peer sends data+FIN back-to-back to a real session; history invariants (EOF after data, reverse direction alive, state released)",
   "Generated per-stream frame lists followed by FIN in one transport write with generated fragmentation, late/early readers with tiny buffers, reverse traffic before/after the FIN, siblings; both roles. Sampling. Server side with a reference client that sends FIN, also before the SYNACK (srv_fin: the target must see every byte and then end-of-stream, not a reset; also with 4-61 s of silence in the middle of the upload or of the reply). End to end (Lab-S): who closes or half-closes first (application, target) with amounts in flight in both directions through SOCKS5 -> client -> server -> target; P2/P3 (all data before the end, reverse direction alive) are armed, P1 (EOF arrives) is the listed known finding.",
   "trusts reference codec, H4 table sizes, paused clock")
_c("C09", "fault_enumeration", "fault enumeration over byte offsets of a recorded fault-free run + property-based sampling of scenario x cause x position x schedule (proptest), virtual-time watchdog",
   "Each cause (peer EOF, three read errors, write error at byte k, flush error, Alert, liveness timeout, owner close, hanging shutdown) is injected at offsets enumerated from the fault-free recording of the same scenario, in both roles, with blocked readers, pending opens and queued writers (for the liveness cause also with a peer that stops reading, so that writes back up in the transport); release invariants judged after one virtual hour.",
   "blocks forever = not completed after one virtual hour (documented bounds <= 60 s); the session's task-exit is judged only when the peer can observe the close")
_c("C10", "exploration", "property-based testing (proptest) in virtual time: real Client::create_proxy_stream on an in-memory pooled session vs a reference verdict function of the generated answer timeline",
   "1-6 racing opens (sequentially started or truly overlapping in open_stream over small-capacity transports with forced pre-emptions, optionally while the peer sends FINs for unknown ids), answers (ok / error text / none) at 0, 1 ms, 29.999 s, 30 s, 30.001 s, duplicated, stray, cross-addressed, long / multi-byte / invalid UTF-8 reasons, peer versions 0-2, session death during the wait (the call must end when the session dies, not at the timeout). Sampling.",
   "an answer exactly at the 30 s deadline may go either way; H3 gives access to the pool")
_c("C11", "exploration", "schedule exploration by property-based testing (proptest): generated yield counts at instrumented points + spawn order + transport back-pressure; invariants over the reference-parsed wire vs submission logs",
   "2-5 writer tasks on one fresh session doing what real callers do (incl. 65530-65540-byte sends), transport stalls of up to 61 s mid-history, the session's own keep-alive monitor as one more writer, crowds of 20-150 tasks opening on a fresh session before any of them writes; wire must parse, equal the submitted multiset, keep per-task FIFO, start with the settings frame and keep SYN before PSH. Plus simultaneous first requests on a real client with an empty pool on a multi-threaded runtime with runtime threads stalled at trace events (fresh_burst). Sampling of schedules at hook points and stall points only.",
   "schedules are explored at H1 points, transport Pendings and spawn order on a single-threaded runtime, and by thread stalls at trace events on the multi-threaded loopback runtime; data races below the statement level are out of reach")
_c("C12", "exploration", "model-based property testing (proptest) in virtual time: generated pool histories vs a validity predicate evaluated around every reaper tick",
   "Add/Get/Kill/Advance/Cleanup histories on the real SessionPool with in-memory sessions (some with slow-closing transports; whole-second and fractional idle timeouts; cleanup_expired racing with get_idle_session); predicate: never a closed session from Get, only expired sessions reaped, never below min idle, at most min idle expired survivors, idle_count agrees. Lab-S: a real client with 1 s / 2 s timers holding streams across reaper ticks (in-use sessions must survive: listed known finding, keyed on the in-use model) and bursts of 2-24 simultaneous requests on an empty pool (idle_count and hand-outs vs the model of dialled-and-not-taken sessions).",
   "which survivor is kept is left open; exact-boundary ages may go either way")
_c("C14", "exploration", "property-based testing (proptest) in virtual time over an (interval, timeout) grid x peer behaviours vs a reference spec of allowed close instants",
   "Real client session with heartbeat config against the real server session (delayed pipes) or a scripted peer that falls silent at generated instants, with/without traffic and send-buffer exhaustion, requests unpadded or padded and pushed piecewise through a 64-byte pipe; safe/detect/answer clauses on sampled is_closed. Plus a real-time glue family: the real Client (settings 1-3 s) against the reference server answering always, never, or only the first n requests.",
   "is_closed sampled every 100 ms virtual; 150 ms slack on the detect bound")
_c("C17", "exploration", "property-based differential testing (proptest) of the request parser/rewriter against a reference HTTP reading; grammar-based request generator",
   "Generated well-formed proxy requests (all target forms, IPv6, ports, header sets up to ~64 KiB, Host in any case/position, body prefix) through the private parse+rewrite functions (H6). Lab-S family `proxy`: the same request grammar in generated TCP segmentations (cuts inside the header terminator, header sizes at multiples of the 1 KiB read size, bursts of 8 KiB - 300 KB behind the header) against the real HTTP listener -> client -> server -> recording origin; CONNECT: 200 only after the tunnel exists, 502 otherwise, early data forwarded; libFuzzer target http_rewrite.",
   "generator restricted to what senders produce (lower-case scheme, no userinfo, UTF-8); reference per RFC 7230 §5.3/5.4")
_c("C18", "fault_enumeration", "enumeration of on-disk fault states (every truncation prefix, missing/garbled/mismatched/expired files) + property-based reload histories (proptest) vs a last-good-pair model, with real in-memory TLS handshakes",
   "Pool of single certificates and chain files (leaf + CA); paths that are symbolic links, files written with preserved or decreasing modification times. After every step the leaf certificate presented in a real handshake (signature verified), cert info and counters must match the last pair whose reload succeeded; old connections keep working. Plus the real Server::new_with_reloadable_tls accept path on loopback.",
   "prefixes ending inside the final PEM line may load or not; watcher/debounce not driven")

_c("C07", "exploration", "property-based testing (proptest): round trip + differential against a reference SOCKS address codec (Lab-M), resolver histories against a fake DNS, end-to-end dial histories on loopback",
   "Destinations of every address type and length through the real client encoder and the real server decoder (also each against the reference), resolver call histories with cache ageing and names whose DNS answer changes (entry-age model), simultaneous first lookups, and request histories by name through the SOCKS5 and HTTP front-ends (CONNECT, origin-form + Host with another listener's URL in the query, absolute-form) to listeners on distinct loopback addresses/ports: the requested listener, and only it, must be dialled. Family `front`: any IPv4/IPv6 address, names of 1..255 bytes and any port through both front-ends and the real client in generated segmentations, the destination read by the reference server (nothing dialled).",
   "fake DNS installed through the public set_custom_dns_servers; H7 ages the cache; kernel loopback for the dial family")
_c("C16", "exploration", "property-based testing (proptest) of the real SOCKS5 listener on loopback against a reference model of RFC 1928; generated greetings/requests and TCP segmentations",
   "Generated greetings, requests (all commands, address types, versions) and segmentations against the real front-end -> client -> TLS -> server -> loopback targets, with a neighbour connection, names of every length 1..255 and arbitrary addresses/ports observed by the reference server, also with faults in the AnyTLS leg that must be answered with a failure code (family `front`), optionally a second connection holding an unfinished greeting throughout, and a fresh connection afterwards. Sampling; negatives are evaluated after the front-end replied or closed.",
   "kernel loopback timing; one shared world per worker thread; localhost resolves to 127.0.0.1")

_c("C13", "exploration", "property-based testing (proptest) of request histories through the real SOCKS5 front-end with a counting TCP forwarder in front of the real server; invariants over the connection counts",
   "Generated sequential/bursty request histories with pauses, requests to a closed port, network cuts of every / of one established session and bursts in which one dial is accepted, left unanswered and cut late, pool settings varied (incl. 1 s / 2 s timers); the forwarder counts TLS connections opened and still open and the client's idle_count is compared with the pool model after every step. Lab-M family `pooled`: a real Client with in-memory pooled sessions, housekeeping concurrent with requests - a request must be served from the pool whenever a healthy session must survive. r2 (second non-overlapping request reuses) is armed; r3+ and the bound are listed known findings with witnesses (sessions are never returned to the pool).",
   "kernel loopback; forwarder accept count = sessions dialled; pool model: dial inserts, reuse removes, nothing returns (today's lifecycle)")
_c("C15", "exploration", "property-based testing (proptest): end-to-end datagram sequences, in lock-step and in back-to-back bursts, through create_udp_proxy on loopback, and the server relay fed a reference UDP-over-TCP stream with generated fragmentation",
   "Datagram sizes 1..65507 with keyed contents in both directions through the real client/server; IPv4 and IPv6 targets, stray datagrams from a third socket to the relay, bursts of 2-7 datagrams of different sizes queued on a relay socket at once (compared as multisets); server relay alone with cuts inside length prefixes and several packets per chunk; the real client's association against a reference server that echoes each datagram in fragments with 0-2600 ms between the frames; exactly-one/identical/ordered delivery and silence of a decoy socket.",
   "kernel loopback UDP in lock-step or in bursts of at most 60000 bytes (no socket buffer loss); reference UoT framing")
_c("C19", "exploration", "property-based testing (proptest) of process-level histories, each in a fresh child process, against a scripted reference server that observes the client's plaintext; reference scheme family with distinct fixed sizes",
   "1-4 sessions of one real Client per process, server scheme per connection (parsable with distinct sizes / the built-in scheme / unparsable), client schemes incl. stop=1, default used before or not; packet sizes, announced md5, preamble padding and push counts judged against the scheme that must be in force. Plus the real server session's push decision and exact pushed bytes in Lab-M (scheme texts ending in LF / CRLF / spaces), and a push that arrives while a write of the same session is parked in the transport (midwrite).",
   "one child process per history; the reference server's plaintext view; packets delimited by the child's known call pattern")

_c("C20", "exploration", "mutational property-based testing (proptest) of established real sessions and parsers with panic/allocation/quiescence/watchdog monitors and a sibling-stream oracle; coverage-guided fuzzing (libFuzzer via cargo-fuzz) of the same oracles in the thorough tier",
   "Generated frame sequences (every command x role, settings/scheme payloads) mutated by bit flips, truncation, duplication, reordering and length corruption, delivered in fragments to a real session with a sibling stream; arbitrary bytes in arbitrary chunking into the destination/UoT parsers; hostile and mutated header blocks into the HTTP front-end's header-end finder and parse+rewrite functions; mutated requests against the real HTTP listener with a neighbour; stray / stale / duplicate frames while the session opens streams of its own under forced pre-emptions (C02's history family). libFuzzer targets session_bytes_server/client, socks_addr_stream, uot_stream, http_head_raw run bounded campaigns in thorough; their corpus is replayed in quick.",
   "panics are counted by a process-wide hook; a stuck case is re-run in a child process before it is called a violation; fuzzed destinations never reach a socket (no dial handler in Lab-M; listener cases are confined to harness-owned targets)")

NOT_YET = {}

def main():
    props = [json.loads(l) for l in open('/verif/properties.jsonl')]
    ids = [p['id'] for p in props]
    hooks = subprocess.run(['git','-C','/repo','log','--format=%h %s','--grep=^verif-hooks'],capture_output=True,text=True).stdout.strip().splitlines()
    checks=[]
    for i in ids:
        if i in CHECKS:
            level, tech, text, note, ref = CHECKS[i]
            checks.append({
                "property_id": i,
                "quick_cmd": f"./check {i} quick",
                "thorough_cmd": f"./check {i} thorough",
                "evidence_file": f"/verif/evidence/{i}.json",
                "replay_cmd_template": f"./check {i} --replay {{path}}",
                "engine": "vcheck",
                "level_claimed": {"category": level, "text": text, "design_ref": ref},
                "level_note": note,
                "technique": tech,
            })
    na = [{"property_id": i, "reason": NOT_YET.get(i, "check not built yet in this session (work in progress; see DESIGN.md §8 build order) - the technique applies, nothing is claimed until the check exists")} for i in ids if i not in CHECKS]
    m = {
        "version": 1,
        "setup_cmd": "./check --build",
        "hooks": {
            "guard": "cargo feature verif-hooks",
            "enable": "harness/Cargo.toml depends on anytls-rs = { path = \"/repo\", features = [\"verif-hooks\"] }; every ./check rebuilds from /repo's working tree",
            "baseline_off_cmd": "cd /repo && cargo test --workspace --no-fail-fast --offline",
            "source_commits": [h.split()[0] for h in hooks],
            "add_only": True,
        },
        "engines": [
            {"name": "vcheck", "path": "harness/", "serves_properties": [c["property_id"] for c in checks],
             "kind_free_text": "proptest-driven runner (harness/src/engine.rs): fixed-work tiers, 16 seeded workers, shrinking to JSON replay files, known-findings handling, evidence writer"},
            {"name": "libfuzzer", "path": "harness/fuzz/", "serves_properties": ["C03", "C04", "C06", "C17", "C20"],
             "kind_free_text": "cargo-fuzz 0.13 / libFuzzer targets whose bodies call the same oracle functions (harness/src/fuzz_entry.rs); bounded campaigns (-runs, -seed) from the committed corpus and from an empty one in the thorough tier, corpus replay in the quick tier"},
        ],
        "checks": checks,
        "not_applicable": na,
        "notes": "Property-based testing and fuzzing only. Exit 0 = held on everything explored, 1 = VIOLATION line, 2 = inconclusive (build/infrastructure). Known findings: /verif/known_findings.json.",
    }
    json.dump(m, open('/verif/MANIFEST.json','w'), indent=1)
    print("checks:", len(checks), "not_applicable:", len(na))

main()
